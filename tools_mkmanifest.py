import json,sys
sys.path.insert(0,'/verif'); sys.setrecursionlimit(20000)
from m4lint import properties
props=[json.loads(l) for l in open('/verif/properties.jsonl')]
claimed=json.load(open('/verif/rules/claims.json'))
checks=[];na=[]
for p in props:
    pid=p['id']
    c=claimed.get(pid)
    if c and pid in properties.PROPS and not c.get('na'):
        checks.append(dict(property_id=pid, quick_cmd='./check %s quick'%pid, thorough_cmd='./check %s thorough'%pid,
          evidence_file='evidence/%s.json'%pid, replay_cmd_template='./check --explain {path}', engine='m4lint',
          level_claimed=dict(category=c['category'], text=c['text'], design_ref=c.get('design_ref','DESIGN.md §5')),
          level_note=c['note'], technique=c['technique']))
    else:
        na.append(dict(property_id=pid, reason=(c or {}).get('na') or 'check not built yet (see DESIGN.md §8 for the order of work); nothing is claimed for this property at this commit'))
m=dict(version=1, setup_cmd='python3 -c "import sys; sys.exit(0)"',
 hooks=dict(guard='M4RI_VERIF', enable='no source hook is needed: every check parses /repo with clang-14 and its own generated configuration header', baseline_off_cmd='cd /repo && make check', source_commits=[], add_only=True),
 engines=[dict(name='m4lint', path='m4lint/', serves_properties=[c['property_id'] for c in checks], kind_free_text='repository-specific static analyser: clang-14 AST (JSON) -> own CFG, points-to/effects, typestate, family/affine-fit, mask/position, phase and shape domains; Python stdlib only')],
 checks=checks, not_applicable=na,
 notes='Static analysis only. Exit 2 = analysis broken (anchor vanished, instance floor not met), never a verdict. known_findings.json lists recorded genuine defects; see DESIGN.md.')
json.dump(m,open('/verif/MANIFEST.json','w'),indent=1)
import jsonschema
jsonschema.validate(m,json.load(open('/root/.vp/MANIFEST.schema.json')))
print('manifest ok', [c['property_id'] for c in checks])
