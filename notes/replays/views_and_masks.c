#include <m4ri/m4ri.h>
#include <stdio.h>
#include <stdlib.h>
#include <string.h>
static int bad = 0;
#define CHECK(name, cond) do { int ok_ = (cond); printf("%-46s %s\n", name, ok_ ? "ok" : "DEFECT"); if (!ok_) bad++; } while (0)
int main(void) {
  { mzd_t *M = mzd_init(1,128); for(int j=0;j<128;j++) mzd_write_bit(M,0,j,1);
    mzd_row_clear_offset(M,0,70); int w=0; for(int j=0;j<128;j++) if(mzd_read_bit(M,0,j)!=(j<70)) w++;
    CHECK("#6 row_clear_offset(70) on 1x128", w==0);
    mzd_t *P = mzd_init(1,128); for(int j=0;j<128;j++) mzd_write_bit(P,0,j,1);
    mzd_t *V = mzd_init_window(P,0,0,1,100); mzd_row_clear_offset(V,0,64);
    w=0; for(int j=0;j<128;j++) if(mzd_read_bit(P,0,j)!=(j<64||j>=100)) w++;
    CHECK("#6 row_clear_offset on a view keeps parent", w==0); }
  { mzd_t *P = mzd_init(4,64); mzd_write_bit(P,3,40,1); mzd_t *W = mzd_init_window(P,0,0,4,10);
    CHECK("#9 first_zero_row(zero view)", mzd_first_zero_row(W)==0); }
  { mzd_t *A = mzd_init(2,4); mzd_write_bit(A,0,0,1); mzd_write_bit(A,1,1,1);
    mzd_t *B = mzd_init(4,1); mzd_write_bit(B,2,0,1);
    CHECK("#1 solve_left: only padding row m non-zero", mzd_solve_left(A,B,0,1)==-1); }
  { mzd_t *Q = mzd_init(2,128); for(int j=0;j<128;j++){mzd_write_bit(Q,0,j,1);mzd_write_bit(Q,1,j,1);}
    mzd_t *QA = mzd_init_window(Q,0,0,2,10); mzd_t *Z = mzd_init(2,5);
    mzd_t *C = mzd_concat(NULL,QA,Z); CHECK("#7 concat(view, zero): excess of owned result", (mzd_row(C,0)[0]>>15)==0 && (mzd_row(C,0)[0]&0x7fff)==0x3ff);
    mzd_t *Z2 = mzd_init(1,10); mzd_t *S = mzd_stack(NULL,QA,Z2); CHECK("#7 stack(view, zero): excess of owned result", (mzd_row(S,0)[0]>>10)==0); }
  { mzd_t *P = mzd_init(2,128); for(int j=0;j<128;j++){mzd_write_bit(P,0,j,1);mzd_write_bit(P,1,j,1);}
    mzd_t *S = mzd_init_window(P,0,0,2,10); mzd_t *M = mzd_init(2,64); mzd_submatrix(S,M,0,0,2,10);
    int c=0; for(int j=10;j<64;j++) if(!mzd_read_bit(P,0,j)) c++; CHECK("#10 submatrix into a view (aligned)", c==0); }
  { mzd_t *Q = mzd_init(4,64); for(int i=0;i<4;i++) for(int j=0;j<64;j++) mzd_write_bit(Q,i,j,1);
    mzd_t *W = mzd_init_window(Q,0,0,4,3); mzd_t *T = mzd_transpose(NULL,W);
    CHECK("#11 transpose(dirty view): excess of result", mzd_row(T,0)[0]==0xf); }
  { /* #8 non-reduced M4RI on a view must not touch the parent outside */
    mzd_t *P = mzd_init(40,128); mzd_randomize(P); mzd_t *Pc = mzd_copy(NULL,P);
    mzd_t *V = mzd_init_window(P,0,0,40,70); mzd_t *Vc = mzd_copy(NULL,V);
    rci_t r1 = mzd_echelonize_m4ri(V,0,0); rci_t r2 = mzd_echelonize_m4ri(Vc,0,0);
    int out=0; for(int i=0;i<40;i++) for(int j=70;j<128;j++) if(mzd_read_bit(P,i,j)!=mzd_read_bit(Pc,i,j)) out++;
    CHECK("#8 echelonize_m4ri(view, full=0): parent outside intact", out==0 && r1==r2 && mzd_equal(V,Vc)); }
  { /* #16 needs the small-cache configuration; checked separately */ }
  printf("defects: %d\n", bad);
  return bad != 0;
}
