#include <m4ri/m4ri.h>
#include <stdio.h>
int main(){ mzd_t *A = mzd_init(3,30000); mzd_randomize(A); mzd_t *B = mzd_copy(NULL,A); rci_t r = mzd_echelonize_m4ri(A,1,0); rci_t r2 = mzd_echelonize_naive(B,1); printf("rank %d naive %d equal %d\n", r, r2, mzd_equal(A,B));
  mzd_t *U = mzd_init(3, 30000); mzd_randomize(U); mzd_top_echelonize_m4ri(U, 0); printf("top ok\n"); return 0; }
