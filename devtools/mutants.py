#!/usr/bin/env python3
"""Development-time mutation matrix (not a registered check).
Copies /repo's analysed inputs to a scratch dir under /tmp, applies one textual edit, runs
`./check <ID> quick` with M4LINT_REPO pointing at the copy and reports whether the expected rule
fired and named the mutated function.   usage: devtools/mutants.py [name-substring ...]"""
import json, os, shutil, subprocess, sys, tempfile
HERE = os.path.dirname(os.path.dirname(os.path.abspath(__file__)))
MUTANTS = json.load(open(os.path.join(HERE, 'devtools', 'mutants.json')))


def run(m):
    d = tempfile.mkdtemp(prefix='m4mut_', dir='/tmp')
    try:
        os.makedirs(d + '/m4ri')
        BASE = os.environ.get('TRY_BASE', '/repo')
        for f in os.listdir(BASE + '/m4ri'):
            if f.endswith(('.c', '.h', '.in')):
                shutil.copy(BASE + '/m4ri/' + f, d + '/m4ri/' + f)
        for f in ('Makefile.am', 'configure.ac'):
            shutil.copy(BASE + '/' + f, d + '/' + f)
        p = d + '/' + m['file']
        s = open(p).read()
        if s.count(m['old']) < 1:
            return 'STALE (old text not found)'
        s = s.replace(m['old'], m['new'], 1) if not m.get('all') else s.replace(m['old'], m['new'])
        open(p, 'w').write(s)
        # must still compile
        cc = subprocess.run(['clang-14', '-fsyntax-only', '-DHAVE_CONFIG_H', '-I' + d, '-I' + d + '/m4ri', '-I/repo/m4ri',
                             '-I/usr/include/libpng16', '-msse2', '-Wno-everything', d + '/' + (m['file'] if m['file'].endswith('.c') else m.get('tu', 'm4ri/mzd.c'))],
                            stdout=subprocess.PIPE, stderr=subprocess.PIPE)
        if cc.returncode != 0:
            return 'DOES-NOT-COMPILE ' + cc.stderr.decode()[-300:]
        res = []
        for pid in m['props']:
            env = dict(os.environ, M4LINT_REPO=d)
            r = subprocess.run([HERE + '/check', pid, 'quick'], stdout=subprocess.PIPE, stderr=subprocess.STDOUT, env=env, cwd=HERE)
            out = r.stdout.decode()
            hit = [l for l in out.splitlines() if 'rule ' in l and (m['expect_rule'] + ':' in l or 'rule ' + m['expect_rule'] in l) and m.get('expect_text', '') in l and 'configs=' not in l]
            res.append('%s rc=%d %s' % (pid, r.returncode, 'HIT ' + hit[0][:160] if hit else 'MISS\n' + '\n'.join(out.splitlines()[-6:])))
        return '; '.join(res)
    finally:
        shutil.rmtree(d, ignore_errors=True)


if __name__ == '__main__':
    sel = sys.argv[1:]
    for m in MUTANTS:
        if sel and not any(s in m['name'] for s in sel):
            continue
        print('%-40s %s' % (m['name'], run(m)))
