#!/usr/bin/env python3
"""Regenerate seeded/README.md and the seed table inside DESIGN.md from seeded/*/meta.json."""
import json, os, re
HERE = os.path.dirname(os.path.dirname(os.path.abspath(__file__)))
rows = []
for d in sorted(os.listdir(os.path.join(HERE, 'seeded'))):
    mp = os.path.join(HERE, 'seeded', d, 'meta.json')
    if not os.path.exists(mp):
        continue
    m = json.load(open(mp))
    own = m['breaks_property']
    items = sorted(m['reported_by'].items(), key=lambda kv: (kv[0] != own, kv[0]))
    rep = '; '.join('%s%s (%s)' % ('**' if k == own else '', k + ('**' if k == own else ''), ', '.join(v)) for k, v in items if not (v and v[0].startswith('ANALYSIS')))
    broken = [k for k, v in items if v and v[0].startswith('ANALYSIS')]
    if not rep and broken:
        rep = '— exit 2 (analysis broken, no verdict) in ' + ', '.join(broken)
    first = ''
    pd = os.path.join(HERE, 'seeded', d, 'patch.diff')
    files = sorted(set(re.findall(r'^\+\+\+ b/(\S+)', open(pd).read(), re.M)))
    rows.append((m['id'], ', '.join(files), m['needs_to_manifest'], rep or '— not detected (value level)'))
tbl = '| seed | file(s) | needs, in order to manifest | reported by (property: rules) |\n|---|---|---|---|\n'
for r in rows:
    tbl += '| %s | %s | %s | %s |\n' % r
det = sum(1 for r in rows if not r[3].startswith('—'))
own_det = sum(1 for r in rows if r[3].startswith('**'))
tbl += '\n%d of %d seeded changes are reported (exit 1, VIOLATION line) by at least one registered check, %d of them by the check of the property they were seeded against (bold).\n' % (det, len(rows), own_det)
open(os.path.join(HERE, 'seeded', 'README.md'), 'w').write('# Seeded changes\n\nEach directory `<PROP>-<n>/`: patch.diff, demo.c, notes.txt (the sub-agent\'s own description), confirm.txt, meta.json (n = 1, 2: first round; 3, 4: second round).\n`benign/` ... `benign8/` hold 124 behaviour-preserving refactorings (NN.diff each alone, all.diff together, README.txt) that must raise no alarm (devtools/benign.py).\nNone of these patches is ever committed to /repo: devtools/record_all.py and devtools/benign.py apply one with `git -C /repo apply`, run the checks, and undo it with `git -C /repo checkout -- .`.\n\n' + tbl)
p = os.path.join(HERE, 'DESIGN.md')
s = open(p).read()
if 'SEED_TABLE_PLACEHOLDER' in s:
    s = s.replace('SEED_TABLE_PLACEHOLDER', '<!-- seed table begin -->\n' + tbl + '<!-- seed table end -->')
else:
    s = re.sub(r'<!-- seed table begin -->.*?<!-- seed table end -->', lambda m_: '<!-- seed table begin -->\n' + tbl + '<!-- seed table end -->', s, flags=re.S)
open(p, 'w').write(s)
print(det, 'of', len(rows))
