#!/bin/sh
# usage: devtools/try_seed.sh <patch.diff> <PROP>...   apply to /repo, run the quick checks, undo, restore evidence
patch=$1; shift
cd /repo && git apply --check "$patch" || { echo "patch does not apply"; exit 2; }
git -C /repo apply "$patch"
cd /verif
for p in "$@"; do
  ./check $p quick > /tmp/p/seed_$p.log 2>&1; echo "$p rc=$?"; grep -E "^VIOLATION|: rule " /tmp/p/seed_$p.log | grep -v "configs=" | cut -c1-300 | head -6
done
git -C /repo checkout -- .
git -C /verif checkout -- evidence 2>/dev/null
