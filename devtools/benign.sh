#!/bin/sh
# see devtools/benign.py
exec python3 /verif/devtools/benign.py "$@"
