#!/bin/sh
# regression: the behaviour-preserving refactorings in seeded/benign/all.diff must not raise any alarm
cd /repo && git apply --check /verif/seeded/benign/all.diff || { echo "benign patch no longer applies"; exit 2; }
git -C /repo apply /verif/seeded/benign/all.diff
cd /verif; bad=0
for p in $(python3 -c "import json;print(' '.join(c['property_id'] for c in json.load(open('MANIFEST.json'))['checks']))"); do
  ./check $p quick > /tmp/p/benign_$p.log 2>&1; r=$?
  [ $r -ne 0 ] && { echo "FALSE ALARM $p rc=$r"; grep -E ": rule |ANALYSIS-BROKEN" /tmp/p/benign_$p.log | grep -v configs= | cut -c1-250 | head -3; bad=1; }
done
git -C /repo checkout -- .; git -C /verif checkout -- evidence
[ $bad -eq 0 ] && echo "benign corpus: silent on all checks"
exit $bad
