#!/bin/sh
# regression: the behaviour-preserving refactorings in seeded/benign*/all.diff must not raise any alarm
# (applied to /repo with git apply, undone with git checkout -- . straight afterwards)
cd /verif; bad=0
for corpus in benign benign2 benign3 benign4 benign5; do
  cd /repo && git apply --check /verif/seeded/$corpus/all.diff || { echo "$corpus patch no longer applies"; exit 2; }
  git -C /repo apply /verif/seeded/$corpus/all.diff
  cd /verif
  for p in $(python3 -c "import json;print(' '.join(c['property_id'] for c in json.load(open('MANIFEST.json'))['checks']))"); do
    M4LINT_SCRATCH_EVIDENCE=1 ./check $p quick > /tmp/p/${corpus}_$p.log 2>&1; r=$?
    [ $r -ne 0 ] && { echo "FALSE ALARM $corpus $p rc=$r"; grep -E ": rule |ANALYSIS-BROKEN" /tmp/p/${corpus}_$p.log | grep -v configs= | cut -c1-250 | head -3; bad=1; }
  done
  git -C /repo checkout -- .
done
[ $bad -eq 0 ] && echo "benign corpora: silent on all checks"
exit $bad
