#!/bin/bash
# usage: devtools/confirm_demo_cfg.sh <worktree> <seeddir-name> "<configure flags>" "<demo cflags>"
# demo-only part of confirm_seed_cfg.sh (clean tree vs changed tree in the given configuration); appends to confirm.txt
wt=$1; sd=$2; cf=$3; dcf=$4; cd "$wt" || exit 2
out="$wt/$sd/confirm.txt"
sed -i '/^changed_demo_rc=/d;/^clean_demo_rc=/d' "$out"
git checkout -- m4ri >/dev/null 2>&1
./configure $cf >/dev/null 2>&1; make clean >/dev/null 2>&1; make -j8 >/dev/null 2>&1
gcc $dcf -I"$wt" -I/usr/include/libpng16 "$sd/demo.c" -L"$wt/.libs" -lm4ri -lm -lpng16 -lpthread -Wl,-rpath,"$wt/.libs" -o "$sd/demo_clean" 2>>"$out"
( cd "$sd" && timeout 900 ./demo_clean > demo_clean.out 2>&1 ); echo "clean_demo_rc=$?" >> "$out"
git apply "$sd/patch.diff" || { echo "apply_failed" >> "$out"; exit 1; }
touch m4ri/*.c; make -j8 >/dev/null 2>&1
gcc $dcf -I"$wt" -I/usr/include/libpng16 "$sd/demo.c" -L"$wt/.libs" -lm4ri -lm -lpng16 -lpthread -Wl,-rpath,"$wt/.libs" -o "$sd/demo_changed" 2>>"$out"
( cd "$sd" && timeout 900 ./demo_changed > demo_changed.out 2>&1 ); echo "changed_demo_rc=$?" >> "$out"
git checkout -- m4ri; ./configure >/dev/null 2>&1; make clean >/dev/null 2>&1; make -j8 >/dev/null 2>&1
rm -f "$sd/demo_clean" "$sd/demo_changed"
cat "$out"
