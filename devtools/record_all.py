#!/usr/bin/env python3
"""usage: devtools/record_all.py [seed-id ...]
For every stored seeded change (/verif/seeded/<PROP>-<n>/patch.diff): apply it to /repo (git apply), run every registered
quick check against /repo (in parallel; evidence goes to .cache/evidence_scratch), undo it (git checkout -- .), and
record in meta.json which checks report it and through which rules.  Nothing is committed to /repo."""
import json, os, subprocess, sys
from concurrent.futures import ThreadPoolExecutor
HERE = os.path.dirname(os.path.dirname(os.path.abspath(__file__)))
claimed = [c['property_id'] for c in json.load(open(os.path.join(HERE, 'MANIFEST.json')))['checks']]
sel = sys.argv[1:]
seeds = sorted(d for d in os.listdir(os.path.join(HERE, 'seeded')) if os.path.exists(os.path.join(HERE, 'seeded', d, 'patch.diff')))


def run_check(pid):
    env = dict(os.environ, M4LINT_SCRATCH_EVIDENCE='1')
    env.pop('M4LINT_REPO', None)
    r = subprocess.run([HERE + '/check', pid, 'quick'], stdout=subprocess.PIPE, stderr=subprocess.STDOUT, env=env, cwd=HERE)
    return pid, r.returncode, r.stdout.decode()


if subprocess.run(['git', '-C', '/repo', 'status', '--porcelain', '--untracked-files=no'], stdout=subprocess.PIPE).stdout.strip():
    sys.exit('/repo has uncommitted changes - refusing to run')
for sid in seeds:
    if sel and sid not in sel:
        continue
    dst = os.path.join(HERE, 'seeded', sid)
    patch = os.path.join(dst, 'patch.diff')
    if subprocess.call(['git', '-C', '/repo', 'apply', '--check', patch]) != 0:
        print(sid, 'PATCH DOES NOT APPLY')
        continue
    caught = {}
    mp = os.path.join(dst, 'meta.json')
    stamp = subprocess.run(['git', '-C', HERE, 'rev-parse', 'HEAD'], stdout=subprocess.PIPE).stdout.decode().strip()[:10] + '/' + \
        subprocess.run(['git', '-C', '/repo', 'rev-parse', 'HEAD'], stdout=subprocess.PIPE).stdout.decode().strip()[:10]
    if os.path.exists(mp) and json.load(open(mp)).get('recorded_at') == stamp and not sel:
        print(sid, 'already recorded at', stamp)
        continue
    subprocess.check_call(['git', '-C', '/repo', 'apply', patch])
    try:
        subprocess.run([sys.executable, os.path.join(HERE, 'devtools', 'warm.py')], stdout=subprocess.DEVNULL, stderr=subprocess.DEVNULL,
                       env=dict(os.environ, M4LINT_SCRATCH_EVIDENCE='1'))
        with ThreadPoolExecutor(max_workers=8) as ex:
            for pid, rc, out in ex.map(run_check, claimed):
                rules = sorted(set(l.split(': rule ')[1].split(':')[0] for l in out.splitlines() if ': rule ' in l and 'configs=' not in l))
                if rc == 1:
                    caught[pid] = rules
                elif rc == 2:
                    first = [l for l in out.splitlines() if 'ANALYSIS-BROKEN' in l]
                    caught[pid] = ['ANALYSIS-BROKEN: ' + (first[0] if first else '')[:200]]
    finally:
        subprocess.check_call(['git', '-C', '/repo', 'checkout', '--', '.'])
    meta = json.load(open(mp)) if os.path.exists(mp) else dict(id=sid, breaks_property=sid.split('-')[0])
    meta['recorded_at'] = stamp
    meta['checks_run'] = 'every registered quick check of /verif against /repo with patch.diff applied (git -C /repo apply; undone with git -C /repo checkout -- . straight afterwards)'
    meta['reported_by'] = caught
    meta['detected'] = bool([k for k, v in caught.items() if not (v and v[0].startswith('ANALYSIS-BROKEN'))])
    meta['detected_by_own_property'] = bool(caught.get(meta['breaks_property']) and not caught[meta['breaks_property']][0].startswith('ANALYSIS-BROKEN'))
    json.dump(meta, open(mp, 'w'), indent=1)
    print(sid, 'detected' if meta['detected'] else 'NOT detected', json.dumps(caught))
    sys.stdout.flush()
