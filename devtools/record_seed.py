#!/usr/bin/env python3
"""usage: devtools/record_seed.py <PROP> <n> <worktree-seed-dir> "<needs>"  - store a confirmed seeded change under /verif/seeded/<PROP>-<n>/
and record which registered checks report it (run on a scratch copy of /repo's analysed inputs with the patch applied)."""
import json, os, shutil, subprocess, sys, tempfile
HERE = os.path.dirname(os.path.dirname(os.path.abspath(__file__)))
prop, n, src, needs = sys.argv[1], sys.argv[2], sys.argv[3], sys.argv[4]
sid = '%s-%s' % (prop, n)
dst = os.path.join(HERE, 'seeded', sid)
os.makedirs(dst, exist_ok=True)
for f in ('patch.diff', 'demo.c', 'notes.txt', 'confirm.txt'):
    if os.path.exists(os.path.join(src, f)) and os.path.abspath(src) != os.path.abspath(dst):
        shutil.copy(os.path.join(src, f), os.path.join(dst, f))
claimed = [c['property_id'] for c in json.load(open(os.path.join(HERE, 'MANIFEST.json')))['checks']]
d = tempfile.mkdtemp(prefix='seedrun_', dir='/tmp')
caught = {}
try:
    subprocess.check_call(['git', '-C', '/repo', 'worktree', 'add', '--detach', d + '/wt', 'HEAD'], stdout=subprocess.DEVNULL, stderr=subprocess.DEVNULL)
    wt = d + '/wt'
    for f in ('m4ri/config.h', 'm4ri/m4ri_config.h'):
        shutil.copy('/repo/' + f, wt + '/' + f)
    subprocess.check_call(['git', '-C', wt, 'apply', os.path.join(dst, 'patch.diff')])
    for pid in claimed:
        env = dict(os.environ, M4LINT_REPO=wt)
        r = subprocess.run([HERE + '/check', pid, 'quick'], stdout=subprocess.PIPE, stderr=subprocess.STDOUT, env=env, cwd=HERE)
        out = r.stdout.decode()
        rules = sorted(set(l.split(': rule ')[1].split(':')[0] for l in out.splitlines() if ': rule ' in l and 'configs=' not in l))
        if r.returncode == 1:
            caught[pid] = rules
        elif r.returncode == 2:
            caught[pid] = ['ANALYSIS-BROKEN: ' + (out.strip().splitlines()[0] if out.strip() else '')[:200]]
finally:
    subprocess.call(['git', '-C', '/repo', 'worktree', 'remove', '--force', d + '/wt'], stdout=subprocess.DEVNULL, stderr=subprocess.DEVNULL)
    shutil.rmtree(d, ignore_errors=True)
conf = open(os.path.join(dst, 'confirm.txt')).read() if os.path.exists(os.path.join(dst, 'confirm.txt')) else ''
meta = dict(id=sid, breaks_property=prop, needs_to_manifest=needs,
            confirmed=dict(how='devtools/confirm_seed.sh in the scratch worktree: demo on clean tree, demo with the change, `make check` with the change', result=conf.split()),
            checks_run='every registered quick check on a scratch worktree of /repo with patch.diff applied (M4LINT_REPO), plus ./devtools/try_seed.sh on /repo itself for the reporting checks',
            reported_by=caught, detected=bool([k for k, v in caught.items() if not (v and v[0].startswith('ANALYSIS-BROKEN'))]))
json.dump(meta, open(os.path.join(dst, 'meta.json'), 'w'), indent=1)
print(sid, 'detected' if meta['detected'] else 'NOT detected', caught)
