#!/bin/bash
# usage: devtools/confirm_seed.sh <worktree> <seeddir-name> : confirm a seeded change in its scratch worktree
# (demo OK on clean tree, demo fails + suite 15/15 with the change), writes <worktree>/<seed>/confirm.txt
wt=$1; sd=$2; cd "$wt" || exit 2
out="$wt/$sd/confirm.txt"; : > "$out"
git checkout -- m4ri >/dev/null 2>&1; touch m4ri/*.c; make -j4 >/dev/null 2>&1
gcc -I"$wt" -I/usr/include/libpng16 "$sd/demo.c" -L"$wt/.libs" -lm4ri -lm -lpng16 -Wl,-rpath,"$wt/.libs" -o "$sd/demo_clean" 2>>"$out"
( cd "$sd" && timeout 300 ./demo_clean >/dev/null 2>&1 ); echo "clean_demo_rc=$?" >> "$out"
git apply "$sd/patch.diff" || { echo "apply_failed" >> "$out"; exit 1; }
touch m4ri/*.c; make -j4 >/dev/null 2>&1; echo "build_rc=$?" >> "$out"
gcc -I"$wt" -I/usr/include/libpng16 "$sd/demo.c" -L"$wt/.libs" -lm4ri -lm -lpng16 -Wl,-rpath,"$wt/.libs" -o "$sd/demo_changed" 2>>"$out"
( cd "$sd" && timeout 300 ./demo_changed >/dev/null 2>&1 ); echo "changed_demo_rc=$?" >> "$out"
make -C tests clean >/dev/null 2>&1
timeout 1500 make check > "$sd/check.log" 2>&1; echo "suite_rc=$? pass=$(grep -c '^PASS' "$sd/check.log") fail=$(grep -c '^FAIL' "$sd/check.log")" >> "$out"
git checkout -- m4ri; touch m4ri/*.c; make -j4 >/dev/null 2>&1
rm -f "$sd/demo_clean" "$sd/demo_changed"
cat "$out"
