#!/bin/sh
# usage: devtools/mkworktree.sh <dir>   - scratch git worktree of /repo with the generated build files, ready for `make`
set -e
d=$1
git -C /repo worktree add --detach "$d" HEAD >/dev/null 2>&1
rsync -a --ignore-existing --exclude .git --exclude '.libs' --exclude '*.o' --exclude '*.lo' --exclude '*.la' --exclude '*.log' --exclude '*.trs' \
  --exclude 'tests/test_*[a-z]' /repo/ "$d"/
# test binaries are excluded above only if they have no extension; remove any that slipped through
find "$d/tests" -maxdepth 1 -type f -perm -u+x ! -name '*.c' ! -name '*.h' ! -name '*.sh' -delete 2>/dev/null || true
cd "$d" && make -j16 >/dev/null 2>&1 && echo "worktree $d built"
