#!/usr/bin/env python3
"""Parse every configuration the quick checks use, once, so that the parallel check runs that follow are cache hits."""
import os, sys
sys.setrecursionlimit(20000)
sys.path.insert(0, os.path.dirname(os.path.dirname(os.path.abspath(__file__))))
from concurrent.futures import ProcessPoolExecutor
from m4lint import frontend as F, selftest as S


def one(job):
    cfg, extra = job
    os.environ['M4LINT_JOBS'] = '6'
    F.load_program(cfg, extra_units=[S.CONTROLS] if extra else None)
    return F.cfg_id(cfg)


if __name__ == '__main__':
    h = F.host_config()
    cfgs = [h, dict(h, sse2=0)] + F.thread_safe_configs() + F.openmp_configs() + [F.with_caches(h, F.SMALL)]
    seen, jobs = set(), []
    for c in cfgs:
        if F.cfg_id(c) not in seen:
            seen.add(F.cfg_id(c))
            jobs.append((c, False))
    jobs += [(h, True), (F.openmp_configs()[0], True)]
    with ProcessPoolExecutor(max_workers=4) as ex:
        for r in ex.map(one, jobs):
            pass
    print('warmed', len(jobs))
