#!/usr/bin/env python3
"""usage: devtools/try_scratch.py <patch.diff> [PROP ...]   - development aid: apply the patch to a scratch copy of /repo's analysed
inputs (never to /repo), run the quick checks (all claimed ones by default) in parallel with M4LINT_REPO, print who reports what."""
import json, os, shutil, subprocess, sys, tempfile
from concurrent.futures import ThreadPoolExecutor
HERE = os.path.dirname(os.path.dirname(os.path.abspath(__file__)))
BASE = os.environ.get('TRY_BASE', '/repo')
patch = os.path.abspath(sys.argv[1])
props = sys.argv[2:] or [c['property_id'] for c in json.load(open(os.path.join(HERE, 'MANIFEST.json')))['checks']]
d = tempfile.mkdtemp(prefix='seedtry_', dir='/tmp')
try:
    os.makedirs(d + '/m4ri')
    for f in os.listdir(BASE + '/m4ri'):
        if f.endswith(('.c', '.h', '.in')):
            shutil.copy(BASE + '/m4ri/' + f, d + '/m4ri/' + f)
    for f in ('Makefile.am', 'configure.ac'):
        shutil.copy(BASE + '/' + f, d + '/' + f)
    r = subprocess.run(['patch', '-p1', '-s', '-d', d, '-i', patch], stdout=subprocess.PIPE, stderr=subprocess.STDOUT)
    if r.returncode != 0:
        sys.exit('patch failed: ' + r.stdout.decode()[-300:])

    def run(pid):
        env = dict(os.environ, M4LINT_REPO=d)
        r = subprocess.run([HERE + '/check', pid, 'quick'], stdout=subprocess.PIPE, stderr=subprocess.STDOUT, env=env, cwd=HERE)
        return pid, r.returncode, r.stdout.decode()
    with ThreadPoolExecutor(max_workers=6) as ex:
        for pid, rc, out in ex.map(run, props):
            if rc == 0:
                continue
            print('%s rc=%d' % (pid, rc))
            for l in out.splitlines():
                if (': rule ' in l and 'configs=' not in l) or 'ANALYSIS-BROKEN' in l:
                    print('   ' + l.replace(d + '/', '')[:260])
    print('done')
finally:
    shutil.rmtree(d, ignore_errors=True)
