#!/bin/bash
# usage: devtools/confirm_seed_cfg.sh <worktree> <seeddir-name> "<configure flags>" "<demo cflags>"
# like confirm_seed.sh, for seeds whose demonstration needs a non-default build (thread-safe, OpenMP, no SSE2):
# the demo runs against the library configured with <configure flags>; the suite runs in the default build.
wt=$1; sd=$2; cf=$3; dcf=$4; cd "$wt" || exit 2
out="$wt/$sd/confirm.txt"; : > "$out"
git checkout -- m4ri >/dev/null 2>&1
./configure $cf >/dev/null 2>&1; make clean >/dev/null 2>&1; make -j8 >/dev/null 2>&1; echo "cfg_build_rc=$? flags='$cf'" >> "$out"
gcc $dcf -I"$wt" -I/usr/include/libpng16 "$sd/demo.c" -L"$wt/.libs" -lm4ri -lm -lpng16 -lpthread -Wl,-rpath,"$wt/.libs" -o "$sd/demo_clean" 2>>"$out"
( cd "$sd" && timeout 900 ./demo_clean >/dev/null 2>&1 ); echo "clean_demo_rc=$?" >> "$out"
git apply "$sd/patch.diff" || { echo "apply_failed" >> "$out"; exit 1; }
touch m4ri/*.c; make -j8 >/dev/null 2>&1; echo "build_rc=$?" >> "$out"
gcc $dcf -I"$wt" -I/usr/include/libpng16 "$sd/demo.c" -L"$wt/.libs" -lm4ri -lm -lpng16 -lpthread -Wl,-rpath,"$wt/.libs" -o "$sd/demo_changed" 2>>"$out"
( cd "$sd" && timeout 900 ./demo_changed > demo_changed.out 2>&1 ); echo "changed_demo_rc=$?" >> "$out"
# the pinned suite runs in the default build
./configure >/dev/null 2>&1; make clean >/dev/null 2>&1; make -j8 >/dev/null 2>&1; echo "default_build_rc=$?" >> "$out"
make -C tests clean >/dev/null 2>&1
timeout 2400 make check > "$sd/check.log" 2>&1; echo "suite_rc=$? pass=$(grep -c '^PASS' "$sd/check.log") fail=$(grep -c '^FAIL' "$sd/check.log")" >> "$out"
git checkout -- m4ri; touch m4ri/*.c; make -j8 >/dev/null 2>&1
rm -f "$sd/demo_clean" "$sd/demo_changed"
cat "$out"
