#!/usr/bin/env python3
"""Regression: the behaviour-preserving refactorings in seeded/benign*/all.diff must not raise any alarm (exit 0 everywhere).
Each corpus is applied to /repo (git apply), every registered quick check runs (8 in parallel, evidence to .cache/evidence_scratch),
and /repo is restored (git checkout -- .) straight afterwards - also when interrupted."""
import json, os, signal, subprocess, sys
from concurrent.futures import ThreadPoolExecutor
HERE = os.path.dirname(os.path.dirname(os.path.abspath(__file__)))
claimed = [c['property_id'] for c in json.load(open(os.path.join(HERE, 'MANIFEST.json')))['checks']]
corpora = sorted(d for d in os.listdir(os.path.join(HERE, 'seeded')) if d.startswith('benign') and os.path.exists(os.path.join(HERE, 'seeded', d, 'all.diff')))
sel = sys.argv[1:]


def restore(*_a):
    subprocess.call(['git', '-C', '/repo', 'checkout', '--', '.'])
    if _a:
        sys.exit(3)


def run_check(pid):
    env = dict(os.environ, M4LINT_SCRATCH_EVIDENCE='1')
    env.pop('M4LINT_REPO', None)
    r = subprocess.run([HERE + '/check', pid, 'quick'], stdout=subprocess.PIPE, stderr=subprocess.STDOUT, env=env, cwd=HERE)
    return pid, r.returncode, r.stdout.decode()


if subprocess.run(['git', '-C', '/repo', 'status', '--porcelain', '--untracked-files=no'], stdout=subprocess.PIPE).stdout.strip():
    sys.exit('/repo has uncommitted changes - refusing to run')
signal.signal(signal.SIGTERM, restore)
signal.signal(signal.SIGINT, restore)
bad = 0
for corpus in corpora:
    if sel and corpus not in sel:
        continue
    patch = os.path.join(HERE, 'seeded', corpus, 'all.diff')
    if subprocess.call(['git', '-C', '/repo', 'apply', '--check', patch]) != 0:
        print(corpus, 'patch no longer applies')
        bad = 2
        continue
    subprocess.check_call(['git', '-C', '/repo', 'apply', patch])
    try:
        subprocess.run([sys.executable, os.path.join(HERE, 'devtools', 'warm.py')], stdout=subprocess.DEVNULL, stderr=subprocess.DEVNULL,
                       env=dict(os.environ, M4LINT_SCRATCH_EVIDENCE='1'))
        with ThreadPoolExecutor(max_workers=8) as ex:
            for pid, rc, out in ex.map(run_check, claimed):
                if rc != 0:
                    bad = bad or 1
                    print('FALSE ALARM %s %s rc=%d' % (corpus, pid, rc))
                    for l in out.splitlines():
                        if (': rule ' in l and 'configs=' not in l) or 'ANALYSIS-BROKEN' in l:
                            print('   ' + l[:250])
    finally:
        restore()
    print(corpus, 'done')
    sys.stdout.flush()
if not bad:
    print('benign corpora: silent on all checks (%s)' % ', '.join(c for c in corpora if not sel or c in sel))
sys.exit(bad)
