/* Triage replay (not a registered check): the 1st realloc issued by djb_compile fails.
 * Expected by C20: m4ri_die -> "realloc failed" + abort (SIGABRT). Pinned tree: SIGSEGV (NULL written through).
 * build: gcc -I/repo replays/c20_djb_realloc.c -L/repo/.libs -lm4ri -lm -Wl,-rpath,/repo/.libs */
#define _GNU_SOURCE
#include <dlfcn.h>
#include <m4ri/m4ri.h>
#include <m4ri/djb.h>
#include <stdio.h>
static int fail_at = -1, count = 0;
void *realloc(void *p, size_t n) {
  static void *(*real)(void *, size_t) = 0;
  if (!real) real = dlsym(RTLD_NEXT, "realloc");
  if (fail_at >= 0 && ++count == fail_at) return NULL;
  return real(p, n);
}
int main(int argc, char **argv) {
  mzd_t *A = mzd_init(128, 128);
  mzd_randomize(A);
  fail_at = argc > 1 ? atoi(argv[1]) : 1; count = 0;
  djb_t *z = djb_compile(A);
  printf("survived: length=%d\n", z->length);
  return 0;
}
