/* Triage replay (not a registered check): mzd_transpose with a source that is a window with excess bits. */
#include <m4ri/m4ri.h>
#include <stdio.h>
int main(void) {
  mzd_t *P = mzd_init(4, 64);
  for (int i = 0; i < 4; i++) for (int j = 0; j < 64; j++) mzd_write_bit(P, i, j, 1);
  mzd_t *A = mzd_init_window(P, 0, 0, 4, 3);          /* 4x3 view of all ones */
  mzd_t *T = mzd_transpose(NULL, A);                   /* owned 3x4 */
  int bad = 0;
  for (int i = 0; i < 3; i++) { word w = mzd_row_const(T, i)[0]; printf("row %d word %llx\n", i, (unsigned long long)w); if (w != 0xf) bad = 1; }
  puts(bad ? "DEFECT: owned result has bits past its last column" : "ok");
  return bad;
}
