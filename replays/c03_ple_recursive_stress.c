/* Triage/confidence replay for the _mzd_compress_l repair (not a registered check): P*L*E == A on shapes that
 * enter the block-recursive PLE with rank-deficient left halves (so that L is compressed), owned and as views. */
#include <m4ri/m4ri.h>
#include <stdio.h>
#include <stdlib.h>
static int check_ple(mzd_t *A, rci_t *r) {
  mzd_t *Acopy = mzd_copy(NULL, A);
  const rci_t m = A->nrows, n = A->ncols;
  mzd_t *L = mzd_init(m, m), *E = mzd_init(m, n);
  mzp_t *P = mzp_init(m), *Q = mzp_init(n);
  r[0] = mzd_ple(A, P, Q, 0);
  mzd_apply_p_right_trans_tri(A, Q);
  for (rci_t i = 0; i < r[0]; ++i) {
    for (rci_t j = 0; j < i; ++j) mzd_write_bit(L, i, j, mzd_read_bit(A, i, j));
    for (rci_t j = i + 1; j < n; ++j) mzd_write_bit(E, i, j, mzd_read_bit(A, i, j));
  }
  for (rci_t i = r[0]; i < m; ++i) for (rci_t j = 0; j < r[0]; ++j) mzd_write_bit(L, i, j, mzd_read_bit(A, i, j));
  for (rci_t i = 0; i < r[0]; ++i) { mzd_write_bit(L, i, i, 1); mzd_write_bit(E, i, i, 1); }
  /* storage outside L and E must be zero */
  int junk = 0;
  for (rci_t i = r[0]; i < m && !junk; ++i) for (rci_t j = r[0]; j < n; ++j) if (mzd_read_bit(A, i, j)) { junk = 1; break; }
  mzd_apply_p_left(Acopy, P); mzd_apply_p_right_trans(Acopy, Q);
  mzd_addmul(Acopy, L, E, 0);
  int status = !mzd_is_zero(Acopy) || junk;
  mzd_free(E); mzd_free(L); mzd_free(Acopy); mzp_free(P); mzp_free(Q);
  return status;
}
int main(void) {
  int bad = 0; srandom(17);
  int shapes[][2] = {{9000, 1090}, {9000, 1088}, {8200, 1217}, {4200, 8300}, {8300, 4200}, {16500, 2049}};
  for (unsigned s = 0; s < sizeof(shapes) / sizeof(shapes[0]); ++s) for (int variant = 0; variant < 3; ++variant) {
    rci_t m = shapes[s][0], n = shapes[s][1];
    mzd_t *P = mzd_init(m, n + 100); mzd_randomize(P);
    mzd_t *A = variant == 2 ? mzd_init_window(P, 0, 0, m, n) : mzd_init(m, n);
    if (variant != 2) mzd_randomize(A);
    /* rank deficiency in the left half: zero columns and duplicated columns */
    int nz = 1 + random() % 40;
    for (int k = 0; k < nz; ++k) { rci_t c = random() % (n / 2); for (rci_t i = 0; i < m; ++i) mzd_write_bit(A, i, c, 0); }
    if (variant >= 1) for (rci_t i = m / 3; i < m; ++i) mzd_copy_row(A, i, A, i % (m / 3));   /* low row rank */
    rci_t r; int st = check_ple(A, &r);
    printf("ple %5d x %5d variant %d rank %5d %s\n", m, n, variant, r, st ? "FAILED" : "ok");
    bad += st; mzd_free(A); mzd_free(P);
  }
  return bad != 0;
}
