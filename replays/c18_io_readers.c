/* Triage replay (not a registered check): malformed inputs to the readers. run under valgrind: 0 = 8-bit grey PNG, 1 = JCF with a positive first entry, 2 = JCF with index 0 */
#include <m4ri/m4ri.h>
#include <png.h>
#include <stdio.h>
#include <stdlib.h>
static void write_gray8(const char *fn, int w, int h) {
  FILE *fh = fopen(fn, "wb"); png_structp p = png_create_write_struct(PNG_LIBPNG_VER_STRING, NULL, NULL, NULL);
  png_infop i = png_create_info_struct(p); png_init_io(p, fh);
  png_set_IHDR(p, i, w, h, 8, PNG_COLOR_TYPE_GRAY, PNG_INTERLACE_NONE, PNG_COMPRESSION_TYPE_DEFAULT, PNG_FILTER_TYPE_DEFAULT);
  png_write_info(p, i); png_bytep row = calloc(w, 1); for (int x = 0; x < w; x++) row[x] = 0xAB;
  for (int y = 0; y < h; y++) png_write_row(p, row); png_write_end(p, i); png_destroy_write_struct(&p, &i); fclose(fh); free(row);
}
int main(int argc, char **argv) {
  int which = atoi(argv[1]);
  if (which == 0) { write_gray8("g8.png", 640, 2); mzd_t *A = mzd_from_png("g8.png", 0); printf("from_png(8-bit gray) -> %p\n", (void*)A); }
  if (which == 1) { FILE *f = fopen("pos.jcf","w"); fprintf(f, "2 2 2\n1\n\n1\n"); fclose(f); mzd_t *A = mzd_from_jcf("pos.jcf", 0); printf("from_jcf(positive first entry) -> %p\n", (void*)A); }
  if (which == 2) { FILE *f = fopen("zero.jcf","w"); fprintf(f, "2 2 2\n1\n\n-1\n0\n"); fclose(f); mzd_t *A = mzd_from_jcf("zero.jcf", 0); printf("from_jcf(index 0) -> %p\n", (void*)A); }
  return 0;
}
