/* C09/C01: djb_compile on a window whose last word holds foreign bits of the parent (columns past the view).
 * mzd_compare_rows_revlex compares whole words, so the parent's bits - the most significant ones of the last word -
 * decide the heap order.  Expected: the program compiled from the window equals the one compiled from a standalone copy
 * and realises the viewed matrix.  exit 0 = ok, 1 = differs. */
#include <m4ri/m4ri.h>
#include <m4ri/djb.h>
#include <stdio.h>
int main(void) {
  int bad = 0;
  for (int trial = 0; trial < 50; trial++) {
    rci_t m = 5 + trial % 7, n = 70 + trial % 40, l = 33;
    mzd_t *P = mzd_init(m, 128);
    mzd_randomize(P);
    mzd_t *W = mzd_init_window(P, 0, 0, m, n);   /* n % 64 != 0: last word shared with columns n..127 of P */
    mzd_t *S = mzd_copy(NULL, W);                /* standalone copy of the viewed block */
    mzd_t *A0 = mzd_copy(NULL, W);               /* reference for the product */
    djb_t *zs = djb_compile(S);
    djb_t *zw = djb_compile(W);
    int same = zs->length == zw->length;
    for (rci_t i = 0; same && i < zs->length; i++)
      same = zs->target[i] == zw->target[i] && zs->source[i] == zw->source[i] && zs->srctyp[i] == zw->srctyp[i];
    /* does the window's program realise the viewed matrix?  W_out = A0 * V */
    mzd_t *V = mzd_init(n, l);
    mzd_randomize(V);
    mzd_t *ref = mzd_mul_naive(NULL, A0, V);
    mzd_t *out = mzd_init(m, l);
    djb_apply_mzd(zw, out, V);
    int right = mzd_equal(ref, out);
    if (!same || !right) {
      bad++;
      if (bad < 6) printf("trial %d (%d x %d window of a %d x 128 matrix): program %s, product %s\n", trial, m, n, m, same ? "same" : "DIFFERS from the standalone copy's", right ? "right" : "WRONG");
    }
  }
  printf(bad ? "FAIL (%d of 50)\n" : "OK\n", bad);
  return bad != 0;
}
