/* Triage replay (not a registered check): mzd_mul_naive / mzd_addmul_naive never compare A->ncols with B->nrows.
 * (2x200)*(3x5): pinned tree returns a matrix (reading rows of B that do not exist); expected: m4ri_die -> SIGABRT. */
#include <m4ri/m4ri.h>
#include <stdio.h>
int main(int argc, char **argv) {
  mzd_t *A = mzd_init(2, 200), *B = mzd_init(3, 5);
  mzd_randomize(A); mzd_randomize(B);
  if (argc > 1) { mzd_t *C = mzd_init(2, 5); mzd_addmul_naive(C, A, B); }
  else { mzd_t *C = mzd_mul_naive(NULL, A, B); (void)C; }
  puts("returned without complaint");
  return 0;
}
