/* C01: mzd_mul / mzd_addmul / squaring with cutoff 64 or 128 over dimensions around 86..127 against the cubic product.
 * Before fix 8e51f50: 147 of the cases crash or die; after: bad=0.  Build: gcc -I/repo -I/usr/include/libpng16 x.c -L/repo/.libs -lm4ri -lm -lpng16 */
#include <m4ri/m4ri.h>
#include <stdio.h>
#include <unistd.h>
#include <sys/wait.h>
static int one(int m,int l,int n,int cutoff,int mode){
  pid_t p=fork();
  if(!p){
    mzd_t *A = mzd_init(m, l), *B = mzd_init(l, n);
    mzd_randomize(A); mzd_randomize(B);
    mzd_t *C, *D;
    if(mode==0){ C = mzd_mul(NULL, A, B, cutoff); D = mzd_mul_naive(NULL, A, B);}
    else if(mode==1){ C=mzd_init(m,n); mzd_randomize(C); D=mzd_copy(NULL,C); mzd_addmul(C,A,B,cutoff); mzd_addmul_naive(D,A,B);}
    else { C = mzd_mul(NULL, A, A, cutoff); D = mzd_mul_naive(NULL, A, A);}
    _exit(mzd_equal(C,D)?0:1);
  }
  int st; waitpid(p,&st,0);
  if(WIFSIGNALED(st)) return 2; return WEXITSTATUS(st);
}
int main(){
  int dims[]={64,85,86,100,127,128,129,200};
  int bad=0;
  for(int mode=0;mode<3;mode++) for(int a=0;a<8;a++)for(int b=0;b<8;b++)for(int c=0;c<8;c++){
    int m=dims[a],l=dims[b],n=dims[c]; if(mode==2 && !(m==l&&l==n)) continue;
    for(int cutoff=64;cutoff<=128;cutoff+=64){
    int r=one(m,l,n,cutoff,mode);
    if(r){ bad++; if(bad<40) printf("mode %d %dx%dx%d cutoff %d: %s\n",mode,m,l,n,cutoff,r==2?"CRASH":"WRONG");}
  }}
  printf("bad=%d\n",bad); return bad!=0;
}
