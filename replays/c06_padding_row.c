/* Triage replay (not a registered check): the padding-row check of _mzd_solve_left starts at row m + 1.
 * A = 2x4 with A[0,0] = A[1,1] = 1 (treated as padded with two zero rows), B = 4x1 with only B[2] = 1:
 * the system is inconsistent (0 = 1 in padding row 2); pinned tree returns 0, expected -1. */
#include <m4ri/m4ri.h>
#include <stdio.h>
int main(void) {
  mzd_t *A = mzd_init(2, 4), *B = mzd_init(4, 1);
  mzd_write_bit(A, 0, 0, 1); mzd_write_bit(A, 1, 1, 1);
  mzd_write_bit(B, 2, 0, 1);
  int r = mzd_solve_left(A, B, 0, 1);
  printf("mzd_solve_left returned %d (expected -1)\n", r);
  return r == -1 ? 0 : 1;
}
