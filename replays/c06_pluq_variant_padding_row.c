/* C06: "The same holds for the variant that is handed a previously computed PLUQ factorisation."
 * A is m x n with m < n (implicitly padded with zero rows), B has n rows.  A right-hand side whose only non-zero entry sits in
 * a padding row (row >= m) is inconsistent: 0 * X = 1.  mzd_solve_left reports -1; mzd_pluq_solve_left, given the
 * factorisation of the same A, zeroed the padding rows of B without looking at them and reported 0.
 * exit 0 = both variants agree with the exact verdict on every case, 1 = a wrong verdict. */
#include <m4ri/m4ri.h>
#include <stdio.h>
static int one_case(int m, int n, int bc, int prow, int pcol) {
  mzd_t *A = mzd_init(m, n);
  for (int i = 0; i < m; i++) mzd_write_bit(A, i, i, 1); /* full row rank: the genuine rows are always solvable */
  mzd_t *B1 = mzd_init(n, bc), *B2 = mzd_init(n, bc);
  if (prow >= 0) { mzd_write_bit(B1, prow, pcol, 1); mzd_write_bit(B2, prow, pcol, 1); }
  int expect = (prow >= m) ? -1 : 0;
  mzd_t *A1 = mzd_copy(NULL, A);
  int r1 = mzd_solve_left(A1, B1, 0, 1);
  mzd_t *LU = mzd_copy(NULL, A);
  mzp_t *P = mzp_init(m), *Q = mzp_init(n);
  rci_t rank = mzd_pluq(LU, P, Q, 0);
  int r2 = mzd_pluq_solve_left(LU, rank, P, Q, B2, 0, 1);
  int bad = (r1 != expect) || (r2 != expect);
  if (bad) printf("A %dx%d, B %dx%d, one at (%d,%d): expected %d, mzd_solve_left %d, mzd_pluq_solve_left %d\n", m, n, n, bc, prow, pcol, expect, r1, r2);
  mzd_free(A); mzd_free(A1); mzd_free(LU); mzd_free(B1); mzd_free(B2); mzp_free(P); mzp_free(Q);
  return bad;
}
int main(void) {
  int bad = 0;
  int shapes[][3] = {{2, 4, 1}, {3, 70, 5}, {64, 65, 64}, {10, 200, 130}};
  for (int t = 0; t < 4; t++) {
    int m = shapes[t][0], n = shapes[t][1], bc = shapes[t][2];
    bad += one_case(m, n, bc, -1, 0);          /* B = 0: solvable */
    bad += one_case(m, n, bc, 0, 0);           /* genuine row: solvable */
    bad += one_case(m, n, bc, m, 0);           /* first padding row */
    bad += one_case(m, n, bc, n - 1, bc - 1);  /* last padding row, last column */
  }
  printf(bad ? "FAIL (%d wrong verdicts)\n" : "OK\n", bad);
  return bad != 0;
}
