/* Triage replay (not a registered check): _mzd_solve_left leaks the padding-window header on the
 * early `return -1`.  1000 inconsistent solves; valgrind: "still reachable" grows by ~16 header-cache
 * blocks on the pinned tree, stays flat after the fix.
 * build: gcc -I/repo replays/c11_solve_left_leak.c -L/repo/.libs -lm4ri -lm -Wl,-rpath,/repo/.libs */
#include <m4ri/m4ri.h>
#include <stdio.h>
int main(void) {
  int bad = 0;
  for (int it = 0; it < 1000; ++it) {
    mzd_t *A = mzd_init(2, 6);
    mzd_t *B = mzd_init(6, 1);
    mzd_write_bit(A, 0, 0, 1); mzd_write_bit(A, 1, 1, 1);
    mzd_write_bit(B, 5, 0, 1);          /* inconsistency in a padding row */
    if (mzd_solve_left(A, B, 0, 1) != -1) bad++;
    mzd_free(A); mzd_free(B);
  }
  printf("wrong verdicts: %d\n", bad);
  return 0;
}
