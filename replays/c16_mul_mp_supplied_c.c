/* C16/C01/C10: mzd_mul_mp(C, A, B, cutoff) with a caller-supplied, non-zero C.  The multi-core front end must OVERWRITE C
 * with A*B like mzd_mul does; its remainder strips (last columns of B, last rows of A) are written with mzd_addmul_m4rm
 * without being cleared first, so the old contents of C stay in the product.  OpenMP build only (mp.c is empty otherwise).
 * exit 0 = ok, 1 = wrong. */
#include <m4ri/m4ri.h>
#include <stdio.h>
int main(void) {
#if __M4RI_HAVE_OPENMP
  int bad = 0;
  int shapes[][4] = {{512, 512, 549, 128}, {600, 512, 512, 128}, {512, 512, 512, 128}, {700, 300, 650, 64}};
  for (int t = 0; t < 4; t++) {
    int m = shapes[t][0], l = shapes[t][1], n = shapes[t][2], cutoff = shapes[t][3];
    mzd_t *A = mzd_init(m, l), *B = mzd_init(l, n), *C = mzd_init(m, n), *D = mzd_init(m, n);
    mzd_randomize(A); mzd_randomize(B); mzd_randomize(C); mzd_copy(D, C);
    mzd_mul_mp(C, A, B, cutoff);
    mzd_mul(D, A, B, cutoff);
    mzd_t *R = mzd_mul_naive(NULL, A, B);
    int okmp = mzd_equal(C, R), oksq = mzd_equal(D, R);
    printf("%d x %d x %d cutoff %d: mzd_mul %s, mzd_mul_mp %s\n", m, l, n, cutoff, oksq ? "ok" : "WRONG", okmp ? "ok" : "WRONG");
    if (!okmp || !oksq) bad++;
  }
  printf(bad ? "FAIL\n" : "OK\n");
  return bad != 0;
#else
  printf("OK (library built without OpenMP: mp.c is empty)\n");
  return 0;
#endif
}
