/* Triage replay (not a registered check) for the C1 (last-word discipline) reports.
 * Each case puts a view with excess bits (ncols % 64 != 0) inside an all-ones / random parent and
 * checks that the parent is unchanged outside the view (C09), resp. that an owned result has zero
 * excess bits (C10).
 * build: gcc -I/repo replays/c09_excess_bits.c -L/repo/.libs -lm4ri -lm -Wl,-rpath,/repo/.libs */
#include <m4ri/m4ri.h>
#include <m4ri/djb.h>
#include <stdio.h>
#include <string.h>
static int bad = 0;
#define CHECK(name, cond) do { int ok_ = (cond); printf("%-58s %s\n", name, ok_ ? "ok" : "DEFECT"); if (!ok_) bad++; } while (0)

static mzd_t *ones(rci_t r, rci_t c) { mzd_t *A = mzd_init(r, c); for (rci_t i = 0; i < r; i++) for (rci_t j = 0; j < c; j++) mzd_write_bit(A, i, j, 1); return A; }
/* parent unchanged outside the window [r0,r1) x [c0,c1) ? */
static int outside_same(mzd_t const *P, mzd_t const *P0, rci_t r0, rci_t c0, rci_t r1, rci_t c1) {
  for (rci_t i = 0; i < P->nrows; i++) for (rci_t j = 0; j < P->ncols; j++) {
    if (i >= r0 && i < r1 && j >= c0 && j < c1) continue;
    if (mzd_read_bit(P, i, j) != mzd_read_bit(P0, i, j)) return 0;
  }
  return 1;
}
static int excess_zero(mzd_t const *A) {
  if (A->ncols % 64 == 0) return 1;
  for (rci_t i = 0; i < A->nrows; i++) if (mzd_row_const(A, i)[A->width - 1] & ~A->high_bitmask) return 0;
  return 1;
}
int main(void) {
  { /* #6 mzd_row_clear_offset */
    mzd_t *P = ones(2, 128), *P0 = mzd_copy(NULL, P);
    mzd_t *W = mzd_init_window(P, 0, 0, 2, 70);
    mzd_row_clear_offset(W, 0, 3);
    int in_ok = 1; for (rci_t j = 0; j < 70; j++) if (mzd_read_bit(W, 0, j) != (j < 3)) in_ok = 0;
    CHECK("row_clear_offset(view 2x70, 0, 3): view content", in_ok);
    CHECK("row_clear_offset(view 2x70, 0, 3): parent outside", outside_same(P, P0, 0, 0, 2, 70));
    mzd_t *M = ones(1, 128); mzd_row_clear_offset(M, 0, 70);
    int o = 1; for (rci_t j = 0; j < 128; j++) if (mzd_read_bit(M, 0, j) != (j < 70)) o = 0;
    CHECK("row_clear_offset(1x128 ones, 0, 70): content", o);
  }
  { /* #7 concat / stack: owned result built from a view source */
    mzd_t *P = ones(2, 128); mzd_t *A = mzd_init_window(P, 0, 0, 2, 10); mzd_t *B = mzd_init(2, 5);
    mzd_t *C = mzd_concat(NULL, A, B);
    int o = 1; for (rci_t j = 10; j < 15; j++) if (mzd_read_bit(C, 0, j)) o = 0;
    CHECK("concat(NULL, view 2x10 of ones, zero 2x5): B block is zero", o);
    CHECK("concat(NULL, view, zero): owned result has zero excess", excess_zero(C));
    mzd_t *B2 = mzd_init(1, 10); mzd_t *S = mzd_stack(NULL, A, B2);
    CHECK("stack(NULL, view 2x10 of ones, zero 1x10): zero excess", excess_zero(S));
    /* destination is a view */
    mzd_t *Q = ones(3, 128), *Q0 = mzd_copy(NULL, Q); mzd_t *D = mzd_init_window(Q, 0, 0, 3, 10);
    mzd_t *Az = mzd_init(2, 10), *Bz = mzd_init(1, 10);
    mzd_stack(D, Az, Bz);
    CHECK("stack(view 3x10, zero, zero): parent outside", outside_same(Q, Q0, 0, 0, 3, 10));
  }
  { /* #8 _mzd_copy_back_rows via non-reduced M4RI on a view */
    mzd_t *P = mzd_init(40, 128); mzd_randomize(P); mzd_t *P0 = mzd_copy(NULL, P);
    mzd_t *W = mzd_init_window(P, 0, 0, 40, 70);
    mzd_echelonize_m4ri(W, 0, 0);
    CHECK("echelonize_m4ri(view 40x70, full=0): parent outside", outside_same(P, P0, 0, 0, 40, 70));
  }
  { /* #10 submatrix into a view destination, aligned path */
    mzd_t *P = ones(2, 128), *P0 = mzd_copy(NULL, P); mzd_t *S = mzd_init_window(P, 0, 0, 2, 10);
    mzd_t *M = mzd_init(2, 64);
    mzd_submatrix(S, M, 0, 0, 2, 10);
    CHECK("submatrix(view 2x10, zero, 0,0,2,10): parent outside", outside_same(P, P0, 0, 0, 2, 10));
  }
  { /* #13a extract_l into a view */
    mzd_t *P = ones(10, 128), *P0 = mzd_copy(NULL, P); mzd_t *L = mzd_init_window(P, 0, 0, 10, 10);
    mzd_t *A = ones(10, 10);
    mzd_extract_l(L, A);
    CHECK("extract_l(view 10x10, ones): parent outside", outside_same(P, P0, 0, 0, 10, 10));
    int o = 1; for (rci_t i = 0; i < 10; i++) for (rci_t j = 0; j < 10; j++) if (mzd_read_bit(L, i, j) != (j <= i)) o = 0;
    CHECK("extract_l(view 10x10, ones): lower triangle", o);
  }
  { /* #13b djb_apply_mzd into a view */
    mzd_t *A = mzd_init(8, 8); mzd_randomize(A); djb_t *z = djb_compile(mzd_copy(NULL, A));
    mzd_t *P = ones(8, 128), *P0 = mzd_copy(NULL, P); mzd_t *Wv = mzd_init_window(P, 0, 0, 8, 10);
    mzd_t *Vp = ones(8, 128); mzd_t *V = mzd_init_window(Vp, 0, 0, 8, 10);
    for (rci_t i = 0; i < 8; i++) mzd_row_clear_offset(Wv, i, 0);
    mzd_copy(P0, P);
    djb_apply_mzd(z, Wv, V);
    CHECK("djb_apply_mzd(view W 8x10, view V of ones): parent of W", outside_same(P, P0, 0, 0, 8, 10));
  }
  { /* #13c _mzd_ple_a10 / base-case PLE on a view */
    /* the A10 update only runs when the view is wider than 8 words */
    mzd_t *P = mzd_init(200, 704); mzd_randomize(P); mzd_t *P0 = mzd_copy(NULL, P);
    mzd_t *W = mzd_init_window(P, 0, 0, 150, 600);
    mzp_t *Pp = mzp_init(150), *Qp = mzp_init(600);
    _mzd_ple_russian(W, Pp, Qp, 0);
    CHECK("_mzd_ple_russian(view 150x600): parent outside", outside_same(P, P0, 0, 0, 150, 600));
  }
  { /* #13d _mzd_compress_l: recursive PLE on a large view */
    /* tall full-column-rank view: rank = ncols lands in the last (partial) word */
    mzd_t *P = mzd_init(30000, 1152); mzd_randomize(P);
    for (rci_t i = 0; i < 30000; i++) mzd_write_bit(P, i, 5, 0);   /* rank-deficient left half: L must be compressed */
    mzd_t *P0 = mzd_copy(NULL, P);
    mzd_t *W = mzd_init_window(P, 0, 0, 30000, 1090);
    mzp_t *Pp = mzp_init(30000), *Qp = mzp_init(1090);
    mzd_t *Wc = mzd_copy(NULL, W); mzp_t *Pc = mzp_init(30000), *Qc = mzp_init(1090);
    rci_t rv = _mzd_ple(W, Pp, Qp, 0);
    rci_t rc = _mzd_ple(Wc, Pc, Qc, 0);
    CHECK("_mzd_ple(view) == _mzd_ple(standalone copy): rank and content", rv == rc && mzd_equal(W, Wc));
    int same = 1;
    for (rci_t i = 0; i < 30000 && same; i++) {
      word const *a = mzd_row_const(P, i), *b = mzd_row_const(P0, i);
      for (wi_t j = 1090 / 64; j < P->width; j++) {
        word m = (j == 1090 / 64) ? ~W->high_bitmask : m4ri_ffff;
        if ((a[j] ^ b[j]) & m) { same = 0; break; }
      }
    }
    CHECK("_mzd_ple(view 30000x1090, recursive): parent outside", same);
  }
  { /* #9 first_zero_row on a one-word view */
    mzd_t *P = mzd_init(4, 64); mzd_write_bit(P, 3, 40, 1);
    mzd_t *W = mzd_init_window(P, 0, 0, 4, 10);
    CHECK("first_zero_row(zero view 4x10, parent bit at column 40) == 0", mzd_first_zero_row(W) == 0);
  }
  printf("%d defect(s)\n", bad);
  return bad != 0;
}
