/* triage replay (not a check): aligned-vector kernels on views at an odd word offset.
 * usage: ./a.out 0|1|2|3   (0: top_echelonize, 1: trtri_upper, 2: control at an even offset, 3: PLE base case)
 * pinned tree: cases 0 and 1 die with SIGSEGV, case 2 succeeds. */
#include <m4ri/m4ri.h>
#include <stdio.h>
#include <stdlib.h>
int main(int argc, char **argv) {
  int which = argc > 1 ? atoi(argv[1]) : 0;
  mzd_t *P = mzd_init(300, 64 * 8);
  mzd_randomize(P);
  if (which == 0) {
    mzd_t *W = mzd_init_window(P, 0, 64, 300, 64 * 7);
    mzd_echelonize_m4ri(W, 0, 0);
    mzd_top_echelonize_m4ri(W, 0);
    puts("top_echelonize on odd-offset view ok");
  } else if (which == 1) {
    mzd_t *W = mzd_init_window(P, 0, 64, 300, 64 + 300);
    for (int i = 0; i < 300; i++) { mzd_write_bit(W, i, i, 1); for (int j = 0; j < i; j++) mzd_write_bit(W, i, j, 0); }
    mzd_trtri_upper(W);
    puts("trtri_upper on odd-offset view ok");
  } else if (which == 3) {
    mzd_t *W = mzd_init_window(P, 0, 64, 300, 64 * 7);
    mzp_t *Pp = mzp_init(300), *Qp = mzp_init(64 * 6);
    _mzd_ple_russian(W, Pp, Qp, 0);
    puts("_mzd_ple_russian on odd-offset view ok");
  } else {
    mzd_t *W = mzd_init_window(P, 0, 128, 300, 64 * 7);
    mzd_echelonize_m4ri(W, 0, 0); mzd_top_echelonize_m4ri(W, 0);
    mzd_t *W2 = mzd_init_window(P, 0, 128, 300, 128 + 300);
    for (int i = 0; i < 300; i++) { mzd_write_bit(W2, i, i, 1); for (int j = 0; j < i; j++) mzd_write_bit(W2, i, j, 0); }
    mzd_trtri_upper(W2);
    puts("even-offset control ok");
  }
  return 0;
}
