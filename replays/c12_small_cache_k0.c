/* Triage replay (not a registered check): library sources compiled with the configuration
 * L1/L2/L3 = 4096/32768/65536 (generated from m4ri_config.h.in, pre-included):
 *   python3 -c "import sys; sys.path.insert(0,'/verif'); from m4lint import frontend as F; c=dict(F.host_config(), l1=4096,l2=32768,l3=65536); F.write_cfg_header(c,'/tmp/cfg_small.h')"
 *   gcc -DHAVE_CONFIG_H -include /tmp/cfg_small.h -I/repo -I/repo/m4ri -I/usr/include/libpng16 -msse2 replays/c12_small_cache_k0.c /repo/m4ri/[a-z]*.c -lm -lpng16 -o k0
 *   timeout 20 ./k0      pinned tree: hangs (k becomes 0 in _mzd_echelonize_m4ri); host configuration: rank 3 */
#include <m4ri/m4ri.h>
#include <stdio.h>
int main(void) {
  mzd_t *A = mzd_init(3, 30000);
  mzd_randomize(A);
  rci_t r = mzd_echelonize_m4ri(A, 1, 0);
  printf("rank %d\n", r);
  return r == 3 ? 0 : 1;
}
