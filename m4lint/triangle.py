"""Engine T - triangle-read discipline of the triangular solves (property C04, clause "only the named triangle of T is read").

T1: inside every function of the frozen TRSM family, the triangular operand T (and every diagonal-anchored window of it)
is used only in these ways:
  (a) header reads (T->nrows, T->ncols, ...), or calls that never reach the data words of that argument;
  (b) passed on as the triangular operand of another family member of the same orientation;
  (c) mzd_init_window_const(T, a, a, b, b) - a diagonal block, again triangular with the same orientation -, or
      a block that lies completely inside the named triangle (upper: last row <= first column; lower: last column <=
      first row), which is an ordinary matrix from then on;
  (d) single-bit / bit-range reads whose coordinates are proved to stay inside the named triangle (diagonal included)
      from the enclosing loops: upper  col >= row ; lower  col + n - 1 <= row;
  (e) a triangle extractor (mzd_extract_u for upper, mzd_extract_l for lower), whose result is an ordinary matrix;
  (f) release of a window.
Everything else - a copy, a product, a word-wise read of a row - reads the opposite triangle and is reported.
"""
from .ast import strip, callee_name, int_value, pp
from .driver import Finding, RuleResult
from .frontend import AnalysisBroken
from .symbolic import Lin, FuncSym

# function -> (index of the triangular parameter, orientation)
FAMILY = {
    'mzd_trsm_upper_right': (0, 'upper'), '_mzd_trsm_upper_right': (0, 'upper'), '_mzd_trsm_upper_right_base': (0, 'upper'),
    '_mzd_trsm_upper_right_trtri': (0, 'upper'),
    'mzd_trsm_lower_right': (0, 'lower'), '_mzd_trsm_lower_right': (0, 'lower'), '_mzd_trsm_lower_right_base': (0, 'lower'),
    'mzd_trsm_lower_left': (0, 'lower'), '_mzd_trsm_lower_left': (0, 'lower'), '_mzd_trsm_lower_left_russian': (0, 'lower'),
    '_mzd_trsm_lower_left_submatrix': (0, 'lower'),
    'mzd_trsm_upper_left': (0, 'upper'), '_mzd_trsm_upper_left': (0, 'upper'), '_mzd_trsm_upper_left_russian': (0, 'upper'),
    '_mzd_trsm_upper_left_submatrix': (0, 'upper'),
}
EXTRACTORS = {'mzd_extract_u': (1, 'upper'), 'mzd_extract_l': (1, 'lower')}
WINDOWS = ('mzd_init_window_const', 'mzd_init_window')
RELEASE = ('mzd_free_window', 'mzd_free')
BIT_READERS = {'mzd_read_bit': 1, 'mzd_read_bits': None, 'mzd_read_bits_int': None}   # value: fixed width or None = 4th argument
HEADER_FIELDS = ('nrows', 'ncols', 'width', 'rowstride', 'flags', 'offset_vector', 'row_offset', 'high_bitmask', 'blockrows_log', 'padding')
# quantities that are at least zero wherever they are used in a coordinate (one reason each)
# (function, parameter index): quantities that are at least zero wherever they are used in a coordinate
NONNEG_PARAMS = {
    ('_mzd_trsm_upper_left_russian', 2): 'the table width k is clamped to 2..8 when chosen here and is >= 1 when passed by a caller; negative k indexes nothing',
}
NONNEG = {}


def _reads_data(prog, g, idx, depth=0, seen=None):
    """may function g reach the data words of its idx-th argument?"""
    seen = seen or set()
    if (g.name, idx) in seen:
        return False
    seen.add((g.name, idx))
    if g.body is None or idx >= len(g.params) or depth > 5:
        return True
    pid = g.params[idx].id
    par = {}
    for n in g.body.walk():
        for c in n.kids:
            par[c.uid] = n
    for n in g.body.walk():
        if n.kind == 'DeclRefExpr' and n.refid == pid:
            p = par.get(n.uid)
            while p is not None and p.kind in ('ImplicitCastExpr', 'ParenExpr', 'CStyleCastExpr'):
                p = par.get(p.uid)
            if p is not None and p.kind == 'MemberExpr' and p.name in HEADER_FIELDS:
                continue
            if p is not None and p.kind == 'CallExpr':
                h = prog.resolve(callee_name(p), g) if callee_name(p) else None
                j = [i for i, a in enumerate(p.kids[1:]) if any(x is n for x in a.walk())]
                if h is not None and j and not _reads_data(prog, h, j[0], depth + 1, seen):
                    continue
            return True
    return False


class _Both(object):
    """pseudo node: lets FuncSym._bound collect local ids from several expressions"""
    def __init__(self, *es):
        self.es = es

    def walk(self):
        for e in self.es:
            for n in e.walk():
                yield n


def _versioned(fs, s, at, muts):
    for a in list(s.atoms()):
        if a in muts and len(muts[a]) >= 1:
            k = sum(1 for (ln, col) in muts[a] if (ln, col) < (at.line, at.col or 0))
            s = s.subst(a, Lin.atom('%s#%d' % (a, k)))
    return s


def _prove_nonneg(fname, fs, muts, d_lin, exprs, at):
    """min over the enclosing loops of d_lin is >= 0 ?  returns (ok, text)"""
    s = d_lin
    both = _Both(*exprs)
    ids = {}
    for n in both.walk():
        if n.kind == 'DeclRefExpr' and n.refkind in ('VarDecl', 'ParmVarDecl'):
            ids.setdefault(n.ref, n.refid)
    # induction variables of every enclosing loop, innermost first
    for _round in range(4):
        changed = False
        for loop in fs.enclosing_all(at, ('ForStmt',)):
            iv = fs._induction(loop)
            if iv is None:
                continue
            vid, lo, hi, step = iv
            name = fs.decl[vid].name if vid in fs.decl else None
            if name is None or name not in s.t:
                continue
            k = s.t[name]
            ext = lo if k > 0 else (hi - Lin(1))     # minimise
            s = s.subst(name, ext)
            changed = True
        if not changed:
            break
    s = _versioned(fs, s, at, muts)
    if s.is_const():
        return s.c >= 0, 'min = %d' % s.c
    if s.c >= 0 and all(v >= 0 for v in s.t.values()):
        ok = True
        for a in s.t:
            base = a.split('#')[0]
            if (fname, base) in NONNEG:
                continue
            # induction variable starting at a constant >= 0
            good = False
            if base in ids and '#' not in a:
                for loop in fs.enclosing_all(at, ('ForStmt',)):
                    iv = fs._induction(loop)
                    if iv is not None and iv[0] == ids[base] and iv[1].is_const() and iv[1].c >= 0 and iv[3] > 0:
                        good = True
            if not good:
                ok = False
        if ok:
            return True, 'min = %r with non-negative terms' % s
    return False, 'min = %r is not provably >= 0' % s


def rule_T1(ctx, prog, label, rule='T1'):
    rr = RuleResult(rule, 'triangular operands of the TRSM family are read only inside their named triangle: diagonal windows stay '
                          'triangular, in-triangle blocks are free, bit reads are coordinate-proved, everything else is a finding')
    work = sorted(FAMILY.items())
    family = dict(FAMILY)
    wi_ = 0
    while wi_ < len(work):
        fname, (pidx, orient) = work[wi_]
        wi_ += 1
        f = prog.funcs.get(fname)
        if f is None or f.body is None:
            raise AnalysisBroken('T1: family member %s is missing' % fname)
        fs = FuncSym(f, max_depth=6)
        for (fn_, pi_), why_ in NONNEG_PARAMS.items():
            if fn_ == fname and pi_ < len(f.params):
                NONNEG[(fname, f.params[pi_].name)] = why_
        muts = {}
        for n in f.body.walk():
            if n.kind == 'CompoundAssignOperator' or (n.kind == 'UnaryOperator' and n.op in ('++', '--')) or (n.kind == 'BinaryOperator' and n.op == '='):
                l = strip(n.kids[0])
                if l.kind == 'DeclRefExpr' and l.refkind in ('VarDecl', 'ParmVarDecl'):
                    muts.setdefault(l.ref, []).append((n.line, n.col or 0))
        par = fs.parent
        tg = {f.params[pidx].id: 'parameter'}      # decl id -> how it became triangular
        rowalias = {}                               # decl id -> row expression
        if f.params[pidx].id in fs.defs or f.params[pidx].name in muts:
            rr.instances += 1
            rr.ob(False, None, Finding(rule, '%s|%s|reassigned' % (rule, fname), f.loc, fname, 'the triangular parameter is reassigned', {}, label))
            continue

        def bad(n, what, key):
            rr.ob(False, None, Finding(rule, '%s|%s|%s' % (rule, fname, key), n.loc, fname,
                                       '%s-triangular operand `%s`: %s' % (orient, f.params[pidx].name, what), {}, label))

        def coords(n, r, c, width, how):
            """obligation: cell range (r, c..c+width-1) lies in the named triangle"""
            rl, cl = fs.sym(r), fs.sym(c)
            if orient == 'upper':
                d = cl - rl
                exprs = [r, c]
            else:
                if width is None:
                    bad(n, 'bit-range read of unknown width `%s`' % pp(n)[:60], 'width')
                    return
                wl = fs.sym(width) if not isinstance(width, int) else Lin(width)
                d = rl - (cl + wl - Lin(1))
                exprs = [r, c] + ([width] if not isinstance(width, int) else [])
            ok, why = _prove_nonneg(fname, fs, muts, d, exprs, n)
            rr.ob(ok, dict(function=fname, read=pp(n)[:70], orientation=orient, how=how, verdict=why),
                  Finding(rule, '%s|%s|coords|%s' % (rule, fname, how), n.loc, fname,
                          '%s-triangular operand is read at (row %s, column %s%s), not provably inside the %s triangle: %s'
                          % (orient, pp(r)[:30], pp(c)[:30], '' if width in (1, None) else ' .. +%s' % (width if isinstance(width, int) else pp(width)[:20]), orient, why), {}, label))

        def up(n):
            p = par.get(n.uid)
            while p is not None and p.kind in ('ImplicitCastExpr', 'ParenExpr', 'CStyleCastExpr'):
                n, p = p, par.get(p.uid)
            return n, p

        def bit_of_word(n, sub_node, row_expr, widx):
            """n = ArraySubscriptExpr reading word widx of the row; accepted shape: (word >> c) & 1"""
            top, p = up(sub_node)
            if p is not None and p.kind == 'BinaryOperator' and p.op == '>>' and strip(p.kids[0], casts=True) is strip(top, casts=True) or \
               (p is not None and p.kind == 'BinaryOperator' and p.op == '>>' and any(x is sub_node for x in p.kids[0].walk())):
                top2, p2 = up(p)
                if p2 is not None and p2.kind == 'BinaryOperator' and p2.op == '&':
                    other = p2.kids[1] if any(x is p for x in p2.kids[0].walk()) else p2.kids[0]
                    o = strip(other, casts=True)
                    if int_value(o) == 1 or (o.kind == 'DeclRefExpr' and o.ref == 'm4ri_one'):
                        w = widx if isinstance(widx, int) else int_value(widx)
                        if w is None:
                            bad(sub_node, 'bit read from a word with a non-constant index `%s`' % pp(sub_node)[:60], 'wordidx')
                            return
                        c = p.kids[1]
                        if w == 0:
                            coords(sub_node, row_expr, c, 1, 'row-word-bit')
                        else:
                            bad(sub_node, 'bit read from word %d of a row (column base not modelled)' % w, 'wordidx')
                        return
            bad(sub_node, 'a whole word of a row is read (`%s`): bits of the opposite triangle flow into the result' % pp(par.get(sub_node.uid) or sub_node)[:70], 'wordread')

        # fixpoint over local definitions: windows and row aliases
        changed = True
        handled_defs = set()
        while changed:
            changed = False
            for vid, ds in fs.defs.items():
                if vid in tg or vid in rowalias:
                    continue
                for d in ds:
                    e = strip(d, casts=True)
                    if e.kind != 'CallExpr':
                        continue
                    cn = callee_name(e)
                    a = e.kids[1:]
                    if cn in WINDOWS and a and strip(a[0], casts=True).kind == 'DeclRefExpr' and strip(a[0], casts=True).refid in tg:
                        r0, c0, r1, c1 = [fs.sym(x) for x in a[1:5]]
                        if r0 == c0 and r1 == c1:
                            if len(ds) != 1 or vid in fs.mutated:
                                bad(e, 'diagonal window stored in a variable with several definitions', 'window-multi')
                                continue
                            tg[vid] = 'diagonal window %s' % pp(e)[:60]
                            changed = True
                    elif cn in ('mzd_row_const', 'mzd_row') and a and strip(a[0], casts=True).kind == 'DeclRefExpr' and strip(a[0], casts=True).refid in tg:
                        if len(ds) == 1 and vid not in fs.mutated:
                            rowalias[vid] = (a[1], e)
                            changed = True
        # classify every use
        for n in f.body.walk():
            if n.kind != 'DeclRefExpr':
                continue
            if n.refid in rowalias:
                rr.instances += 1
                top, p = up(n)
                if p is not None and p.kind == 'ArraySubscriptExpr' and any(x is n for x in p.kids[0].walk()):
                    bit_of_word(n, p, rowalias[n.refid][0], p.kids[1])
                elif p is not None and p.kind == 'UnaryOperator' and p.op == '*':
                    bit_of_word(n, p, rowalias[n.refid][0], 0)                     # *row  is  row[0]
                elif p is not None and p.kind == 'BinaryOperator' and p.op == '+' and par.get(up(p)[0].uid) is not None and \
                        up(p)[1] is not None and up(p)[1].kind == 'UnaryOperator' and up(p)[1].op == '*':
                    other = p.kids[1] if any(x is n for x in p.kids[0].walk()) else p.kids[0]
                    bit_of_word(n, up(p)[1], rowalias[n.refid][0], other)            # *(row + c)  is  row[c]
                else:
                    bad(n, 'row pointer `%s` escapes into `%s`' % (n.ref, pp(p)[:60] if p is not None else '?'), 'rowptr')
                continue
            if n.refid not in tg:
                continue
            rr.instances += 1
            top, p = up(n)
            if p is None:
                continue
            if p.kind == 'MemberExpr':
                if p.name in HEADER_FIELDS:
                    rr.ob(True, None)
                else:
                    bad(n, 'direct access to `%s->%s`' % (n.ref, p.name), 'field')
                continue
            if p.kind in ('BinaryOperator',) and p.op in ('==', '!='):
                rr.ob(True, None)      # pointer comparison
                continue
            if p.kind == 'CallExpr':
                cn = callee_name(p)
                a = p.kids[1:]
                j = [i for i, x in enumerate(a) if any(y is n for y in x.walk())]
                j = j[0] if j else None
                if cn in family and family[cn][0] == j:
                    ok = family[cn][1] == orient
                    rr.ob(ok, dict(function=fname, passes_to=cn, orientation=orient),
                          Finding(rule, '%s|%s|orient|%s' % (rule, fname, cn), n.loc, fname, '%s-triangular operand is handed to %s, which reads the %s triangle' % (orient, cn, family[cn][1]), {}, label))
                    continue
                if cn in EXTRACTORS and EXTRACTORS[cn][0] == j:
                    ok = EXTRACTORS[cn][1] == orient
                    rr.ob(ok, dict(function=fname, extractor=cn),
                          Finding(rule, '%s|%s|extract|%s' % (rule, fname, cn), n.loc, fname, '%s-triangular operand goes through %s, which keeps the %s triangle' % (orient, cn, EXTRACTORS[cn][1]), {}, label))
                    continue
                if cn in WINDOWS and j == 0:
                    r0, c0, r1, c1 = [fs.sym(x) for x in a[1:5]]
                    if r0 == c0 and r1 == c1:
                        # must have been recorded as a triangular local
                        pp_ = par.get(p.uid)
                        rr.ob(True, dict(function=fname, window=pp(p)[:70], kind='diagonal'))
                        continue
                    inside = (r1 == c0) if orient == 'upper' else (c1 == r0)
                    rr.ob(inside, dict(function=fname, window=pp(p)[:70], kind='in-triangle block'),
                          Finding(rule, '%s|%s|window' % (rule, fname), p.loc, fname,
                                  'window `%s` of the %s-triangular operand is neither a diagonal block nor completely inside the %s triangle' % (pp(p)[:70], orient, orient), {}, label))
                    continue
                if cn in RELEASE:
                    rr.ob(True, None)
                    continue
                if cn in BIT_READERS and j == 0:
                    w = BIT_READERS[cn]
                    coords(p, a[1], a[2], w if w is not None else a[3], cn)
                    continue
                if cn in ('mzd_row_const', 'mzd_row') and j == 0:
                    top2, p2 = up(p)
                    if p2 is not None and p2.kind == 'ArraySubscriptExpr':
                        bit_of_word(p, p2, a[1], p2.kids[1])
                        continue
                    if p2 is not None and p2.kind == 'UnaryOperator' and p2.op == '*':
                        bit_of_word(p, p2, a[1], 0)
                        continue
                    if p2 is not None and p2.kind == 'BinaryOperator' and p2.op == '+' and up(p2)[1] is not None and up(p2)[1].kind == 'UnaryOperator' and up(p2)[1].op == '*':
                        other = p2.kids[1] if any(x is p for x in p2.kids[0].walk()) else p2.kids[0]
                        bit_of_word(p, up(p2)[1], a[1], other)
                        continue
                    if p2 is not None and p2.kind in ('VarDecl', 'BinaryOperator'):
                        # recorded as a row alias (checked at its uses) - otherwise unknown
                        tgt = p2.id if p2.kind == 'VarDecl' else getattr(strip(p2.kids[0]), 'refid', None)
                        if tgt in rowalias:
                            rr.ob(True, None)
                            continue
                    bad(p, 'row pointer `%s` is used in a way that is not a single-bit read' % pp(p)[:60], 'rowptr')
                    continue
                g = prog.resolve(cn, f) if cn else None
                if g is not None and j is not None and not _reads_data(prog, g, j):
                    rr.ob(True, dict(function=fname, passes_to=cn, reads='header only'))
                    continue
                if g is not None and j is not None and g.static and (g.file or '').endswith('.c') and g.file == f.file and j < len(g.params) and 'mzd_t' in (g.params[j].type or ''):
                    # a file-local helper split off a family member (e.g. its base case): it joins the family with the same
                    # orientation and is analysed like the others
                    if cn not in family:
                        family[cn] = (j, orient)
                        work.append((cn, (j, orient)))
                    ok_o = family[cn] == (j, orient)
                    rr.ob(ok_o, dict(function=fname, passes_to=cn, orientation=orient, joined='file-local helper'),
                          Finding(rule, '%s|%s|orient|%s' % (rule, fname, cn), n.loc, fname, 'the file-local helper %s receives triangular operands of both orientations' % cn, {}, label))
                    continue
                bad(n, 'is handed to %s(), which reads its whole argument (the opposite triangle may hold arbitrary data)' % cn, 'consumer|%s' % cn)
                continue
            if p.kind == 'VarDecl' or (p.kind == 'BinaryOperator' and p.op == '='):
                bad(n, 'is copied into another pointer (`%s`)' % pp(p)[:60], 'alias')
                continue
            if p.kind in ('ConditionalOperator', 'IfStmt', 'UnaryOperator') and (p.kind != 'UnaryOperator' or p.op == '!'):
                rr.ob(True, None)
                continue
            bad(n, 'unrecognised use `%s`' % pp(p)[:60], 'use')
    rr.require_floor(60)
    return rr
