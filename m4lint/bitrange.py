"""C7c - shift-offset typing of the bit-range primitives (property C13: "bit-range read/xor/clear affect exactly the
addressed entries").

Every value in mzd_read_bits / mzd_xor_bits / mzd_clear_bits is a union of *terms* (source, offset, extent):
  - source: a word of the row (`row[block + d]`), the caller's `values`, or the all-ones constant;
  - offset o: result bit i carries source bit i + o (a linear form over spot = y % 64 and n);
  - extent [lo, hi): the bit positions of the result the term can occupy (tracked for masks built from m4ri_ffff).
Shifts move offsets and extents (`<< s`: o - s, `>> s`: o + s), `|` unites, `~` complements a mask, `?:` and `if` split.
Specification, with column c = 64*(block + d) + j addressed iff spot <= c - 64*block < spot + n:
  read:  the returned word's bit i is row bit spot + i: a term taken from row[block + d] has offset spot - 64 d;
  xor:   row[block + d] ^= term of `values` with offset 64 d - spot  (word bit j carries value bit j + 64 d - spot);
  clear: the mask removed from row[block + d] has extent [spot - 64 d, spot + n - 64 d) (clipped to the word).
Every term in the three functions must satisfy its equation as linear forms; nothing is evaluated."""
from .ast import strip, callee_name, int_value, pp
from .driver import Finding, RuleResult
from .frontend import AnalysisBroken
from .symbolic import Lin

SPOT, N = Lin.atom('spot'), Lin.atom('n')


_DOM = {'spot': (0, 63), 'n': (1, 64)}


def _range(l):
    lo = hi = l.c
    for a, k in l.t.items():
        if a not in _DOM:
            return None
        x, y = _DOM[a]
        lo += min(k * x, k * y)
        hi += max(k * x, k * y)
    return lo, hi


def _clip_lo(l):
    """lower end of a bit extent inside a word: max(l, 0) when that is decidable over spot in 0..63, n in 1..64"""
    r = _range(l)
    if r is not None and r[1] <= 0:
        return Lin(0)
    return l


class Term(object):
    __slots__ = ('src', 'd', 'off', 'lo', 'hi', 'neg')

    def __init__(self, src, d=0, off=None, lo=None, hi=None, neg=False):
        self.src, self.d, self.off, self.lo, self.hi, self.neg = src, d, off if off is not None else Lin(0), lo, hi, neg

    def shifted(self, s, left):
        # left shift by s: result bit i <- source bit i - s
        t = Term(self.src, self.d, self.off - s if left else self.off + s, None, None, self.neg)
        if self.lo is not None:
            t.lo, t.hi = (self.lo + s, self.hi + s) if left else (_clip_lo(self.lo - s), self.hi - s)
        return t

    def __repr__(self):
        return '%s%s[d=%s] off=%r ext=[%r,%r)' % ('~' if self.neg else '', self.src, self.d, self.off, self.lo, self.hi)


class BitEval(object):
    def __init__(self, f):
        self.f = f
        self.env = {}          # decl id -> Lin (ints) or list of Terms (words)
        self.names = {}
        # (M, x, y, n[, values]) by position, whatever the parameters are called
        self.ypar = [f.params[2]] if len(f.params) > 2 else []
        self.npar = [f.params[3]] if len(f.params) > 3 else []
        self.vpar = [f.params[4]] if len(f.params) > 4 else []
        self.rowvar = None
        self.blockvar = None

    def lin(self, e):
        e0 = strip(e, casts=True)
        v = int_value(e0)
        if v is not None:
            return Lin(v)
        if e0.kind == 'DeclRefExpr':
            if e0.ref == 'm4ri_radix':
                return Lin(64)
            if e0.refid in self.env and isinstance(self.env[e0.refid], Lin):
                return self.env[e0.refid]
            if self.npar and e0.refid == self.npar[0].id:
                return N
            return None
        if e0.kind == 'BinaryOperator':
            if e0.op == '%' and (int_value(e0.kids[1]) == 64 or pp(strip(e0.kids[1], casts=True)) == 'm4ri_radix'):
                x = strip(e0.kids[0], casts=True)
                if x.kind == 'DeclRefExpr' and self.ypar and x.refid == self.ypar[0].id:
                    return SPOT
                xl = self.lin(x)
                r = _range(xl) if xl is not None else None
                if r is not None and r[0] >= 0 and r[1] <= 63:
                    return xl          # `% 64` of a quantity already inside 0..63 (the bitmask macros)
                return None
            a, b = self.lin(e0.kids[0]), self.lin(e0.kids[1])
            if a is None or b is None:
                return None
            if e0.op == '+':
                return a + b
            if e0.op == '-':
                return a - b
        if e0.kind == 'UnaryOperator' and e0.op == '-':
            a = self.lin(e0.kids[0])
            return None if a is None else a.scale(-1)
        return None

    def word(self, e):
        """list of Terms, or None if not understood"""
        e0 = strip(e, casts=True)
        if e0 is None:
            return None
        if e0.kind == 'DeclRefExpr':
            if e0.ref == 'm4ri_ffff':
                return [Term('ones', 0, Lin(0), Lin(0), Lin(64))]
            if e0.refid in self.env and isinstance(self.env[e0.refid], list):
                return self.env[e0.refid]
            if self.vpar and e0.refid == self.vpar[0].id:
                return [Term('values', 0, Lin(0), Lin(0), N)]
            return None
        if e0.kind == 'ArraySubscriptExpr':
            b = strip(e0.kids[0], casts=True)
            if b.kind == 'DeclRefExpr' and b.refid == self.rowvar:
                i = strip(e0.kids[1], casts=True)
                if i.kind == 'DeclRefExpr' and i.refid == self.blockvar:
                    return [Term('row', 0)]
                if i.kind == 'BinaryOperator' and i.op == '+' and strip(i.kids[0], casts=True).kind == 'DeclRefExpr' and strip(i.kids[0], casts=True).refid == self.blockvar and int_value(i.kids[1]) is not None:
                    return [Term('row', int_value(i.kids[1]))]
            return None
        if e0.kind == 'BinaryOperator' and e0.op in ('<<', '>>'):
            w = self.word(e0.kids[0])
            s = self.lin(e0.kids[1])
            if w is None or s is None:
                return None
            return [t.shifted(s, e0.op == '<<') for t in w]
        if e0.kind == 'BinaryOperator' and e0.op == '|':
            a, b = self.word(e0.kids[0]), self.word(e0.kids[1])
            return None if a is None or b is None else a + b
        if e0.kind == 'UnaryOperator' and e0.op == '~':
            w = self.word(e0.kids[0])
            if w is None:
                return None
            return [Term(t.src, t.d, t.off, t.lo, t.hi, not t.neg) for t in w]
        if e0.kind == 'BinaryOperator' and e0.op == '&':
            # word & mask-of-ones: keeps the word's offset, restricts the extent
            a, b = self.word(e0.kids[0]), self.word(e0.kids[1])
            if a is None or b is None:
                return None
            for (x, y) in ((a, b), (b, a)):
                if all(t.src == 'ones' for t in y) and len(y) == 1 and not y[0].neg:
                    return [Term(t.src, t.d, t.off, y[0].lo, y[0].hi, t.neg) for t in x]
            return None
        return None


def rule_C7c(ctx, prog, label, rule='C7c'):
    rr = RuleResult(rule, 'bit-range primitives: every term read from / written to the row sits at the offset and extent the addressed range [y, y+n) '
                          'prescribes (shift-offset typing over linear forms in spot = y % 64 and n)')
    for name, mode in (('mzd_read_bits', 'read'), ('mzd_xor_bits', 'xor'), ('mzd_clear_bits', 'clear')):
        f = prog.funcs.get(name)
        if f is None or f.body is None:
            raise AnalysisBroken('C7c: %s vanished' % name)
        B = BitEval(f)
        if not B.ypar or not B.npar:
            raise AnalysisBroken('C7c: %s no longer has parameters y and n' % name)
        problems = []
        unknown = []
        assigned = set()
        nterms = [0]

        def check_terms(terms, what, node, d_store=None):
            if terms is None:
                unknown.append((node, 'the %s `%s` is not a union of shifted row words / values / all-ones masks' % (what, pp(node)[:50])))
                return
            for t in terms:
                nterms[0] += 1
                if mode == 'read':
                    if t.src != 'row':
                        problems.append((node, 'the result contains a term that is not a word of the row'))
                    elif not (t.off == SPOT - Lin(64 * t.d)):
                        problems.append((node, 'word block%+d of the row enters the result with offset %r, expected %r (result bit i must carry column y + i)' % (t.d, t.off, SPOT - Lin(64 * t.d))))
                elif mode == 'xor':
                    if t.src != 'values':
                        problems.append((node, 'something other than `values` is XOR-ed into the row'))
                    elif not (t.off == Lin(64 * d_store) - SPOT):
                        problems.append((node, '`values` enters word block%+d with offset %r, expected %r (word bit j must carry value bit j + 64*d - spot)' % (d_store, t.off, Lin(64 * d_store) - SPOT)))
                elif mode == 'clear':
                    if t.src != 'ones' or not t.neg or t.lo is None:
                        problems.append((node, 'word block%+d is AND-ed with something that is not the complement of a mask built from m4ri_ffff' % d_store))
                    else:
                        wl, wh = SPOT - Lin(64 * d_store), SPOT + N - Lin(64 * d_store)
                        # the mask built from m4ri_ffff >> (64 - n) has extent [0, n) shifted; compare both ends
                        if not (_clip_lo(t.lo) == _clip_lo(wl) and t.hi == wh):
                            problems.append((node, 'the bits cleared in word block%+d are [%r, %r), the addressed entries are [%r, %r)' % (d_store, t.lo, t.hi, wl, wh)))

        def stmt(s):
            k = s.kind
            if k == 'CompoundStmt':
                for c in s.kids:
                    stmt(c)
                return
            if k == 'DeclStmt':
                for v in s.kids:
                    if v.kind != 'VarDecl' or not v.kids or not v.init:
                        continue
                    init = v.kids[-1]
                    t = (v.type or '').replace('const', '').strip()
                    i0 = strip(init, casts=True)
                    if i0.kind == 'CallExpr' and callee_name(i0) in ('mzd_row', 'mzd_row_const'):
                        B.rowvar = v.id
                        continue
                    if t in ('int', 'wi_t', 'rci_t'):
                        if i0.kind == 'BinaryOperator' and i0.op == '/' and strip(i0.kids[0], casts=True).kind == 'DeclRefExpr' and strip(i0.kids[0], casts=True).refid == B.ypar[0].id:
                            B.blockvar = v.id
                            continue
                        l = B.lin(init)
                        if l is not None:
                            B.env[v.id] = l
                        continue
                    if t in ('word',) and not (v.kids and v.init):
                        continue
                    if t in ('word',):
                        if i0.kind == 'ConditionalOperator':
                            a, b = B.word(i0.kids[1]), B.word(i0.kids[2])
                            B.env[v.id] = None if a is None or b is None else a + b
                        else:
                            B.env[v.id] = B.word(init)
                        if B.env[v.id] is None:
                            unknown.append((v, '`%s` is not understood' % pp(v)[:60]))
                            B.env[v.id] = []
                return
            if k == 'IfStmt':
                stmt(s.kids[1])
                if len(s.kids) > 2:
                    stmt(s.kids[2])
                return
            if k == 'ReturnStmt':
                if mode == 'read' and s.kids:
                    check_terms(B.word(s.kids[0]), 'result', s.kids[0])
                return
            e = strip(s)
            if e is None:
                return
            if e.kind == 'CompoundAssignOperator' and e.op in ('^=', '&=', '|=', '>>=', '<<='):
                l = strip(e.kids[0], casts=True)
                if l.kind == 'ArraySubscriptExpr':
                    lw = B.word(l)
                    if lw is None or len(lw) != 1:
                        problems.append((e, 'store target `%s` is not row[block + d]' % pp(l)))
                        return
                    d = lw[0].d
                    if mode == 'xor' and e.op == '^=':
                        check_terms(B.word(e.kids[1]), 'operand', e, d)
                    elif mode == 'clear' and e.op == '&=':
                        check_terms(B.word(e.kids[1]), 'mask', e, d)
                    else:
                        problems.append((e, 'unexpected update `%s` of the row in a %s primitive' % (pp(e)[:50], mode)))
                elif l.kind == 'DeclRefExpr' and l.refid in B.env and isinstance(B.env[l.refid], list) and e.op in ('>>=', '<<='):
                    sft = B.lin(e.kids[1])
                    if sft is None:
                        unknown.append((e, 'shift `%s` not understood' % pp(e)[:40]))
                    else:
                        B.env[l.refid] = [t.shifted(sft, e.op == '<<=') for t in B.env[l.refid]]
                return
            if e.kind == 'BinaryOperator' and e.op == '=':
                l = strip(e.kids[0], casts=True)
                if l.kind == 'ArraySubscriptExpr':
                    problems.append((e, 'plain store `%s` into the row of a bit-range primitive' % pp(e)[:50]))
                elif l.kind == 'DeclRefExpr' and (l.type or '').replace('const', '').strip() == 'word':
                    # a word local assigned on several branches carries the union of the branch values
                    w = B.word(e.kids[1])
                    if w is None:
                        unknown.append((e, '`%s` is not understood' % pp(e)[:60]))
                    else:
                        prev = B.env.get(l.refid)
                        B.env[l.refid] = (prev if isinstance(prev, list) and l.refid in assigned else []) + w
                        assigned.add(l.refid)
                elif l.kind == 'DeclRefExpr' and (l.type or '').replace('const', '').strip() in ('int', 'wi_t', 'rci_t'):
                    v = B.lin(e.kids[1])
                    if v is not None and l.refid not in B.env:
                        B.env[l.refid] = v
                    elif v is None or not (B.env.get(l.refid) == v):
                        unknown.append((e, 'integer local `%s` reassigned' % l.ref))
                return
            if e.kind == 'CallExpr' and callee_name(e) in ('__assert_fail',):
                return
        stmt(f.body)
        rr.instances += 1
        if unknown and not problems:
            raise AnalysisBroken('C7c: %s uses a form the shift-offset typing does not model: %s' % (name, unknown[0][1]))
        if nterms[0] == 0 and not problems:
            raise AnalysisBroken('C7c: no term of %s was typed' % name)
        rr.ob(not problems, dict(function=name, mode=mode, terms=nterms[0]),
              Finding(rule, '%s|%s' % (rule, name), (problems[0][0].loc if problems else f.loc), name,
                      '%s does not address exactly the entries [y, y+n): %s' % (name, '; '.join(p[1] for p in problems[:2])), {}, label))
    return rr
