"""Engine B: hand-unrolled families.  A family is an ordered set of sibling fragments indexed by an
integer (case label, position in a run of same-shaped statements).  B1: all members share one skeleton
and every integer literal position / numeric callee suffix is an affine function of the index.
B2: Duff's devices.  B6: dispatch switches call the matching instantiation."""
import json
import os
import re

from .ast import strip, callee_name, pp, int_value
from .driver import RuleResult, Finding
from .frontend import AnalysisBroken, VERIF

_SUFFIX = re.compile(r'^(.*?)(\d+)$')


def skeleton(n, holes, depth=0):
    """Token tuple of the AST with integer literals (and numeric suffixes of referenced function names)
    replaced by holes; parens and implicit casts dropped."""
    if n is None:
        return ('~',)
    k = n.kind
    if k in ('ImplicitCastExpr', 'ParenExpr', 'ConstantExpr'):
        return skeleton(n.kids[0], holes, depth + 1) if n.kids else ('~',)
    v = None
    if k in ('IntegerLiteral',):
        v = int_value(n)
    elif k in ('BinaryOperator', 'UnaryOperator') :
        v = int_value(n) if _all_literals(n) else None
    if v is not None:
        holes.append(v)
        return ('#',)
    if k == 'DeclRefExpr':
        if n.refkind == 'FunctionDecl':
            m = _SUFFIX.match(n.ref or '')
            if m:
                holes.append(int(m.group(2)))
                return ('fn:' + m.group(1) + '#',)
            return ('fn:' + (n.ref or ''),)
        if n.ref == 'm4ri_radix':
            holes.append(64)
            return ('#',)
        return ('v:' + (n.ref or ''),)
    if k == 'MemberExpr':
        return ('.' + (n.name or ''),) + skeleton(n.kids[0], holes, depth + 1)
    # n-ary chains  a ^ b ^ c ...  (and the right-hand side of assignments) become one CHAIN token whose
    # elements are compared position-wise; the chain length may grow with the member index
    if k == 'BinaryOperator' and n.op in _CHAIN_OPS:
        elems = _flatten(n, n.op)
        return _chain(elems, n.op, holes, depth)
    if k in ('CompoundAssignOperator',) or (k == 'BinaryOperator' and n.op == '='):
        rhs = strip(n.kids[1])
        if rhs is not None and not (rhs.kind == 'BinaryOperator' and rhs.op in _CHAIN_OPS) and rhs.kind not in ('IntegerLiteral',) and int_value(rhs) is None:
            return (k + ':' + n.op, '(') + skeleton(n.kids[0], holes, depth + 1) + _chain([rhs], '?', holes, depth) + (')',)
    head = k
    if n.op:
        head += ':' + n.op
    if k == 'CStyleCastExpr':
        head += ':' + (n.type or '')
    out = (head, '(')
    for c in n.kids:
        out += skeleton(c, holes, depth + 1)
    return out + (')',)


_CHAIN_OPS = ('^', '|', '+')


def _flatten(n, op):
    n = strip(n)
    if n.kind == 'BinaryOperator' and n.op == op:
        return _flatten(n.kids[0], op) + _flatten(n.kids[1], op)
    return [n]


def _chain(elems, op, holes, depth):
    sub = []
    esk = None
    same = True
    for e in elems:
        h = []
        t = skeleton(e, h, depth + 1)
        if esk is None:
            esk = t
        elif t != esk:
            same = False
        sub.append(h)
    if not same:
        # heterogeneous operands: not a family chain, fall back to plain structure
        out = ('BinaryOperator:' + op, '(')
        for e in elems:
            out += skeleton(e, holes, depth + 1)
        return out + (')',)
    holes.append(('C', op, sub))
    return ('CHAIN', '(') + esk + (')',)


def _all_literals(n):
    for x in n.walk():
        if x.kind in ('DeclRefExpr', 'CallExpr', 'MemberExpr', 'ArraySubscriptExpr'):
            return False
    return True


def _expand_const_local(f, e, depth=0):
    """a discriminator kept in a local that is initialised once and never modified stands for its initialiser"""
    e0 = strip(e, casts=True)
    if e0 is None or e0.kind != 'DeclRefExpr' or e0.refkind != 'VarDecl' or depth > 3:
        return e
    decl = None
    for n in f.body.walk():
        if n.kind == 'VarDecl' and n.id == e0.refid:
            decl = n
        elif (n.kind == 'BinaryOperator' and n.op == '=') or n.kind == 'CompoundAssignOperator' or (n.kind == 'UnaryOperator' and n.op in ('++', '--', '&')):
            t = strip(n.kids[0])
            if t.kind == 'DeclRefExpr' and t.refid == e0.refid:
                return e
    if decl is None or not decl.kids or not decl.init:
        return e
    return _expand_const_local(f, decl.kids[-1], depth + 1)


def neutral_disc(node, limit=60):
    """pretty-printed discriminator with the names of locals and parameters replaced by $1, $2, ... in order of first
    appearance: the family key survives a consistent renaming of variables"""
    import re
    names = []
    for x in node.walk():
        if x.kind == 'DeclRefExpr' and x.refkind in ('VarDecl', 'ParmVarDecl') and x.ref and x.ref not in names and x.ref != 'm4ri_radix':
            names.append(x.ref)
    t = pp(node)
    for i, nme in enumerate(names):
        t = re.sub(r'(?<![A-Za-z0-9_>.])%s(?![A-Za-z0-9_])' % re.escape(nme), '$%d' % (i + 1), t)
    return t[:limit]


class Family(object):
    def __init__(self, func, kind, anchor, members, disc=None, ndisc=None):
        self.func, self.kind, self.anchor, self.members, self.disc = func, kind, anchor, members, disc
        self.ndisc = ndisc if ndisc is not None else disc
        # members: list of (index, [stmt nodes])

    def key(self):
        return '%s|%s|%s|%d' % (self.func.name, self.kind, self.disc or '', len(self.members))

    def check(self):
        """Returns list of problems: (member index, text)."""
        probs = []
        sk = []
        for idx, stmts in self.members:
            holes = []
            toks = ()
            for s in stmts:
                toks += skeleton(s, holes) + (';',)
            sk.append((idx, toks, holes, stmts))
        if len(sk) < 3:
            return [(None, 'family has fewer than 3 members')]
        # majority skeleton
        from collections import Counter
        cnt = Counter(t for (_i, t, _h, _s) in sk)
        major, nmaj = cnt.most_common(1)[0]
        good = [(i, h, s) for (i, t, h, s) in sk if t == major]
        for (i, t, h, s) in sk:
            if t != major:
                probs.append((i, 'member %s has a different shape from its %d siblings: `%s`' % (i, nmaj, '; '.join(pp(x)[:70] for x in s)[:160])))
        if len(good) < 3:
            return probs
        nh = len(good[0][1])
        for hp in range(nh):
            if isinstance(good[0][1][hp], tuple):
                probs += self._check_chain(hp, good)
                continue
            if any(isinstance(h[hp], tuple) for (_i, h, _s) in good):
                continue
            # fit v = a*i + b on two members with distinct index, verify all
            (i0, h0, _s0), (i1, h1, _s1) = good[0], good[1]
            if i1 == i0:
                continue
            da = h1[hp] - h0[hp]
            di = i1 - i0
            if da % di != 0:
                a = None
            else:
                a = da // di
            # robust fit: choose the (a, b) agreed by most pairs
            fits = Counter()
            for x in range(len(good) - 1):
                (ia, ha, _), (ib, hb, _) = good[x], good[x + 1]
                if ib != ia and (hb[hp] - ha[hp]) % (ib - ia) == 0:
                    aa = (hb[hp] - ha[hp]) // (ib - ia)
                    fits[(aa, ha[hp] - aa * ia)] += 1
            if not fits:
                continue
            (a, b), _n = fits.most_common(1)[0]
            for (i, h, s) in good:
                if h[hp] != a * i + b:
                    probs.append((i, 'member %s: literal #%d is %d, its siblings follow %d*index%+d (expected %d): `%s`' % (
                        i, hp, h[hp], a, b, a * i + b, '; '.join(pp(x)[:80] for x in s)[:200])))
        return probs


def _chain_check(self, hp, good):
    """chain hole: length affine in the member index; element holes affine in (member index, position)."""
    probs = []
    from collections import Counter
    lens = [(i, len(h[hp][2])) for (i, h, _s) in good]
    fits = Counter()
    for x in range(len(lens) - 1):
        (ia, la), (ib, lb) = lens[x], lens[x + 1]
        if ib != ia and (lb - la) % (ib - ia) == 0:
            a = (lb - la) // (ib - ia)
            fits[(a, la - a * ia)] += 1
    if fits:
        (a, b), _n = fits.most_common(1)[0]
        for (i, l) in lens:
            if l != a * i + b:
                probs.append((i, 'member %s: chain has %d operands, its siblings follow %d*index%+d (expected %d)' % (i, l, a, b, a * i + b)))
    ops = Counter(h[hp][1] for (_i, h, _s) in good if len(h[hp][2]) > 1)
    if ops:
        op0 = ops.most_common(1)[0][0]
        for (i, h, s) in good:
            if len(h[hp][2]) > 1 and h[hp][1] != op0:
                probs.append((i, 'member %s: chain operator `%s` differs from the `%s` of its siblings' % (i, h[hp][1], op0)))
    # element holes: v = a*i + b*j + c, least-squares-free: fit from differences, vote
    nin = max((len(e) for (_i, h, _s) in good for e in h[hp][2]), default=0)
    for q in range(nin):
        pts = []
        for (i, h, s) in good:
            for j, e in enumerate(h[hp][2]):
                if q < len(e) and isinstance(e[q], int):
                    pts.append((i, j, e[q], s))
        if len(pts) < 3:
            continue
        votes = Counter()
        byi = {}
        for (i, j, v, s) in pts:
            byi.setdefault(i, {})[j] = v
        for i, d in byi.items():
            for j in d:
                if j + 1 in d:
                    votes[('b', d[j + 1] - d[j])] += 1
        for i in byi:
            for i2 in byi:
                if i2 > i:
                    for j in byi[i]:
                        if j in byi[i2] and (byi[i2][j] - byi[i][j]) % (i2 - i) == 0:
                            votes[('a', (byi[i2][j] - byi[i][j]) // (i2 - i))] += 1
        bv = [k for k in votes if k[0] == 'b']
        av = [k for k in votes if k[0] == 'a']
        b_ = max(bv, key=lambda k: votes[k])[1] if bv else 0
        a_ = max(av, key=lambda k: votes[k])[1] if av else 0
        cs = Counter(v - a_ * i - b_ * j for (i, j, v, s) in pts)
        c_ = cs.most_common(1)[0][0]
        for (i, j, v, s) in pts:
            if v != a_ * i + b_ * j + c_:
                probs.append((i, 'member %s: operand %d of the chain has literal %d, the family follows %d*index%+d*position%+d (expected %d): `%s`' % (
                    i, j, v, a_, b_, c_, a_ * i + b_ * j + c_, '; '.join(pp(x)[:90] for x in s)[:200])))
    return probs


Family._check_chain = _chain_check


def switch_families(f):
    out = []
    for sw in f.body.find('SwitchStmt'):
        body = sw.kids[-1]
        if body.kind != 'CompoundStmt':
            continue
        members = []
        cur = None
        stmts = []

        def flush():
            if cur is not None:
                members.append((cur, list(stmts)))
        # flatten: case statements nest their first sub-statement; later ones are siblings
        seq = []
        for s in body.kids:
            seq.append(s)
        ok = True
        for s in seq:
            x = s
            first = True
            while x.kind in ('CaseStmt', 'DefaultStmt'):
                if cur is not None or stmts:
                    flush()
                stmts = []
                cur = int_value(x.kids[0]) if x.kind == 'CaseStmt' else 'default'
                x = x.kids[-1]
            if cur is None:
                ok = False
                break
            if x.kind == 'DoStmt':
                # Duff: the do-body holds the remaining cases
                dbody = x.kids[0]
                if dbody.kind == 'CompoundStmt':
                    for y in dbody.kids:
                        z = y
                        while z.kind in ('CaseStmt', 'DefaultStmt'):
                            flush()
                            stmts = []
                            cur = int_value(z.kids[0]) if z.kind == 'CaseStmt' else 'default'
                            z = z.kids[-1]
                        if z.kind not in ('BreakStmt', 'NullStmt'):
                            stmts.append(z)
                continue
            if x.kind in ('BreakStmt', 'NullStmt'):
                continue
            stmts.append(x)
        flush()
        if not ok:
            continue
        mem = [(i, s) for (i, s) in members if isinstance(i, int) and s]
        dc = _modulus_disc(f, sw)
        if dc is not None:
            M = int_value(dc.kids[1])
            mem = [((M if i == 0 else i), s) for (i, s) in mem]
            mem.sort(key=lambda x: -x[0])
        # calls to m4ri_die in default are not members
        if len(mem) >= 3:
            sel = _expand_const_local(f, sw.kids[-2])
            out.append(Family(f, 'switch', sw, mem, disc=pp(sw.kids[-2])[:60], ndisc=neutral_disc(sel, 60)))
    return out


_fs_cache = {}


def _modulus_disc(f, sw):
    """`switch (w % M)` directly or through a single-definition local; returns the `%` node or None."""
    from .symbolic import FuncSym
    dc = strip(sw.kids[-2], casts=True)
    if dc is not None and dc.kind == 'DeclRefExpr':
        fs = _fs_cache.get(id(f))
        if fs is None:
            fs = _fs_cache[id(f)] = FuncSym(f)
        d = fs.single_def(dc.refid)
        if d is not None:
            dc = strip(d, casts=True)
    if dc is not None and dc.kind == 'BinaryOperator' and dc.op == '%' and int_value(dc.kids[1]):
        return dc
    return None


def run_families(f, minlen=8):
    """Maximal runs of >= minlen consecutive statements with identical skeleton in one compound statement."""
    out = []
    for comp in f.body.find('CompoundStmt'):
        run = []
        prev = None

        def close():
            if len(run) >= minlen:
                out.append(Family(f, 'run', run[0], [(i, [s]) for i, s in enumerate(run)], disc=pp(run[0])[:50], ndisc=neutral_disc(run[0], 50)))
        for s in comp.kids:
            if s.kind in ('CaseStmt', 'DefaultStmt', 'DeclStmt', 'IfStmt', 'ForStmt', 'WhileStmt', 'DoStmt', 'SwitchStmt', 'BreakStmt', 'ReturnStmt', 'CompoundStmt'):
                close()
                run = []
                prev = None
                continue
            h = []
            t = skeleton(s, h)
            if prev is not None and t == prev:
                run.append(s)
            else:
                close()
                run = [s]
                prev = t
        close()
    return out


def discover(prog):
    fams = []
    for f in sorted(prog.all_funcs(), key=lambda f: (f.file, f.line)):
        fams += switch_families(f)
        fams += run_families(f)
    return fams


def rule_B1(ctx, prog, label, only_funcs=None, rule='B1'):
    rr = RuleResult(rule, 'unrolled families: members share one skeleton and every literal / callee suffix is affine in the member index')
    table = json.load(open(os.path.join(VERIF, 'rules', 'families.json')))
    frozen = table['families']
    fams = discover(prog)
    byfunc = {}
    for fm in fams:
        byfunc.setdefault(fm.func.name, []).append(fm)
    seen_frozen = set()
    bykey = dict((e['key'], e) for e in frozen)
    ordn = {}
    for fm in fams:
        k0 = (fm.func.name, fm.kind, fm.ndisc)
        ordn[k0] = ordn.get(k0, 0) + 1
        if only_funcs is not None and fm.func.name not in only_funcs:
            continue
        ent = bykey.get('%s|%s|%s|#%d' % (fm.func.name, fm.kind, fm.ndisc, ordn[k0]))
        if ent is None:
            continue          # auto-discovered, not armed (information only)
        seen_frozen.add(ent['key'])
        rr.instances += 1
        if len(fm.members) < ent['members']:
            rr.ob(False, None, Finding(rule, '%s|%s|shrunk' % (rule, ent['key']), fm.anchor.loc, fm.func.name,
                                       'family `%s` in %s has %d members, %d were confirmed' % (fm.disc, fm.func.name, len(fm.members), ent['members']), {}, label))
            continue
        probs = fm.check()
        probs = [p for p in probs if p[0] not in ent.get('deviant_members', [])]
        if probs:
            for (i, txt) in probs[:3]:
                rr.ob(False, None, Finding(rule, '%s|%s|member=%s' % (rule, ent['key'], i), fm.anchor.loc, fm.func.name,
                                           'unrolled family `%s` in %s: %s' % (fm.disc, fm.func.name, txt), {}, label))
        else:
            rr.ob(True, dict(function=fm.func.name, kind=fm.kind, discriminator=fm.disc, members=len(fm.members)))
    used = set()
    for e in frozen:
        if e['key'] not in seen_frozen and (only_funcs is None or e['function'] in only_funcs):
            if e['function'] in prog.funcs or not e.get('optional_function'):
                if e.get('configs') and not _cfg_match(prog.cfg, e['configs']):
                    continue
                # the discriminator text changed (e.g. `row[8*j + 0]` became `(row + 8*j)[0]`): accept the one discovered family of
                # the same function, kind and size that no frozen entry claims, and check it
                cands = [fm for fm in byfunc.get(e['function'], []) if fm.kind == e['kind'] and len(fm.members) == e['members'] and id(fm) not in used
                         and ('%s|%s|%s' % (fm.func.name, fm.kind, fm.ndisc)) not in [k.rsplit('|#', 1)[0] for k in seen_frozen]]
                if len(cands) == 1:
                    fm = cands[0]
                    used.add(id(fm))
                    rr.instances += 1
                    probs = [p_ for p_ in fm.check() if p_[0] not in e.get('deviant_members', [])]
                    if probs:
                        for (i, txt) in probs[:3]:
                            rr.ob(False, None, Finding(rule, '%s|%s|member=%s' % (rule, e['key'], i), fm.anchor.loc, fm.func.name,
                                                       'unrolled family `%s` in %s: %s' % (fm.disc, fm.func.name, txt), {}, label))
                    else:
                        rr.ob(True, dict(function=fm.func.name, kind=fm.kind, discriminator=fm.disc, members=len(fm.members), matched='by function, kind and size'))
                    continue
                raise AnalysisBroken('B1: frozen family %s not found any more (anchor vanished)' % e['key'])
    return rr


def _cfg_match(cfg, cond):
    return all(cfg.get(k) == v for k, v in cond.items())


def rule_B2(ctx, prog, label, only_funcs=None, rule='B2'):
    """Duff's devices: `switch (w % M)` has exactly the labels {0, M-1 .. 1}, one unit statement each, inside
    `do { } while (--n > 0)` with n = (w + M - 1) / M."""
    from .symbolic import FuncSym, Lin
    rr = RuleResult(rule, 'Duff devices: complete label set, one unit per label, trip count (w + M - 1) / M')
    for f in sorted(prog.all_funcs(), key=lambda f: (f.file, f.line)):
        if only_funcs is not None and f.name not in only_funcs:
            continue
        fs = None
        for sw in f.body.find('SwitchStmt'):
            dc = _modulus_disc(f, sw)
            if dc is None:
                continue
            dos = [d for d in sw.kids[-1].find('DoStmt')]
            if not dos:
                continue
            M = int_value(dc.kids[1])
            if fs is None:
                fs = FuncSym(f)
            rr.instances += 1
            labels = []
            units = {}
            cur = None
            for n in sw.kids[-1].walk():
                if n.kind == 'CaseStmt':
                    cur = int_value(n.kids[0])
                    labels.append(cur)
            fam = [fm for fm in switch_families(f) if fm.anchor is sw]
            per = dict((i, len(s)) for (i, s) in fam[0].members) if fam else {}
            problems = []
            if sorted(labels) != list(range(M)):
                problems.append('labels %s are not {0..%d}' % (sorted(labels), M - 1))
            if fam and any(v != list(per.values())[0] for v in per.values()):
                problems.append('members have different numbers of statements %s' % per)
            do = dos[0]
            cond = strip(do.kids[1], casts=True)
            okc = cond.kind == 'BinaryOperator' and cond.op == '>' and int_value(cond.kids[1]) == 0 and \
                strip(cond.kids[0]).kind == 'UnaryOperator' and strip(cond.kids[0]).op == '--' and not strip(cond.kids[0]).postfix
            if not okc:
                problems.append('loop condition `%s` is not `--n > 0`' % pp(cond))
            else:
                nv = strip(strip(cond.kids[0]).kids[0])
                w = fs.sym(dc.kids[0])
                d = fs.defs.get(nv.refid, [])
                want = '(%r)/(%d)' % (w + Lin(M - 1), M)
                got = [repr(fs.sym(x, 1)) for x in d]
                if want not in got:
                    problems.append('trip counter is %s, expected %s' % (got, want))
            rr.ob(not problems, dict(function=f.name, switch=pp(dc), M=M),
                  Finding(rule, '%s|%s|%s' % (rule, f.name, pp(dc)), sw.loc, f.name, 'Duff device on `%s`: %s' % (pp(dc), '; '.join(problems)), {}, label))
    rr.require_floor(8 if only_funcs is None else 1, "Duff's devices")
    return rr


def rule_B3(ctx, prog, label, rule='B3'):
    """Operand sets of the non-fall-through `switch (N)` members of _mzd_combine_N: case K reads exactly the
    table indices {0 .. K-1}, each once."""
    rr = RuleResult(rule, 'in case K of the N-table combine kernels exactly the tables 0..K-1 are read, once each')
    for f in sorted(prog.all_funcs(), key=lambda f: (f.file, f.line)):
        if not re.match(r'^_mzd_combine_\d$', f.name):
            continue
        for sw in f.body.find('SwitchStmt'):
            fam = [fm for fm in switch_families(f) if fm.anchor is sw]
            if not fam:
                continue
            fm = fam[0]
            # non-fall-through: the case body ends with break  (detected by looking at the switch body siblings)
            body = sw.kids[-1]
            has_break = sum(1 for s in body.kids if s.kind == 'BreakStmt') + sum(1 for s in body.walk() if s.kind == 'BreakStmt')
            if has_break < len(fm.members) - 1:
                continue
            for (K, stmts) in fm.members:
                idx = []
                for s in stmts:
                    for n in s.walk():
                        if n.kind == 'ArraySubscriptExpr':
                            b = strip(n.kids[0], casts=True)
                            if b.kind == 'DeclRefExpr' and b.ref in ('t', 't__'):
                                v = int_value(n.kids[1])
                                if v is not None:
                                    idx.append(v)
                rr.instances += 1
                ok = sorted(idx) == list(range(K))
                rr.ob(ok, dict(function=f.name, case=K, tables_read=sorted(idx)) if K in (2, 8) else None,
                      Finding(rule, '%s|%s|case=%s' % (rule, f.name, K), stmts[0].loc, f.name,
                              'case %s of %s reads tables %s, expected each of 0..%d exactly once' % (K, f.name, sorted(idx), K - 1), {}, label))
    rr.require_floor(40, 'combine kernel members')
    return rr


def rule_B7(ctx, prog, label, rule='B7'):
    """m4ri_swap_bits: butterfly stages ((v >> s) & M) | ((v & M) << s) with M the period-2s mask with the low s
    bits set, s = 1,2,4,8,16, then a 32-bit rotate: this composition is bit reversal."""
    rr = RuleResult(rule, 'word bit reversal: every butterfly stage swaps adjacent s-bit groups with the matching period mask')
    f = prog.func('m4ri_swap_bits')
    stages = []
    for n in f.body.walk():
        if n.kind == 'BinaryOperator' and n.op == '=':
            r = strip(n.kids[1], casts=True)
            if r.kind == 'BinaryOperator' and r.op == '|':
                stages.append(r)
    want_s = [1, 2, 4, 8, 16, 32]
    rr.instances = len(want_s)
    if len(stages) != 6:
        rr.ob(False, None, Finding(rule, '%s|stages' % rule, f.loc, f.name, 'm4ri_swap_bits has %d stages, 6 expected' % len(stages), {}, label))
        return rr
    for s, st in zip(want_s, stages):
        a, b = strip(st.kids[0], casts=True), strip(st.kids[1], casts=True)
        ok = False
        detail = pp(st)
        def parts(x):
            # returns (dir, shift, mask)  for (v >> s) & M | (v & M) << s | v >> s | v << s
            x = strip(x, casts=True)
            if x.kind == 'BinaryOperator' and x.op == '&':
                l, r_ = strip(x.kids[0], casts=True), x.kids[1]
                if l.kind == 'BinaryOperator' and l.op in ('>>', '<<'):
                    return l.op, int_value(l.kids[1]), int_value(r_)
            if x.kind == 'BinaryOperator' and x.op in ('>>', '<<'):
                l = strip(x.kids[0], casts=True)
                if l.kind == 'BinaryOperator' and l.op == '&':
                    return x.op, int_value(x.kids[1]), int_value(l.kids[1])
                return x.op, int_value(x.kids[1]), None
            return None
        pa, pb = parts(a), parts(b)
        if pa and pb and {pa[0], pb[0]} == {'>>', '<<'} and pa[1] == s and pb[1] == s:
            if s == 32:
                ok = pa[2] is None and pb[2] is None
            else:
                M = 0
                for i in range(64):
                    if (i // s) % 2 == 0:
                        M |= 1 << i
                ok = pa[2] == M and pb[2] == M
        rr.ob(ok, dict(stage=s, expression=detail[:90]),
              Finding(rule, '%s|stage=%d' % (rule, s), st.loc, f.name, 'stage %d of m4ri_swap_bits is not the swap of adjacent %d-bit groups: `%s`' % (s, s, detail[:100]), {}, label))
    return rr


# ====================================================================== B5 split agreement

class IntEval(object):
    """Constant folding of integer expressions under a binding of some variables (single-definition locals are
    followed); used to compare two formulas over a finite range without running any library code."""

    def __init__(self, fs, binding):
        self.fs, self.b = fs, binding

    def ev(self, e, depth=0):
        e = strip(e, casts=True)
        if e is None or depth > 20:
            return None
        v = int_value(e)
        if v is not None:
            return v
        k = e.kind
        if k == 'DeclRefExpr':
            if e.refid in self.b:
                return self.b[e.refid]
            d = self.fs.single_def(e.refid)
            if d is not None:
                return self.ev(d, depth + 1)
            return None
        if k == 'BinaryOperator':
            a, b = self.ev(e.kids[0], depth + 1), self.ev(e.kids[1], depth + 1)
            if a is None or b is None:
                return None
            try:
                return {'+': a + b, '-': a - b, '*': a * b, '/': int(a / b) if b else None, '%': a - b * int(a / b) if b else None,
                        '<': int(a < b), '>': int(a > b), '<=': int(a <= b), '>=': int(a >= b), '==': int(a == b), '!=': int(a != b),
                        '&&': int(bool(a) and bool(b)), '||': int(bool(a) or bool(b)), '<<': a << b, '>>': a >> b, '&': a & b, '|': a | b}.get(e.op)
            except Exception:
                return None
        if k == 'ConditionalOperator':
            c = self.ev(e.kids[0], depth + 1)
            if c is None:
                return None
            return self.ev(e.kids[1] if c else e.kids[2], depth + 1)
        if k == 'UnaryOperator' and e.op in ('-', '!'):
            a = self.ev(e.kids[0], depth + 1)
            return None if a is None else (-a if e.op == '-' else int(not a))
        return None


def _consumer_split(f):
    """For mzd_process_rowsN: the width expression of table j, j = 0..N-1, as AST nodes (in table order):
    x_j = L_j[bits & mask_j];  mask_j = LEFT_BITMASK(w_j)."""
    from .symbolic import FuncSym
    fs = FuncSym(f)
    tabs = [p for p in f.params if p.name.startswith('L') and p.name[1:].isdigit()]
    out = []
    for lp in sorted(tabs, key=lambda p: int(p.name[1:])):
        w = None
        for n in f.body.walk():
            if n.kind == 'ArraySubscriptExpr':
                b = strip(n.kids[0], casts=True)
                if b.kind == 'DeclRefExpr' and b.refid == lp.id:
                    idx = strip(n.kids[1], casts=True)
                    if idx.kind == 'BinaryOperator' and idx.op == '&':
                        for m in idx.kids:
                            m = strip(m, casts=True)
                            if m.kind == 'DeclRefExpr':
                                d = fs.single_def(m.refid)
                                # mask = m4ri_ffff >> (64 - (w)) % 64
                                if d is not None:
                                    for x in d.walk():
                                        if x.kind == 'DeclRefExpr' and x.refkind == 'VarDecl' and x.ref not in ('m4ri_ffff', 'm4ri_radix'):
                                            w = x
                                            break
        out.append(w)
    return fs, out


def rule_B5(ctx, prog, label, rule='B5'):
    """Builder/consumer agreement of the table split: for every call of mzd_process_rowsN(.., k = KB, T0, L0, ..) the
    j-th table was built by mzd_make_table(A, r + w_0 + .. + w_(j-1), c, w_j, T_j, L_j) where w_j, evaluated for every
    K in 1..64, equals the width the consumer derives for table j from its parameter k."""
    from .symbolic import FuncSym
    rr = RuleResult(rule, 'the table widths used when building T_j agree, for every k in 1..64, with the widths mzd_process_rowsN derives; row offsets are the prefix sums')
    consumers = {}
    for N in range(2, 7):
        name = 'mzd_process_rows%d' % N
        if name in prog.funcs:
            consumers[name] = (N,) + _consumer_split(prog.funcs[name])
    if len(consumers) < 5:
        raise AnalysisBroken('B5: expected mzd_process_rows2..6')
    for f in sorted(prog.all_funcs(), key=lambda f: (f.file, f.line)):
        calls = [c for c in f.body.find('CallExpr') if callee_name(c) in consumers]
        if not calls:
            continue
        fs = FuncSym(f)
        fs0 = FuncSym(f, max_depth=0)
        for c in calls:
            N, cfs, cw = consumers[callee_name(c)]
            callee = prog.funcs[callee_name(c)]
            kparam = [p for p in callee.params if p.name == 'k'][0]
            kidx = callee.params.index(kparam)
            karg = strip(c.kids[1 + kidx], casts=True)
            if karg.kind != 'DeclRefExpr':
                continue
            # builders in the same block
            blk = fs.enclosing(c, ('CompoundStmt',))
            builders = {}
            p_ = blk
            while p_ is not None and not builders:
                for b in p_.find('CallExpr'):
                    if callee_name(b) == 'mzd_make_table' and len(b.kids) >= 7:
                        t = strip(b.kids[5], casts=True)
                        if t.kind in ('DeclRefExpr', 'ArraySubscriptExpr'):
                            builders.setdefault(pp(t), b)
                if builders:
                    break
                p_ = fs.enclosing(p_, ('CompoundStmt',))
            tparams = [p for p in callee.params if p.name.startswith('T') and p.name[1:].isdigit()]
            tparams.sort(key=lambda p: int(p.name[1:]))
            widths = []
            for j, tp in enumerate(tparams):
                rr.instances += 1
                targ = strip(c.kids[1 + callee.params.index(tp)], casts=True)
                b = builders.get(pp(targ)) if targ.kind in ('DeclRefExpr', 'ArraySubscriptExpr') else None
                if b is None:
                    rr.ob(False, None, Finding(rule, '%s|%s|%s|T%d|nobuilder' % (rule, f.name, callee.name, j), c.loc, f.name,
                                               'no mzd_make_table call for table argument `%s` of %s in the same block' % (pp(targ), callee.name), {}, label))
                    continue
                wj = b.kids[4]
                widths.append(strip(wj, casts=True))
                bad = None
                for K in range(1, 65):
                    a = IntEval(fs, {karg.refid: K}).ev(wj)
                    z = IntEval(cfs, {kparam.id: K}).ev(cw[j]) if cw[j] is not None else None
                    if a is None or z is None:
                        bad = ('?', K, a, z)
                        break
                    if a != z:
                        bad = ('!=', K, a, z)
                        break
                ok = bad is None
                # row offset = first builder's row + sum of earlier widths
                if ok and j > 0:
                    row = fs0.sym(b.kids[2])
                    first = builders.get(pp(strip(c.kids[1 + callee.params.index(tparams[0])], casts=True)))
                    base = fs0.sym(first.kids[2]) if first is not None else None
                    want = base
                    for w_ in widths[:j]:
                        want = want + fs0.sym(w_) if want is not None else None
                    if want is None or row != want:
                        ok = False
                        bad = ('row', None, repr(row), repr(want))
                rr.ob(ok, dict(caller=f.name, consumer=callee.name, table=j, width=pp(wj)) if j == 0 else None,
                      Finding(rule, '%s|%s|%s|T%d' % (rule, f.name, callee.name, j), b.loc, f.name,
                              ('table %d for %s is built over %s bits but the consumer reads %s bits of the pattern for k = %s (`%s` in %s vs `%s` in %s)' % (
                                  j, callee.name, bad[2], bad[3], bad[1], pp(wj), f.name, pp(cw[j]) if cw[j] is not None else '?', callee.name))
                              if bad and bad[0] in ('!=', '?') else
                              ('table %d for %s starts at row `%s`, expected the prefix sum `%s`' % (j, callee.name, bad[2], bad[3]) if bad else ''), {}, label))
    rr.require_floor(40, 'table/width pairs')
    return rr


COUNT_GUARDED = ['_mzd_ple_a11_1'] + ['_mzd_ple_a11_%d' % i for i in range(2, 9)] + ['mzd_combine_even_in_place', 'mzd_combine_even']


def rule_B2c(ctx, prog, label, rule='B2c'):
    """Unrolled kernels execute a full unit even for a zero count (Duff devices run their body once, the scalar
    _mzd_combine xors eight words): the functions that may see a zero word count guard the kernel with a test of the
    count against zero.  The guarded sites were confirmed on the pinned tree; each guard must still dominate its kernel."""
    from .cfg import cfg_of
    from .symbolic import FuncSym
    rr = RuleResult(rule, 'word-count guards (`if (wide <= 0) return` / `if (wide > 0)`) still dominate the unrolled kernels they protect')
    for name in COUNT_GUARDED:
        f = prog.func(name)
        fs = FuncSym(f)
        g = cfg_of(f)
        dom = g.dominators()
        kernels = []
        for c in f.body.find('CallExpr'):
            if callee_name(c) and callee_name(c).startswith('_mzd_combine') and len(c.kids) >= 4:
                w = strip(c.kids[3], casts=True)
                if w.kind == 'DeclRefExpr':
                    kernels.append((c, w.refid, w.ref))
        for sw in f.body.find('SwitchStmt'):
            dc = _modulus_disc(f, sw)
            if dc is not None and sw.kids[-1].find('DoStmt'):
                w = strip(dc.kids[0], casts=True)
                if w.kind == 'DeclRefExpr':
                    kernels.append((sw.kids[-2], w.refid, w.ref))
        if not kernels:
            raise AnalysisBroken('B2c: no unrolled kernel found in %s any more' % name)
        for (k, wid, wname) in kernels:
            rr.instances += 1
            kn = None
            for cn in g.nodes:
                if cn.ast is not None and any(x is k for x in cn.ast.walk()):
                    kn = cn
            ok = False
            for cn in g.nodes:
                if cn.kind != 'branch' or kn is None or cn.id not in dom.get(kn.id, ()):
                    continue
                c = strip(cn.ast, casts=True)
                if c.kind == 'UnaryOperator' and c.op == '!':
                    x = strip(c.kids[0], casts=True)
                    if x.kind == 'DeclRefExpr' and x.refid == wid:
                        ok = True
                if c.kind == 'BinaryOperator' and c.op in ('<=', '>', '==', '!=', '<', '>='):
                    l, r = strip(c.kids[0], casts=True), c.kids[1]
                    if l.kind == 'DeclRefExpr' and l.refid == wid and int_value(r) in (0, 1):
                        ok = True
            rr.ob(ok, dict(function=name, counter=wname),
                  Finding(rule, '%s|%s|%s' % (rule, name, wname), k.loc, name,
                          'the unrolled kernel in %s is no longer guarded by a test of `%s` against zero: with a zero word count the scalar kernels still xor a full unit (8 words) past the row' % (name, wname), {}, label))
    return rr


# ---------------------------------------------------------------------------------------------- B8
PERIODIC_GROUPS = [
    # (function, first callee of the group, period, number of groups, reason)
    ('mzd_trtri_upper_russian', '_mzd_trtri_upper_submatrix', 3, 4,
     'table j of the in-place triangular inversion is built from the k x k diagonal block at r + j*k, into U[j] / T[j]'),
]


def rule_B8(ctx, prog, label, rule='B8'):
    """periodic call groups: consecutive groups of p calls (same callees) whose arguments, as linear forms, are affine in the
    group index (constant difference between consecutive groups) and whose constant array subscripts are affine too."""
    from .symbolic import FuncSym, Lin
    rr = RuleResult(rule, 'periodic call groups: every argument of group j equals the argument of group 0 plus j times one constant step (linear forms; array subscripts likewise)')
    for (fname, first, p, m, reason) in PERIODIC_GROUPS:
        f = prog.funcs.get(fname)
        if f is None or f.body is None:
            raise AnalysisBroken('B8: %s vanished' % fname)
        fs = FuncSym(f)
        found = False
        for cs in f.body.find('CompoundStmt'):
            seq = []
            for s in cs.kids:
                e = strip(s)
                seq.append(e if (e is not None and e.kind == 'CallExpr') else None)
            for i in range(len(seq)):
                if seq[i] is None or callee_name(seq[i]) != first:
                    continue
                if i > 0 and i >= p and seq[i - p] is not None and callee_name(seq[i - p]) == first:
                    continue     # not the first group
                # collect groups
                groups = []
                j = i
                names0 = None
                while j + p <= len(seq) and all(seq[j + t] is not None for t in range(p)):
                    names = [callee_name(seq[j + t]) for t in range(p)]
                    if names0 is None:
                        names0 = names
                    if names != names0:
                        break
                    groups.append([seq[j + t] for t in range(p)])
                    j += p
                if len(groups) < 2:
                    continue
                found = True
                rr.instances += 1
                probs = []
                if len(groups) != m:
                    probs.append('%d groups found, %d confirmed by reading' % (len(groups), m))

                def val(a):
                    a0 = strip(a, casts=True)
                    if a0.kind == 'ArraySubscriptExpr' and int_value(a0.kids[1]) is not None:
                        return ('idx', pp(strip(a0.kids[0], casts=True)), int_value(a0.kids[1]))
                    t = (a0.type or '')
                    if '*' in t or '[' in t:
                        return ('ptr', pp(a0))
                    return ('lin', fs.sym(a0))
                for t in range(p):
                    nargs = len(groups[0][t].kids) - 1
                    for ai in range(nargs):
                        vals = [val(g[t].kids[1 + ai]) for g in groups]
                        kinds = set(v[0] for v in vals)
                        if len(kinds) != 1:
                            probs.append('argument %d of %s changes kind across the groups' % (ai + 1, names0[t]))
                            continue
                        kd = vals[0][0]
                        if kd == 'ptr':
                            if len(set(v[1] for v in vals)) != 1:
                                probs.append('argument %d of %s: %s' % (ai + 1, names0[t], [v[1] for v in vals]))
                        elif kd == 'idx':
                            if len(set(v[1] for v in vals)) != 1:
                                probs.append('argument %d of %s indexes different arrays: %s' % (ai + 1, names0[t], sorted(set(v[1] for v in vals))))
                            d = [vals[x + 1][2] - vals[x][2] for x in range(len(vals) - 1)]
                            if len(set(d)) != 1:
                                probs.append('argument %d of %s: subscripts %s are not affine in the group index' % (ai + 1, names0[t], [v[2] for v in vals]))
                        else:
                            d = [vals[x + 1][1] - vals[x][1] for x in range(len(vals) - 1)]
                            if any(not (dd == d[0]) for dd in d):
                                probs.append('argument %d of %s: %s is not group 0 plus j times one step' % (ai + 1, names0[t], [repr(v[1]) for v in vals]))
                # the steps of the index arguments and of the subscripts must agree in sign/unit: every 'idx' step equals 1 here
                rr.ob(not probs, dict(function=fname, groups=len(groups), period=p, callees=names0),
                      Finding(rule, '%s|%s|%s' % (rule, fname, first), groups[0][0].loc, fname,
                              'periodic call groups starting with %s(): %s' % (first, '; '.join(probs[:3])), dict(reason=reason), label))
        if not found:
            raise AnalysisBroken('B8: the periodic group %s / %s was not found' % (fname, first))
    return rr


# ---------------------------------------------------------------------------------------------- B7p
def rule_B7p(ctx, prog, label, rule='B7p'):
    """xor-fold chains (`x ^= x >> c` repeated with halving c, the parity / reduction idiom) start at half the width of x's
    type and halve down to 1 without a gap; a 64-bit word folded from 16 loses the contribution of bits 32..63."""
    rr = RuleResult(rule, 'xor-fold chains (x ^= x >> c, c halving) cover the whole width of their operand: c runs w/2, w/4, ..., 1')
    for f in sorted(prog.all_funcs(), key=lambda f: (f.file, f.line)):
        for cs in f.body.find('CompoundStmt'):
            run = []
            for s in cs.kids + [None]:
                e = strip(s) if s is not None else None
                c = None
                if e is not None and e.kind == 'CompoundAssignOperator' and e.op == '^=':
                    l = strip(e.kids[0], casts=True)
                    r = strip(e.kids[1], casts=True)
                    if l.kind == 'DeclRefExpr' and r.kind == 'BinaryOperator' and r.op == '>>' and strip(r.kids[0], casts=True).kind == 'DeclRefExpr' \
                       and strip(r.kids[0], casts=True).refid == l.refid and int_value(r.kids[1]) is not None:
                        c = (l.refid, int_value(r.kids[1]), e, l)
                if c is not None and (not run or run[-1][0] == c[0]):
                    run.append(c)
                    continue
                if len(run) >= 3 and all(run[i][1] == 2 * run[i + 1][1] for i in range(len(run) - 1)):
                    rr.instances += 1
                    t = (run[0][3].type or '').replace('const', '').strip()
                    width = 64 if t in ('word', 'unsigned long', 'uint64_t', 'unsigned long long', 'long') else 32 if t in ('int', 'unsigned int', 'uint32_t', 'rci_t') else None
                    ok = width is not None and run[0][1] == width // 2 and run[-1][1] == 1
                    rr.ob(ok, dict(function=f.name, variable=run[0][3].ref, shifts=[x[1] for x in run]),
                          Finding(rule, '%s|%s|%s' % (rule, f.name, run[0][3].ref), run[0][2].loc, f.name,
                                  'xor-fold of the %s-bit `%s` uses the shifts %s: expected %s - bits %s never reach bit 0' % (
                                      width, run[0][3].ref, [x[1] for x in run], [width >> i for i in range(1, width.bit_length())] if width else '?',
                                      '%d..%d' % (2 * run[0][1], width - 1) if width and run[0][1] < width // 2 else 'above the last shift'), {}, label))
                run = [c] if c is not None else []
    return rr


# ====================================================================== B2r: the trip counter of a repeated Duff device is refreshed

def rule_B2r(ctx, prog, label, only_funcs=None, rule='B2r'):
    """`do { ... } while (--n > 0)` consumes its counter.  Where the device sits inside a loop (one pass per row or row pair),
    n must be (re)initialised inside that loop before the device: a counter set once outside gives the first row the full
    update and every later row a single pass."""
    from .symbolic import FuncSym
    rr = RuleResult(rule, 'the trip counter of a do { } while (--n > 0) device inside a loop is initialised inside that loop, before the device')
    for f in sorted(prog.all_funcs(), key=lambda f: (f.file, f.line)):
        if only_funcs is not None and f.name not in only_funcs:
            continue
        fs = None
        for do in f.body.find('DoStmt'):
            cond = strip(do.kids[1], casts=True)
            if not (cond is not None and cond.kind == 'BinaryOperator' and cond.op in ('>', '!=') and int_value(cond.kids[1]) == 0):
                continue
            dec = strip(cond.kids[0], casts=True)
            if not (dec.kind == 'UnaryOperator' and dec.op == '--' and strip(dec.kids[0], casts=True).kind == 'DeclRefExpr'):
                continue
            nv = strip(dec.kids[0], casts=True)
            fs = fs or FuncSym(f)
            outer = [l for l in fs.enclosing_all(do, ('ForStmt', 'WhileStmt', 'DoStmt')) if l is not do]
            if not outer:
                continue
            L = outer[0]           # innermost enclosing loop
            rr.instances += 1
            body_nodes = list(L.walk())
            pos_do = next(i for i, x in enumerate(body_nodes) if x is do)
            ok = False
            for i, x in enumerate(body_nodes[:pos_do]):
                if x.kind == 'VarDecl' and x.id == nv.refid and x.kids:
                    ok = True
                if x.kind == 'BinaryOperator' and x.op == '=' and strip(x.kids[0], casts=True).kind == 'DeclRefExpr' and strip(x.kids[0], casts=True).refid == nv.refid:
                    ok = True
            rr.ob(ok, dict(function=f.name, counter=nv.ref, loop_line=L.line),
                  Finding(rule, '%s|%s|%s' % (rule, f.name, nv.ref), do.loc, f.name,
                          'the counter `%s` of `do { } while (%s)` is not set inside the enclosing loop (line %s) before the device: after the first '
                          'pass of that loop it is exhausted, so every later row gets one pass of the unrolled body instead of %s' % (nv.ref, pp(cond), L.line, nv.ref), {}, label))
    rr.require_floor(4 if only_funcs is None else 1, 'counted do-while devices inside loops')
    return rr
