"""Engine A core: interprocedural points-to roots and write effects (flow-insensitive inside a
function, fixpoint over the call graph, recursion included).

Abstract location = (root, part)
  root: ('p', i) i-th parameter | ('g', name) global | ('fresh', site) | ('local', declid) | ('unk', '')
  part: 'hdr'  the object the pointer points at directly
        'data' anything reachable from it through stored pointers (matrix words, perm values, ...)
        'win'  a *fresh window header* whose data aliases root's data
Effects per function: writes {loc: site}, frees {loc: site}, rets {loc}, calls.
"""
from .ast import strip, callee_name, pp, is_null, type_is_pointer, pointee_is_const
from .frontend import AnalysisBroken

# externals that write nothing through their pointer arguments (frees are tracked separately)
EXT_NOWRITE = {'printf', 'fprintf', 'vfprintf', 'fopen', 'fclose', 'free', '_mm_free', 'malloc', 'calloc',
               '_mm_malloc', 'sqrt', 'log2', 'round', 'abort', 'exit', 'rand', 'random', 'time', 'localtime',
               '__builtin_expect', '_mm_xor_si128', '__builtin_va_start', '__builtin_va_end', 'strlen',
               'png_sig_cmp', 'png_get_image_height', 'png_get_image_width', 'png_get_bit_depth',
               'png_get_channels', 'png_get_color_type', 'png_get_compression_type', 'png_get_interlace_type',
               'png_write_row', 'png_set_text', 'omp_get_num_threads', 'omp_get_thread_num',
               'omp_get_max_threads', 'omp_set_num_threads', 'omp_in_parallel', 'fabs', 'floor', 'ceil', 'pow',
               '_setjmp', 'setjmp', 'fflush', 'fputs', 'puts', 'putchar', 'getenv', 'clock', 'gettimeofday_nowrite',
               '__builtin_clzll', '__builtin_ctzll', '__builtin_popcountll', 'posix_memalign_nowrite'}
# externals with a precise write set (argument indices whose direct pointee is written)
EXT_WRITES = {'memcpy': [0], 'memset': [0], 'memmove': [0], 'fread': [0], 'sprintf': [0], 'snprintf': [0],
              'png_read_row': [1, 2], 'strcpy': [0], 'strncpy': [0], 'posix_memalign': [0],
              'fscanf': 'varargs2', 'sscanf': 'varargs2', 'scanf': 'varargs1', 'realloc': []}
EXT_FREES = {'free': 0, '_mm_free': 0, 'realloc': 0}
EXT_ALLOC = {'malloc', 'calloc', 'realloc', '_mm_malloc', 'aligned_alloc', 'strdup', 'fopen',
             'png_create_read_struct', 'png_create_write_struct', 'png_create_info_struct', 'localtime'}

HDR, DATA, WIN = 'hdr', 'data', 'win'


def to_data(locs):
    return frozenset((r, DATA) for (r, _p) in locs)


class Summary(object):
    __slots__ = ('writes', 'frees', 'rets', 'callees', 'dwrites', 'greads', 'escapes', 'dreads', 'pstores')

    def __init__(self):
        self.writes = {}   # loc -> site text  (roots ('p',i) / ('g',name) / ('unk',''))
        self.dwrites = {}  # direct writes only (not through callees with bodies)
        self.dreads = {}   # global root -> site, direct reads
        self.pstores = {}  # param index -> set of locs: pointer values stored into the memory that parameter points to
        self.frees = {}
        self.rets = set()
        self.callees = set()
        self.greads = {}
        self.escapes = {}  # loc -> site: pointer value stored into non-local memory

    def key(self):
        return (frozenset(self.writes), frozenset(self.frees), frozenset(self.rets), frozenset(self.greads),
                frozenset(self.escapes), frozenset((k, frozenset(v)) for k, v in self.pstores.items()))


class Effects(object):
    def __init__(self, prog):
        self.prog = prog
        self.sum = {}
        self.local_ids = {}
        self.env = {}
        self.funcs = prog.all_funcs()
        for f in self.funcs:
            self.sum[id(f)] = Summary()
            ids = {}
            for i, p in enumerate(f.params):
                ids[p.id] = ('p', i)
            for n in f.body.walk():
                if n.kind == 'VarDecl' and n.storage != 'static' and n.storage != 'extern':
                    ids[n.id] = ('local', n.id)
                elif n.kind == 'VarDecl' and n.storage == 'static':
                    ids[n.id] = ('g', f.name + '.' + n.name)
            self.local_ids[id(f)] = ids
        self.indirect_calls = []
        self.rounds = 0
        self._solve()

    # ------------------------------------------------------------------
    def summary(self, name, caller=None):
        f = self.prog.resolve(name, caller)
        return self.sum[id(f)] if f is not None else None

    def of(self, f):
        return self.sum[id(f)]

    def query(self, f):
        """A per-function evaluator with the converged local points-to environment (for per-store queries)."""
        A = _FuncAnalysis(self, f)
        A.env = dict(self.env.get(id(f), {}))
        A.changed = False
        return A

    def _solve(self):
        changed = True
        while changed:
            self.rounds += 1
            if self.rounds > 60:
                raise AnalysisBroken('effects fixpoint did not converge')
            changed = False
            for f in self.funcs:
                old = self.sum[id(f)].key()
                self._analyse(f)
                if self.sum[id(f)].key() != old:
                    changed = True

    # ------------------------------------------------------------------ per function
    def _analyse(self, f):
        A = _FuncAnalysis(self, f)
        A.run()
        self.sum[id(f)] = A.S
        self.env[id(f)] = A.env


class _FuncAnalysis(object):
    def __init__(self, E, f):
        self.E = E
        self.f = f
        self.ids = E.local_ids[id(f)]
        self.S = Summary()
        self.env = {}
        self.pst = {}
        for i, p in enumerate(f.params):
            if type_is_pointer(p.type) or (p.dtype and type_is_pointer(p.dtype)):
                self.env[p.id] = frozenset([(('p', i), HDR)])

    def site(self, n):
        return '%s: %s' % (n.loc, pp(n)[:120])

    # -- value of pointer expressions ---------------------------------------
    def pts(self, e):
        if e is None:
            return frozenset()
        k = e.kind
        if k == 'ImplicitCastExpr':
            c = e.cast
            if c == 'LValueToRValue':
                return self.load(e.kids[0])
            if c == 'ArrayToPointerDecay':
                return self.lv(e.kids[0])
            if c in ('NullToPointer', 'FunctionToPointerDecay', 'BuiltinFnToFnPtr'):
                return frozenset()
            if c == 'IntegralToPointer':
                return frozenset()
            return self.pts(e.kids[0])
        if k in ('ParenExpr', 'ConstantExpr'):
            return self.pts(e.kids[0])
        if k == 'CStyleCastExpr':
            if e.cast in ('IntegralToPointer', 'NullToPointer'):
                return frozenset()
            return self.pts(e.kids[0])
        if k == 'BinaryOperator':
            if e.op in ('+', '-'):
                r = frozenset()
                for c in e.kids:
                    if type_is_pointer(c.type) or type_is_pointer(c.dtype or ''):
                        r |= self.pts(c)
                return r
            if e.op == ',':
                return self.pts(e.kids[1])
            if e.op == '=':
                return self.pts(e.kids[1])
            return frozenset()
        if k == 'CompoundAssignOperator':
            return self.load(e.kids[0])
        if k == 'UnaryOperator':
            if e.op == '&':
                return self.lv(e.kids[0])
            if e.op in ('++', '--'):
                return self.load(e.kids[0])
            if e.op == '*':
                return self.load(e)
            return frozenset()
        if k == 'ConditionalOperator':
            return self.pts(e.kids[1]) | self.pts(e.kids[2])
        if k == 'CallExpr':
            return self.call(e)
        if k in ('ArraySubscriptExpr', 'MemberExpr', 'DeclRefExpr'):
            # an lvalue used directly as pointer value (should be under LValueToRValue; be permissive)
            return self.load(e)
        if k == 'StmtExpr':
            return frozenset()
        return frozenset()

    def load(self, lv):
        """Pointer value stored in lvalue `lv`."""
        lv = strip(lv)
        if lv.kind == 'DeclRefExpr':
            if lv.refkind == 'FunctionDecl':
                return frozenset()
            r = self.ids.get(lv.refid)
            if r is None:
                # global variable
                self.S.greads.setdefault(('g', lv.ref), self.site(lv))
                self.S.dreads.setdefault(('g', lv.ref), self.site(lv))
                return frozenset([(('g', lv.ref), DATA)])
            if r[0] == 'g':
                self.S.greads.setdefault(r, self.site(lv))
                self.S.dreads.setdefault(r, self.site(lv))
                return frozenset([(r, DATA)])
            return self.env.get(lv.refid, frozenset())
        # element of a local array of pointers / field of a local struct: use the variable summary
        base = self._local_base(lv)
        if base is not None:
            return self.env.get(base, frozenset())
        locs = self.lv(lv)
        res = to_data(locs)
        # pointers this function itself stored into the memory a parameter points to (out-parameter arrays)
        for (r, p) in locs:
            if r[0] == 'p' and r[1] in self.pst:
                res |= frozenset(self.pst[r[1]])
        return res

    def _local_base(self, lv):
        """If lvalue is var, var[i], var.f, var[i].f ... of a *local* variable, return its decl id."""
        n = strip(lv)
        while True:
            if n.kind == 'DeclRefExpr':
                r = self.ids.get(n.refid)
                if r is not None and r[0] in ('local', 'p') and n.refkind in ('VarDecl', 'ParmVarDecl'):
                    return n.refid
                return None
            if n.kind == 'ArraySubscriptExpr':
                b = strip(n.kids[0])
                # only arrays (decayed), not pointers
                inner = n.kids[0]
                while inner.kind in ('ParenExpr',):
                    inner = inner.kids[0]
                if inner.kind == 'ImplicitCastExpr' and inner.cast == 'ArrayToPointerDecay':
                    n = strip(inner.kids[0])
                    continue
                return None
            if n.kind == 'MemberExpr' and not n.arrow:
                n = strip(n.kids[0])
                continue
            return None

    def lv(self, lv):
        """Locations designated by an lvalue expression."""
        n = strip(lv)
        k = n.kind
        if k == 'DeclRefExpr':
            r = self.ids.get(n.refid)
            if r is None:
                if n.refkind == 'FunctionDecl':
                    return frozenset()
                return frozenset([(('g', n.ref), HDR)])
            if r[0] == 'g':
                return frozenset([(r, HDR)])
            return frozenset([(('local', n.refid), HDR)])
        if k == 'ArraySubscriptExpr':
            a, b = n.kids[0], n.kids[1]
            if type_is_pointer(a.type) or type_is_pointer(a.dtype or ''):
                return self.pts(a)
            return self.pts(b)
        if k == 'UnaryOperator' and n.op == '*':
            return self.pts(n.kids[0])
        if k == 'MemberExpr':
            if n.arrow:
                return self.pts(n.kids[0])
            return self.lv(n.kids[0])
        if k == 'CompoundLiteralExpr':
            return frozenset()
        if k == 'CStyleCastExpr':
            return self.lv(n.kids[0])
        if k == 'ConditionalOperator':
            return self.lv(n.kids[1]) | self.lv(n.kids[2])
        if k == 'StringLiteral' or k == 'PredefinedExpr':
            return frozenset()
        if k in ('BinaryOperator', 'CompoundAssignOperator') and n.op in ('=', '+=', '-=', ','):
            return self.lv(n.kids[0] if n.op != ',' else n.kids[1])
        if k == 'CallExpr':
            return frozenset()
        return frozenset()

    # -- effects ---------------------------------------------------------------
    def write(self, locs, site, direct=True):
        for (r, p) in locs:
            if r[0] in ('local', 'fresh'):
                continue
            if p == WIN:
                continue   # header of a fresh window
            self.S.writes.setdefault((r, p), site)
            if direct:
                self.S.dwrites.setdefault((r, p), site)

    def free(self, locs, site):
        # a variable that may hold either a caller's object or a fresh window/owner created here
        # (parameter re-assignment with save/restore, `if (window_used) mzd_free_window(A)`): the
        # flow-insensitive set is ambiguous; the typestate engine (E1) decides those paths.
        if any(p == WIN or r[0] == 'fresh' for (r, p) in locs) and any(r[0] == 'p' and p != WIN for (r, p) in locs):
            return
        for (r, p) in locs:
            if r[0] in ('local', 'fresh'):
                continue
            if p == WIN:
                continue
            self.S.frees.setdefault((r, p), site)

    def assign(self, lhs, rhs_pts, site, node):
        base = self._local_base(lhs)
        l = strip(lhs)
        if base is not None and (l.kind != 'DeclRefExpr' or True):
            if rhs_pts:
                old = self.env.get(base, frozenset())
                new = old | rhs_pts
                if new != old:
                    self.env[base] = new
                    self.changed = True
            if l.kind == 'DeclRefExpr':
                return
            return
        # store into memory
        locs = self.lv(lhs)
        self.write(locs, site)
        if rhs_pts:
            for (lr, _lp) in locs:
                if lr[0] == 'p':
                    vals = set(l for l in rhs_pts if l[0][0] in ('fresh', 'g', 'p'))
                    self.S.pstores.setdefault(lr[1], set()).update(vals)
                    if vals - self.pst.get(lr[1], set()):
                        self.pst.setdefault(lr[1], set()).update(vals)
                        self.changed = True
            for (r, p) in rhs_pts:
                if r[0] in ('p', 'g') and any(lr[0] != 'local' for (lr, _lp) in locs):
                    self.S.escapes.setdefault((r, p), site)

    def call(self, e):
        name = callee_name(e)
        args = e.kids[1:]
        site = self.site(e)
        if name is None:
            # indirect call: the user RNG callback; writes only through its (void *) argument
            (self.E.indirect_calls.append((self.f.name, site)) if (self.f.name, site) not in self.E.indirect_calls else None)
            for a in args:
                self.visit(a)
                if type_is_pointer(a.type):
                    self.write(self.pts(a), site)
            return frozenset()
        for a in args:
            self.visit(a)
        argp = [self.pts(a) if (type_is_pointer(a.type) or type_is_pointer(a.dtype or '') or a.kind == 'ImplicitCastExpr' and a.cast == 'ArrayToPointerDecay') else frozenset() for a in args]
        self.S.callees.add(name)
        # ---- builtin summaries (checked against the bodies by rule A2/E5) ----
        if name in ('mzd_row', 'mzd_row_const'):
            return to_data(argp[0]) if argp else frozenset()
        if name in ('mzd_init_window', 'mzd_init_window_const', 'mzp_init_window'):
            return frozenset((r, WIN) for (r, p) in argp[0]) if argp else frozenset()
        if name in ('mzd_free', 'mzd_free_window', 'mzp_free_window', 'mzp_free'):
            self.free(argp[0], site)
            return frozenset()
        callee = self.E.prog.resolve(name, self.f)
        if callee is not None and callee.body is not None:
            S = self.E.sum[id(callee)]
            self.apply_summary(S, argp, site, name)
            # out-parameters: pointers the callee stores into memory the argument points to (local arrays/variables)
            for pi, stored in S.pstores.items():
                if pi >= len(argp):
                    continue
                mapped = frozenset()
                for (r, p) in stored:
                    mapped |= self.map_loc(r, p, argp)
                if not mapped:
                    continue
                for (r, p) in argp[pi]:
                    if r[0] == 'local':
                        old_ = self.env.get(r[1], frozenset())
                        if mapped - old_:
                            self.env[r[1]] = old_ | mapped
                            self.changed = True
                    elif r[0] == 'p':
                        self.S.pstores.setdefault(r[1], set()).update(mapped)
            ret = frozenset()
            for (r, p) in S.rets:
                ret |= self.map_loc(r, p, argp)
            return ret
        # ---- external ----
        if name in EXT_FREES:
            i = EXT_FREES[name]
            if i < len(argp):
                self.free(argp[i], site)
        if name in EXT_WRITES:
            w = EXT_WRITES[name]
            if w == 'varargs2':
                w = list(range(2, len(args)))
            elif w == 'varargs1':
                w = list(range(1, len(args)))
            for i in w:
                if i < len(argp):
                    self.write(argp[i], site)
        elif name not in EXT_NOWRITE:
            proto = self.E.prog.protos.get(name)
            ptypes = _param_types(proto.node.type) if proto is not None else []
            for i, a in enumerate(args):
                t = ptypes[i] if i < len(ptypes) else a.type
                if argp[i] and not _is_const_ptr_type(t):
                    self.write(argp[i], site)
                    self.write(to_data(argp[i]), site)
        if name in EXT_ALLOC:
            return frozenset([(('fresh', ''), HDR)])
        return frozenset([(('unk', ''), HDR)]) if type_is_pointer(e.type) else frozenset()

    def map_loc(self, r, p, argp):
        """Translate a callee location to caller locations."""
        if r[0] == 'p':
            i = r[1]
            if i >= len(argp):
                return frozenset()
            src = argp[i]
            if p == HDR:
                return src
            if p == DATA:
                return to_data(src)
            if p == WIN:
                return frozenset((rr, WIN) for (rr, _pp) in src)
        if r[0] in ('g', 'unk', 'fresh'):
            return frozenset([(r, p)])
        return frozenset()

    def apply_summary(self, S, argp, site, name):
        for (r, p), csite in S.writes.items():
            locs = self.map_loc(r, p, argp)
            self.write(locs, site + ' -> ' + csite if len(site) < 400 else site, direct=False)
        for (r, p), csite in S.frees.items():
            locs = self.map_loc(r, p, argp)
            self.free(locs, site + ' -> ' + csite if len(site) < 400 else site)
        for r, csite in S.greads.items():
            self.S.greads.setdefault(r, site + ' -> ' + csite if len(site) < 300 else site)
        for (r, p), csite in S.escapes.items():
            for l in self.map_loc(r, p, argp):
                if l[0][0] in ('p', 'g'):
                    self.S.escapes.setdefault(l, site)

    # -- walk ---------------------------------------------------------------------
    def visit(self, n):
        k = n.kind
        if k == 'CallExpr':
            self.call(n)
            return
        if k == 'BinaryOperator' and n.op == '=':
            self.visit(n.kids[1])
            self.visit_lhs(n.kids[0])
            rp = self.pts(n.kids[1]) if (type_is_pointer(n.type) or type_is_pointer(n.dtype or '')) else frozenset()
            self.assign(n.kids[0], rp, self.site(n), n)
            return
        if k == 'CompoundAssignOperator':
            self.visit(n.kids[1])
            self.visit_lhs(n.kids[0])
            self.assign(n.kids[0], frozenset(), self.site(n), n)
            return
        if k == 'UnaryOperator' and n.op in ('++', '--'):
            self.visit_lhs(n.kids[0])
            self.assign(n.kids[0], frozenset(), self.site(n), n)
            return
        if k == 'VarDecl':
            if n.kids:
                init = n.kids[-1]
                self.visit(init)
                if n.storage == 'static':
                    return
                t = n.type or ''
                if type_is_pointer(t) or type_is_pointer(n.dtype or '') or '[' in t or init.kind == 'InitListExpr':
                    rp = self._init_pts(init)
                    if rp:
                        old = self.env.get(n.id, frozenset())
                        if rp - old:
                            self.env[n.id] = old | rp
                            self.changed = True
            return
        if k == 'ReturnStmt':
            if n.kids:
                self.visit(n.kids[0])
                if type_is_pointer(self.f.rettype):
                    for l in self.pts(n.kids[0]):
                        if l[0][0] != 'local':
                            self.S.rets.add(l)
            return
        for c in n.kids:
            self.visit(c)

    def _init_pts(self, init):
        if init.kind == 'InitListExpr':
            r = frozenset()
            for c in init.kids:
                r |= self._init_pts(c)
            return r
        if type_is_pointer(init.type) or type_is_pointer(init.dtype or ''):
            return self.pts(init)
        return frozenset()

    def visit_lhs(self, n):
        # evaluate calls inside the lvalue expression
        for c in n.walk():
            if c.kind == 'CallExpr':
                self.call(c)

    def run(self):
        for _ in range(12):
            self.changed = False
            self.S = Summary()
            self.visit(self.f.body)
            if not self.changed:
                break
        else:
            raise AnalysisBroken('local points-to did not converge in %s' % self.f.name)


def _param_types(ftype):
    """'int (FILE *, const char *, ...)' -> ['FILE *', 'const char *', '...']"""
    if not ftype or '(' not in ftype:
        return []
    inner = ftype[ftype.index('(') + 1: ftype.rindex(')')]
    out, depth, cur = [], 0, ''
    for ch in inner:
        if ch == '(':
            depth += 1
        if ch == ')':
            depth -= 1
        if ch == ',' and depth == 0:
            out.append(cur.strip())
            cur = ''
        else:
            cur += ch
    if cur.strip():
        out.append(cur.strip())
    return out


_CONST_TYPEDEFS = ('png_const_structrp', 'png_const_inforp', 'png_const_bytep', 'png_const_charp',
                   'png_const_textp', 'png_const_structp', 'png_const_infop')


def _is_const_ptr_type(t):
    if not t:
        return False
    if t.split()[0] in _CONST_TYPEDEFS or t in _CONST_TYPEDEFS:
        return True
    return pointee_is_const(t)
