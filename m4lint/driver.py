"""check driver: ./check <ID> quick|thorough

Exit 0: all obligations of the property's rule set discharged (known findings printed).
Exit 1: VIOLATION property=<id> replay=<report.json> for findings not in known_findings.json.
Exit 2: analysis broken (clang failed, anchor vanished, instance count below floor, unmodelled idiom).
"""
import json
import os
import sys
import time
import traceback

from . import frontend
from .frontend import AnalysisBroken, VERIF

sys.setrecursionlimit(20000)


class Finding(object):
    def __init__(self, rule, key, loc, func, msg, detail=None, cfg=None):
        self.rule = rule
        self.key = key          # stable signature: no line numbers, no local names where avoidable
        self.loc = loc
        self.func = func
        self.msg = msg
        self.detail = detail or {}
        self.cfgs = [cfg] if cfg else []

    def to_json(self):
        return dict(rule=self.rule, key=self.key, location=self.loc, function=self.func, message=self.msg,
                    detail=self.detail, configurations=self.cfgs)


class RuleResult(object):
    """What one rule did in one configuration."""

    def __init__(self, rule, description):
        self.rule = rule
        self.description = description
        self.instances = 0        # sites enumerated
        self.obligations = 0
        self.discharged = 0
        self.findings = []
        self.samples = []
        self.info = []
        self.floor = None
        self.extra = {}

    def ob(self, ok, sample=None, finding=None):
        self.obligations += 1
        if ok:
            self.discharged += 1
            if sample is not None and len(self.samples) < 6:
                self.samples.append(sample)
        else:
            if finding is not None:
                self.findings.append(finding)

    def require_floor(self, n, what=None):
        self.floor = n
        if self.instances < n:
            raise AnalysisBroken('rule %s: %d instances of %s found, hand-confirmed floor is %d '
                                 '(rule would pass vacuously)' % (self.rule, self.instances, what or 'sites', n))


class Context(object):
    def __init__(self, prop, tier):
        self.prop = prop
        self.tier = tier
        self._progs = {}
        self._eff = {}
        self.broken = []
        self.t0 = time.time()

    def program(self, cfg, ndebug=True):
        k = (frontend.cfg_id(cfg), ndebug)
        p = self._progs.get(k)
        if p is None:
            p = frontend.load_program(cfg, ndebug)
            self._progs[k] = p
        return p

    def add(self, out, label, rule_fn, *args, **kw):
        """Run one rule; an AnalysisBroken inside it is recorded (exit 2 unless another rule reports a violation)."""
        try:
            out.append((label, rule_fn(*args, **kw)))
        except AnalysisBroken as e:
            self.broken.append('%s: %s' % (getattr(rule_fn, '__name__', 'rule'), e))

    def effects(self, prog):
        from .effects import Effects
        e = self._eff.get(id(prog))
        if e is None:
            e = Effects(prog)
            self._eff[id(prog)] = e
        return e


def load_known():
    p = os.path.join(VERIF, 'known_findings.json')
    if not os.path.exists(p):
        return []
    return json.load(open(p)).get('findings', [])


def run_property(prop, tier, rules_for, meta):
    """rules_for(ctx) -> list of (cfg_label, RuleResult).  meta: dict with level, explanation, ..."""
    t0 = time.time()
    ctx = Context(prop, tier)
    seed = int(os.environ.get('VERIF_SEED', '0') or 0)
    # development runs against a scratch copy (M4LINT_REPO) must never overwrite the real evidence
    evdir = 'evidence' if not (os.environ.get('M4LINT_REPO') or os.environ.get('M4LINT_SCRATCH_EVIDENCE')) else os.path.join('.cache', 'evidence_scratch')
    evidence_path = os.path.join(VERIF, evdir, prop + '.json')
    os.makedirs(os.path.dirname(evidence_path), exist_ok=True)
    os.makedirs(os.path.join(VERIF, 'reports'), exist_ok=True)
    try:
        results = rules_for(ctx)
    except AnalysisBroken as e:
        print('ANALYSIS-BROKEN property=%s: %s' % (prop, e))
        _write_evidence(evidence_path, prop, tier, seed, meta, [], [], [], time.time() - t0, broken=str(e))
        return 2
    except Exception:
        traceback.print_exc()
        print('ANALYSIS-BROKEN property=%s: internal error' % prop)
        _write_evidence(evidence_path, prop, tier, seed, meta, [], [], [], time.time() - t0, broken='internal error')
        return 2

    # merge findings across configurations by (rule, key)
    merged = {}
    for (label, rr) in results:
        for f in rr.findings:
            k = (f.rule, f.key)
            if k in merged:
                if label not in merged[k].cfgs:
                    merged[k].cfgs.append(label)
            else:
                f.cfgs = [label]
                merged[k] = f
    known = load_known()
    knownmap = {}
    for e in known:
        if prop in e.get('properties', []):
            knownmap[(e['rule'], e['key'])] = e
    new, old = [], []
    for k, f in sorted(merged.items()):
        (old if k in knownmap else new).append(f)

    # per-rule summary
    agg = {}
    for (label, rr) in results:
        a = agg.setdefault(rr.rule, dict(rule=rr.rule, description=rr.description, configurations=0, instances=0,
                                          obligations=0, discharged=0, floor=rr.floor))
        a['configurations'] += 1
        a['instances'] += rr.instances
        a['obligations'] += rr.obligations
        a['discharged'] += rr.discharged
    for a in agg.values():
        print('rule %-14s configs=%-2d instances=%-5d obligations=%-5d discharged=%-5d  %s' % (
            a['rule'], a['configurations'], a['instances'], a['obligations'], a['discharged'], a['description'][:90]))
    for f in old:
        print('KNOWN-FINDING: property=%s %s [%s] %s: %s' % (prop, f.rule, f.key, f.loc, f.msg))
    rc = 0
    if new:
        rc = 1
        for i, f in enumerate(new):
            rp = os.path.join(VERIF, 'reports', '%s_%s_%d.json' % (prop, tier, i))
            with open(rp, 'w') as fh:
                json.dump(dict(property=prop, **f.to_json()), fh, indent=1, default=str)
            print('%s: rule %s: %s (in %s) [key %s]' % (f.loc, f.rule, f.msg, f.func, f.key))
            print('VIOLATION property=%s replay=%s' % (prop, rp))
    if ctx.broken:
        for b in ctx.broken:
            print('ANALYSIS-BROKEN property=%s: %s' % (prop, b))
        if rc == 0:
            rc = 2
    _write_evidence(evidence_path, prop, tier, seed, meta, results, new, old, time.time() - t0, broken='; '.join(ctx.broken) if ctx.broken else None)
    total_ob = sum(a['obligations'] for a in agg.values())
    total_di = sum(a['discharged'] for a in agg.values())
    print('property %s tier %s: %d obligations, %d discharged, %d new violation(s), %d known finding(s), %.1fs' % (
        prop, tier, total_ob, total_di, len(new), len(old), time.time() - t0))
    return rc


def _write_evidence(path, prop, tier, seed, meta, results, new, old, wall, broken=None):
    rules = {}
    samples = []
    cfgs = []
    for (label, rr) in results:
        if label not in cfgs:
            cfgs.append(label)
        a = rules.setdefault(rr.rule, dict(description=rr.description, instances=0, obligations=0, discharged=0,
                                            floor_per_configuration=rr.floor, configurations=0, extra={}))
        a['instances'] += rr.instances
        a['obligations'] += rr.obligations
        a['discharged'] += rr.discharged
        a['configurations'] += 1
        for k, v in rr.extra.items():
            a['extra'].setdefault(k, v)
        for s in rr.samples:
            if sum(1 for x in samples if x.get('rule') == rr.rule) < 4:
                samples.append(dict(rule=rr.rule, configuration=label, obligation=s))
    ob = sum(a['obligations'] for a in rules.values())
    di = sum(a['discharged'] for a in rules.values())
    level = meta.get('level', 'other')
    if broken or new or ob != di and level == 'proof':
        # a proof claim needs every obligation discharged; otherwise report as 'other'
        if level == 'proof' and (broken or ob != di):
            level = 'other'
    cov = dict(
        explanation=meta.get('explanation', ''),
        obligations=ob, discharged=di,
        checker_cmd='./check %s %s' % (prop, tier),
        trusted_base=meta.get('trusted_base', TRUSTED_BASE),
        exhaustive=True if not broken else False,
        configurations=cfgs,
        rules=rules,
        samples=samples if samples else [dict(note='no obligation samples (analysis broken)' if broken else 'none')],
        rule=('every site matching a rule template is enumerated in every analysed configuration; an obligation '
              'is one (rule, site, configuration) triple; distinct = distinct triples'),
        known_findings=[f.to_json() for f in old],
        new_violations=[f.to_json() for f in new],
        not_decided=meta.get('not_decided', ''),
    )
    if broken:
        cov['analysis_broken'] = broken
    ev = dict(property_id=prop, tier=tier, seed=seed, level=level, coverage=cov,
              assumptions=meta.get('assumptions', ASSUMPTIONS), wall_s=round(wall, 2), violations=len(new))
    tmp = path + '.tmp'
    with open(tmp, 'w') as fh:
        json.dump(ev, fh, indent=1, default=str)
    os.replace(tmp, path)


TRUSTED_BASE = [
    "clang-14 parser/type checker and the faithfulness of its -ast-dump=json",
    "m4lint's AST reduction, CFG builder and abstract domains (exercised by selftest/ positive controls on every run)",
    "frozen rule-instance tables under /verif/rules (each confirmed by reading the code)",
]
ASSUMPTIONS = [
    "operands do not alias each other or the destination unless the API documents it",
    "unknown externals (libc, libpng) write only through non-const pointer parameters and keep no pointer",
    "no longjmp edges, no inline assembly; assert() is never a guard (NDEBUG is defined in the shipped build)",
    "zero-area matrices / zero-length permutations are outside every property's domain",
]
