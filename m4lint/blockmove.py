"""CL1 - block-move contract of _mzd_compress_l(A, r1, n1, r2)  (used by C03, C06, C07, C12).

In the rows below r1 + r2 the function moves the r2 columns of L2 from [n1, n1 + r2) to [r1, r1 + r2) and clears what is
left of the old place, [r1 + r2, n1 + r2).  Decided structurally:
  (a) every move step - bit moves `tmp = mzd_read_bits(A, i, S, n); ...; mzd_xor_bits(A, i, D, n, tmp)` and word moves
      `row[D / 64] = f(row[block], row[block + 1])` with `block = S / 64` advanced in lock-step with D - has the same
      displacement S - D = n1 - r1, and read / clear / xor of one step agree on position and length;
  (b) the clearing pass starts at r1 + r2 and ends at n1 + r2.
Linear forms only; three independent seeded changes (C12-1, C03-3, C06-3) broke exactly (a) or (b)."""
from .ast import strip, callee_name, int_value, pp
from .driver import Finding, RuleResult
from .frontend import AnalysisBroken
from .symbolic import FuncSym, Lin


def _is_radix(e):
    e0 = strip(e, casts=True)
    return int_value(e0) == 64 or (e0 is not None and e0.kind == 'DeclRefExpr' and e0.ref == 'm4ri_radix')


def rule_CL1(ctx, prog, label, rule='CL1'):
    rr = RuleResult(rule, '_mzd_compress_l: every move step has displacement n1 - r1 with matching read/clear/xor ranges; the clearing pass covers [r1 + r2, n1 + r2)')
    f = prog.funcs.get('_mzd_compress_l')
    if f is None or f.body is None or len(f.params) < 4:
        raise AnalysisBroken('CL1: _mzd_compress_l(A, r1, n1, r2) vanished')
    A, r1, n1, r2 = [p.name for p in f.params[:4]]
    fs = FuncSym(f)
    want = Lin.atom(n1) - Lin.atom(r1)
    # the row loop: the last top-level for loop whose body holds the moves
    loops = [s for s in f.body.walk() if s.kind == 'ForStmt' and any(callee_name(c) == 'mzd_xor_bits' for c in s.find('CallExpr'))]
    if not loops:
        raise AnalysisBroken('CL1: no row loop with bit moves in _mzd_compress_l')
    body = loops[0].kids[4]
    stmts = body.kids if body.kind == 'CompoundStmt' else [body]

    muts = {}
    for n in body.walk():
        if n.kind == 'CompoundAssignOperator' or (n.kind == 'UnaryOperator' and n.op in ('++', '--')) or (n.kind == 'BinaryOperator' and n.op == '='):
            t = strip(n.kids[0])
            if t.kind == 'DeclRefExpr':
                muts.setdefault(t.refid, []).append((n.line or 0, n.col or 0))
    decls = dict((n.id, n) for n in body.walk() if n.kind == 'VarDecl')

    def sym(e, at=None):
        # the running column `j` stays an atom (it cancels in differences) - except before its first update, where it
        # still holds its initial value
        l = fs.sym(e)
        if at is not None:
            for x in e.walk():
                if x.kind == 'DeclRefExpr' and x.refid in decls and x.ref in l.t and decls[x.refid].kids and decls[x.refid].init:
                    pos = (at.line or 0, at.col or 0)
                    if not any(m < pos for m in muts.get(x.refid, [])):
                        l = l.subst(x.ref, fs.sym(decls[x.refid].kids[-1]))
        return l
    problems = []
    nmoves = 0
    # ---- (a) bit moves: pair read -> xor through the temporary
    reads = {}
    flat = [n for n in body.walk()]
    class _Asg(object):
        pass
    for n in flat:
        if n.kind == 'VarDecl' and n.kids and n.init and strip(n.kids[-1], casts=True).kind == 'CallExpr' and callee_name(strip(n.kids[-1], casts=True)) == 'mzd_read_bits':
            # `word tmp = mzd_read_bits(..)`: same as an assignment to tmp
            fake = _Asg()
            fake.kind, fake.op, fake.line, fake.col, fake.loc = 'BinaryOperator', '=', n.line, n.col, n.loc
            ref = _Asg()
            ref.kind, ref.refid, ref.kids, ref.cast = 'DeclRefExpr', n.id, [], None
            fake.kids = [ref, n.kids[-1]]
            n = fake
        if n.kind == 'BinaryOperator' and n.op == '=' and strip(n.kids[0]).kind == 'DeclRefExpr':
            r = strip(n.kids[1], casts=True)
            if r.kind == 'CallExpr' and callee_name(r) == 'mzd_read_bits':
                reads[strip(n.kids[0]).refid] = (n, r)
                # the xor that consumes it: next mzd_xor_bits in source order whose last argument is this variable
                cand = [c for c in body.find('CallExpr') if callee_name(c) == 'mzd_xor_bits' and (c.line, c.col or 0) > (n.line, n.col or 0)
                        and strip(c.kids[5], casts=True).kind == 'DeclRefExpr' and strip(c.kids[5], casts=True).refid == strip(n.kids[0]).refid]
                if not cand:
                    problems.append((n, 'the bits read by `%s` are not written back by an mzd_xor_bits' % pp(r)[:50]))
                    continue
                x = cand[0]
                nmoves += 1
                S, D = sym(r.kids[3], r), sym(x.kids[3], r)
                nr, nx = sym(r.kids[4], r), sym(x.kids[4], r)
                if not (S - D == want):
                    problems.append((x, 'bit move `%s` -> `%s` has displacement %r, the block moves by %r' % (pp(r)[:40], pp(x)[:40], S - D, want)))
                if not (nr == nx):
                    problems.append((x, 'bit move reads %r bits but writes %r' % (nr, nx)))
                clr = [c for c in body.find('CallExpr') if callee_name(c) == 'mzd_clear_bits' and (n.line, n.col or 0) < (c.line, c.col or 0) < (x.line, x.col or 0)]
                if not clr:
                    problems.append((x, 'the destination of `%s` is not cleared before the xor' % pp(x)[:40]))
                elif not (sym(clr[0].kids[3], r) == D and sym(clr[0].kids[4], r) == nx):
                    problems.append((clr[0], '`%s` does not clear exactly the range `%s` writes' % (pp(clr[0])[:40], pp(x)[:40])))
    # ---- (a) word moves: row[D / 64] = ... row[block] ...;  block = S / 64 (latest assignment before the loop), advanced with D
    wmoves = 0
    for lp in body.find('ForStmt'):
        for n in lp.kids[4].walk():
            if n.kind == 'BinaryOperator' and n.op == '=' and strip(n.kids[0], casts=True).kind == 'ArraySubscriptExpr':
                l = strip(n.kids[0], casts=True)
                di = strip(l.kids[1], casts=True)
                if int_value(n.kids[1]) == 0:
                    continue          # zero stores belong to the clearing pass
                if not (di.kind == 'BinaryOperator' and di.op == '/' and _is_radix(di.kids[1])):
                    continue
                dvar = strip(di.kids[0], casts=True)
                # source word variable: follow the stored temporary to row[block]
                srcs = []
                rhs = strip(n.kids[1], casts=True)
                if rhs.kind == 'DeclRefExpr':
                    prev = [a for a in lp.kids[4].walk() if a.kind == 'BinaryOperator' and a.op == '=' and strip(a.kids[0]).kind == 'DeclRefExpr' and strip(a.kids[0]).refid == rhs.refid]
                    rhs_nodes = [a.kids[1] for a in prev]
                else:
                    rhs_nodes = [rhs]
                for rn in rhs_nodes:
                    for x in rn.walk():
                        if x.kind == 'ArraySubscriptExpr':
                            ix = strip(x.kids[1], casts=True)
                            if ix.kind == 'DeclRefExpr':
                                srcs.append(ix)
                if not srcs:
                    continue
                bvar = srcs[0]
                # latest assignment  block = S / 64  before the loop (source order)
                asg = [a for a in body.walk() if ((a.kind == 'BinaryOperator' and a.op == '=' and strip(a.kids[0]).kind == 'DeclRefExpr' and strip(a.kids[0]).refid == bvar.refid) or
                                                  (a.kind == 'VarDecl' and a.id == bvar.refid and a.kids and a.init))
                       and (a.line, a.col or 0) < (lp.line, lp.col or 0)]
                wmoves += 1
                if not asg:
                    problems.append((n, 'the source word index `%s` of the word move has no defining assignment in the row loop' % bvar.ref))
                    continue
                sx = strip(asg[-1].kids[1] if asg[-1].kind == 'BinaryOperator' else asg[-1].kids[-1], casts=True)
                for _ in range(3):
                    if sx.kind == 'DeclRefExpr' and sx.refkind == 'VarDecl' and fs.single_def(sx.refid) is not None:
                        sx = strip(fs.single_def(sx.refid), casts=True)
                if not (sx.kind == 'BinaryOperator' and sx.op == '/' and _is_radix(sx.kids[1])):
                    problems.append((asg[-1], 'the source word index `%s` is not a column divided by the word size' % pp(asg[-1])[:50]))
                    continue
                S, D = sym(sx.kids[0]), sym(dvar)
                if not (S - D == want):
                    problems.append((asg[-1], 'word move: the source starts at column %r for destination column %r - displacement %r, the block moves by %r' % (S, D, S - D, want)))
                # lock-step: the loop advances D by 64 and the source index by 1
                inc = pp(lp.kids[3])
                if not (bvar.ref in inc and dvar.kind == 'DeclRefExpr' and dvar.ref in inc):
                    problems.append((lp, 'word move loop does not advance `%s` and `%s` together' % (bvar.ref, pp(dvar))))
    nmoves += wmoves
    # ---- (b) clearing pass: zero stores / trailing clears start at r1 + r2 and end at n1 + r2
    zero_loops = [lp for lp in body.find('ForStmt') if any(n.kind == 'BinaryOperator' and n.op == '=' and int_value(n.kids[1]) == 0 and
                                                            strip(n.kids[0], casts=True).kind == 'ArraySubscriptExpr' for n in lp.kids[4].walk())]
    if not zero_loops:
        raise AnalysisBroken('CL1: clearing pass of _mzd_compress_l not recognised')
    zl = zero_loops[0]
    di = [strip(strip(n.kids[0], casts=True).kids[1], casts=True) for n in zl.kids[4].walk() if n.kind == 'BinaryOperator' and n.op == '=' and int_value(n.kids[1]) == 0][0]
    jv = strip(di.kids[0], casts=True) if di.kind == 'BinaryOperator' else di
    if jv.kind != 'DeclRefExpr':
        raise AnalysisBroken('CL1: clearing loop index not recognised')
    start = None
    init = zl.kids[0]
    if init.kind == 'BinaryOperator' and init.op == '=' and strip(init.kids[0]).kind == 'DeclRefExpr' and strip(init.kids[0]).refid == jv.refid:
        start = init.kids[1]
    else:
        asg = [a for a in stmts if strip(a) is not None and strip(a).kind == 'BinaryOperator' and strip(a).op == '=' and strip(strip(a).kids[0]).kind == 'DeclRefExpr'
               and strip(strip(a).kids[0]).refid == jv.refid and (a.line, a.col or 0) < (zl.line, zl.col or 0)]
        if asg:
            start = strip(asg[-1]).kids[1]
    cnd = strip(zl.kids[2])
    endv = sym(cnd.kids[1]) if cnd is not None and cnd.kind == 'BinaryOperator' else None
    if start is None or endv is None:
        raise AnalysisBroken('CL1: bounds of the clearing pass not recognised')
    st = sym(start)
    if not (st == Lin.atom(r1) + Lin.atom(r2)):
        problems.append((zl, 'the clearing pass starts at column %r, the moved block ends at %s + %s: the columns in between keep (or lose) the wrong bits' % (st, r1, r2)))
    if not (endv == Lin.atom(n1) + Lin.atom(r2)):
        problems.append((zl, 'the clearing pass ends at column %r, the old place of the block ends at %s + %s' % (endv, n1, r2)))
    # the column swaps that bring the pivot columns of the second block next to the first: the swap of columns (i, j) covers the
    # rows from i on - row i holds the pivot one of that column, which belongs on the diagonal - up to r1 + r2
    swaps = [c for c in f.body.find('CallExpr') if callee_name(c) == 'mzd_col_swap_in_rows' and len(c.kids) >= 6]
    if not swaps:
        raise AnalysisBroken('CL1: the column swaps of _mzd_compress_l vanished')
    for c in swaps:
        cola, start_row, stop_row = fs.sym(c.kids[2]), fs.sym(c.kids[4]), fs.sym(c.kids[5])
        if not (start_row == cola):
            problems.append((c, 'the swap of columns (%s, %s) starts at row %r, not at row %r: the pivot entry of that column (row %r) stays behind, so L keeps a '
                                'one off the diagonal and a zero on it' % (pp(strip(c.kids[2], casts=True)), pp(strip(c.kids[3], casts=True)), start_row, cola, cola)))
        if not (stop_row == Lin.atom(r1) + Lin.atom(r2)):
            problems.append((c, 'the column swaps stop at row %r, the pivot rows end at %s + %s' % (stop_row, r1, r2)))
    rr.instances += 1
    if nmoves < 3:
        raise AnalysisBroken('CL1: only %d move steps recognised in _mzd_compress_l (4 confirmed by reading)' % nmoves)
    rr.ob(not problems, dict(function=f.name, move_steps=nmoves, displacement=repr(want), clearing=[repr(st), repr(endv)]),
          Finding(rule, '%s|_mzd_compress_l' % rule, (problems[0][0].loc if problems else f.loc), f.name,
                  'block move of L2 broken: ' + '; '.join(p[1] for p in problems[:2]), {}, label))
    return rr
