"""Rules A1 (operand immutability) and A2 (header ownership) on top of the effects engine."""
from .ast import pointee_is_const, pp, strip, int_value
from .symbolic import FuncSym
from .driver import RuleResult, Finding
from .frontend import AnalysisBroken

HEADER_FIELDS = ('nrows', 'ncols', 'width', 'rowstride', 'flags', 'high_bitmask', 'data')
CONSTRUCTORS = ('mzd_init', 'mzd_init_window')


def rule_A1(ctx, prog, label, rule='A1'):
    """No function writes (or frees) through a pointer-to-const parameter, following casts and callees."""
    rr = RuleResult(rule, 'operand immutability: no write effect on any pointer-to-const parameter, through casts and callees')
    eff = ctx.effects(prog)
    for f in sorted(prog.all_funcs(), key=lambda f: (f.file, f.line)):
        S = eff.of(f)
        for i, pa in enumerate(f.params):
            if not pointee_is_const(pa.type):
                continue
            rr.instances += 1
            bad = None
            for (r, part), site in list(S.writes.items()) + [(k, 'freed: ' + v) for k, v in S.frees.items()]:
                if r == ('p', i) and part != 'win':
                    bad = (part, site)
                    break
            rr.ob(bad is None, dict(function=f.name, parameter=pa.name, type=pa.type, verdict='no write effect') if rr.instances % 9 == 1 else {'function': f.name, 'parameter': pa.name},
                  Finding(rule, '%s|%s|%s' % (rule, f.name, pa.name), f.loc, f.name,
                          'const operand `%s` (%s) of %s may be modified (%s): %s' % (pa.name, pa.type, f.name, bad[0] if bad else '', bad[1] if bad else ''),
                          dict(chain=bad[1] if bad else ''), label))
    rr.require_floor(150, 'pointer-to-const parameters')
    return rr


def rule_A1x(ctx, prog, label, operands, rule='A1x'):
    """Named operands (function, parameter index) have no write/free effect - whether or not they are declared const."""
    rr = RuleResult(rule, 'named input operands have no write or free effect, through casts and callees, whatever their declared qualifier')
    eff = ctx.effects(prog)
    for (fname, i) in operands:
        f = prog.funcs.get(fname)
        if f is None or f.body is None or i >= len(f.params):
            raise AnalysisBroken('A1x: %s / parameter %d vanished' % (fname, i))
        S = eff.of(f)
        pa = f.params[i]
        rr.instances += 1
        bad = None
        for (r, part), site in list(S.writes.items()) + [(k, 'freed: ' + v) for k, v in S.frees.items()]:
            if r == ('p', i) and part != 'win':
                bad = (part, site)
                break
        rr.ob(bad is None, dict(function=f.name, parameter=pa.name, type=pa.type, verdict='no write effect'),
              Finding(rule, '%s|%s|%s' % (rule, f.name, pa.name), f.loc, f.name,
                      'input operand `%s` of %s may be modified (%s): %s' % (pa.name, f.name, bad[0] if bad else '', bad[1] if bad else ''),
                      dict(chain=bad[1] if bad else ''), label))
    return rr


def rule_A2(ctx, prog, label, rule='A2'):
    """The mzd_t header fields are assigned only inside the two constructors; the constructors agree on how
    width and high_bitmask derive from ncols; rowstride is even in mzd_init and copied in mzd_init_window."""
    rr = RuleResult(rule, 'header ownership: mzd_t fields are written only by mzd_init / mzd_init_window, which agree on width and mask')
    writers = {}
    for f in prog.all_funcs():
        for n in f.body.walk():
            lhs = None
            if n.kind == 'BinaryOperator' and n.op == '=':
                lhs = n.kids[0]
            elif n.kind == 'CompoundAssignOperator' or (n.kind == 'UnaryOperator' and n.op in ('++', '--')):
                lhs = n.kids[0]
            if lhs is None:
                continue
            l = strip(lhs, casts=True)
            if l.kind == 'MemberExpr' and l.name in HEADER_FIELDS:
                bt = (l.kids[0].type or '') + ' ' + (l.kids[0].dtype or '')
                if 'mzd_t' in bt and 'cache' not in bt:
                    writers.setdefault(l.name, []).append((f.name, n))
    # helpers that are only ever called from the constructors count as part of them (refactoring-neutral)
    ctor = set(CONSTRUCTORS)
    callers = {}
    for f in prog.all_funcs():
        for c in f.body.find('CallExpr'):
            from .ast import callee_name
            cn = callee_name(c)
            if cn:
                callers.setdefault(cn, set()).add(f.name)
    grew = True
    while grew:
        grew = False
        for name, cs in callers.items():
            if name not in ctor and name in prog.funcs and prog.funcs[name].static and cs and cs <= ctor:
                ctor.add(name)
                grew = True
    owner_of = {}
    for h in ctor - set(CONSTRUCTORS):
        roots = set()
        for c0 in CONSTRUCTORS:
            seen, st = set(), [c0]
            while st:
                x = st.pop()
                if x in seen:
                    continue
                seen.add(x)
                for y, cs in callers.items():
                    if x in cs and y in ctor:
                        st.append(y)
            if h in seen:
                roots.add(c0)
        owner_of[h] = roots
    for fld in HEADER_FIELDS:
        ws = writers.get(fld, [])
        rr.instances += 1
        bad = [(fn, n) for fn, n in ws if fn not in ctor]
        inits = set()
        for fn, n in ws:
            inits |= ({fn} if fn in CONSTRUCTORS else owner_of.get(fn, set()))
        ok = not bad and set(CONSTRUCTORS) <= inits
        fn, n = bad[0] if bad else (None, None)
        rr.ob(ok, dict(field=fld, writers=sorted(inits)),
              Finding(rule, '%s|%s|%s' % (rule, fld, fn), n.loc if n is not None else 'm4ri/mzd.c', fn or '-',
                      ('header field `%s` is assigned outside the constructors (in %s): %s' % (fld, fn, pp(n)[:80])) if bad else
                      'header field `%s` is no longer assigned by both constructors' % fld, {}, label))
    # agreement of width / high_bitmask / flags derivation
    from .symbolic import FuncSym
    forms = {}
    for c in CONSTRUCTORS:
        f = prog.func(c)
        fs = FuncSym(f)
        for fld in ('width', 'high_bitmask'):
            for fn, n in writers.get(fld, []):
                if (fn == c or c in owner_of.get(fn, ())) and n.kind == 'BinaryOperator':
                    wf = prog.func(fn)
                    wfs = fs if fn == c else FuncSym(wf)
                    pidx = dict((p_.id, i) for i, p_ in enumerate(wf.params))
                    t = _canon(n.kids[1], wfs, pidx)
                    if fn == 'mzd_init_window':
                        t = t.replace('(P4-P2)', 'n')
                    elif fn == 'mzd_init':
                        t = t.replace('P1', 'n')
                    else:
                        t = _normalise(pp(strip(n.kids[1], casts=True)))
                    forms.setdefault(fld, {})[c] = t
    for fld in ('width', 'high_bitmask'):
        rr.instances += 1
        a = forms.get(fld, {}).get('mzd_init')
        b = forms.get(fld, {}).get('mzd_init_window')
        ok = a is not None and a == b
        rr.ob(ok, dict(field=fld, mzd_init=a, mzd_init_window=b),
              Finding(rule, '%s|agree|%s' % (rule, fld), prog.func('mzd_init_window').loc, 'mzd_init_window',
                      'the constructors derive `%s` differently from the column count: mzd_init `%s` vs mzd_init_window `%s`' % (fld, a, b), {}, label))
    # excess flag: a window is flagged exactly when its own column count is not a multiple of 64 - no further condition
    # (mzd_is_dangerous_window, the only guard of the raw kernels, relies on it)
    fw = prog.func('mzd_init_window')
    fsw = FuncSym(fw)
    rr.instances += 1
    okf, whyf = False, 'no statement sets mzd_flag_nonzero_excess'
    for n in fw.body.walk():
        if n.kind in ('CompoundAssignOperator', 'BinaryOperator') and n.op in ('|=', '=') and 'mzd_flag_nonzero_excess' in pp(n.kids[1]):
            l = strip(n.kids[0], casts=True)
            if l.kind == 'DeclRefExpr' and l.refkind == 'VarDecl':
                # the flags are collected in a local that is then stored into ->flags
                flows = any(m_.kind == 'BinaryOperator' and m_.op == '=' and strip(m_.kids[0], casts=True).kind == 'MemberExpr' and
                            strip(m_.kids[0], casts=True).name == 'flags' and strip(m_.kids[1], casts=True).kind == 'DeclRefExpr' and
                            strip(m_.kids[1], casts=True).refid == l.refid for m_ in fw.body.walk())
                if not flows:
                    continue
            elif not (l.kind == 'MemberExpr' and l.name == 'flags'):
                continue
            ifs = fsw.enclosing(n, ('IfStmt',))
            if ifs is None:
                # unconditional (e.g. via ?: on high_bitmask) - accept the mzd_init idiom
                okf, whyf = ('?' in pp(n.kids[1])), 'set unconditionally'
                continue
            c = strip(ifs.kids[0], casts=True)
            if c.kind == 'BinaryOperator' and c.op == '!=' and int_value(c.kids[1]) == 0:
                c = strip(c.kids[0], casts=True)
            for _ in range(3):
                if c.kind == 'DeclRefExpr' and c.refkind == 'VarDecl' and fsw.single_def(c.refid) is not None:
                    c = strip(fsw.single_def(c.refid), casts=True)
            if c.kind == 'BinaryOperator' and c.op == '%' and (int_value(c.kids[1]) == 64 or pp(strip(c.kids[1], casts=True)) == 'm4ri_radix'):
                x = fsw.sym(c.kids[0])
                from .symbolic import Lin
                if x == Lin.atom('highc') - Lin.atom('lowc'):
                    okf, whyf = True, 'guarded by (highc - lowc) % 64 != 0 only'
                else:
                    okf, whyf = False, 'guarded by `%s`, not by the window\'s own column count' % pp(ifs.kids[0])
            else:
                okf, whyf = False, 'guarded by `%s`: the flag must depend only on (highc - lowc) %% 64' % pp(ifs.kids[0])
    rr.ob(okf, dict(obligation='excess flag of windows', verdict=whyf),
          Finding(rule, '%s|flags|nonzero_excess' % rule, fw.loc, 'mzd_init_window',
                  'mzd_init_window: mzd_flag_nonzero_excess is %s - a window whose last word holds foreign bits is then not recognised by mzd_is_dangerous_window' % whyf, {}, label))
    # rowstride: even in mzd_init, copied in mzd_init_window
    rs = {}
    for fn, n in writers.get('rowstride', []):
        if n.kind == 'BinaryOperator':
            rhs_ = strip(n.kids[1], casts=True)
            wfs_ = FuncSym(prog.func(fn))
            for _ in range(3):      # a value prepared in a const local stands for its definition
                if rhs_.kind == 'DeclRefExpr' and rhs_.refkind == 'VarDecl' and wfs_.single_def(rhs_.refid) is not None:
                    rhs_ = strip(wfs_.single_def(rhs_.refid), casts=True)
            for c0 in ([fn] if fn in CONSTRUCTORS else sorted(owner_of.get(fn, ()))):
                rs[c0] = pp(rhs_)
    rr.instances += 2
    rr.ob('rowstride' in rs.get('mzd_init_window', '') and '->' in rs.get('mzd_init_window', ''),
          dict(field='rowstride', mzd_init_window=rs.get('mzd_init_window')),
          Finding(rule, '%s|rowstride|window' % rule, prog.func('mzd_init_window').loc, 'mzd_init_window',
                  'a window no longer copies its parent\'s rowstride: `%s`' % rs.get('mzd_init_window'), {}, label))
    e = rs.get('mzd_init', '')
    even = ('& 1' in e or '% 2' in e or '* 2' in e or '<< 1' in e)
    rr.ob(even, dict(field='rowstride', mzd_init=e),
          Finding(rule, '%s|rowstride|even' % rule, prog.func('mzd_init').loc, 'mzd_init',
                  'mzd_init no longer rounds rowstride to an even number of words (`%s`): rows of owners lose their 16-byte phase' % e, {}, label))
    return rr


def _canon(e, fs, pidx, depth=0):
    """fully parenthesised canonical text: casts and parentheses dropped, parameters printed as P<i>, locals that are
    defined once replaced by their definition - so that hoisting a sub-expression into a const local changes nothing"""
    e0 = strip(e, casts=True)
    if e0 is None:
        return '?'
    v = int_value(e0)
    if v is not None:
        return str(v)
    k = e0.kind
    if k == 'DeclRefExpr':
        if e0.ref == 'm4ri_radix':
            return '64'
        if e0.refid in pidx:
            return 'P%d' % pidx[e0.refid]
        if e0.refkind == 'VarDecl' and depth < 5:
            d = fs.single_def(e0.refid)
            if d is not None:
                return _canon(d, fs, pidx, depth + 1)
        return e0.ref or '?'
    if k == 'MemberExpr':
        return _canon(e0.kids[0], fs, pidx, depth) + ('->' if e0.arrow else '.') + (e0.name or '?')
    if k in ('BinaryOperator', 'CompoundAssignOperator'):
        return '(' + _canon(e0.kids[0], fs, pidx, depth) + e0.op + _canon(e0.kids[1], fs, pidx, depth) + ')'
    if k == 'UnaryOperator':
        return '(' + e0.op + _canon(e0.kids[0], fs, pidx, depth) + ')'
    if k == 'ConditionalOperator':
        return '(' + '?'.join(_canon(x, fs, pidx, depth) for x in e0.kids[:1]) + '?' + _canon(e0.kids[1], fs, pidx, depth) + ':' + _canon(e0.kids[2], fs, pidx, depth) + ')'
    if k == 'CallExpr':
        return (callee_name_(e0) or '?') + '(' + ','.join(_canon(a, fs, pidx, depth) for a in e0.kids[1:]) + ')'
    return pp(e0).replace(' ', '')


def callee_name_(c):
    from .ast import callee_name
    return callee_name(c)


def _normalise(txt):
    """Rename the column-count expression to `n` so that both constructors can be compared."""
    import re
    t = txt.replace(' ', '')
    t = t.replace('(highc-lowc)', 'n')
    t = re.sub(r'\bncols\b', 'n', t)
    t = re.sub(r'\bc\b', 'n', t)
    return t


# ====================================================================== A2i: a recycled header carries nothing over (C14)

def rule_A2i(ctx, prog, label, rule='A2i', ctors=CONSTRUCTORS):
    """mzd_t_malloc hands out header slots that previous matrices used and does not clear them: in each constructor every
    header field is plainly assigned on every path before it is read (a compound assignment reads) and before the header
    is returned or handed to another function."""
    from .cfg import cfg_of, forward
    from .ast import callee_name
    rr = RuleResult(rule, 'a header slot from mzd_t_malloc keeps nothing of its previous user: every field is assigned before it is read and before the constructor returns')
    ALL = frozenset(HEADER_FIELDS)
    for c in ctors:
        f = prog.funcs.get(c)
        if f is None or f.body is None:
            raise AnalysisBroken('%s: constructor %s no longer exists' % (rule, c))
        hv = None
        for n in f.body.walk():
            init = None
            if n.kind == 'VarDecl' and n.kids:
                init, vid = n.kids[-1], n.id
            elif n.kind == 'BinaryOperator' and n.op == '=' and strip(n.kids[0], casts=True).kind == 'DeclRefExpr':
                init, vid = n.kids[1], strip(n.kids[0], casts=True).refid
            if init is not None:
                i0 = strip(init, casts=True)
                if i0 is not None and i0.kind == 'CallExpr' and callee_name(i0) == 'mzd_t_malloc':
                    hv = vid
        if hv is None:
            raise AnalysisBroken('%s: %s no longer takes its header from mzd_t_malloc' % (rule, c))
        g = cfg_of(f)

        def is_hv(e):
            e = strip(e, casts=True)
            return e is not None and e.kind == 'DeclRefExpr' and e.refid == hv

        def events(ast):
            """[(kind, field, node)] in evaluation order: reads before the assignment they feed"""
            ev = []

            def go(n, lhs_of_plain=False):
                if n is None:
                    return
                if n.kind == 'BinaryOperator' and n.op == '=':
                    l = strip(n.kids[0], casts=True)
                    go(n.kids[1])
                    if l.kind == 'MemberExpr' and is_hv(l.kids[0]) and l.name in ALL:
                        ev.append(('def', l.name, n))
                    else:
                        go(n.kids[0])
                    return
                if n.kind == 'MemberExpr' and is_hv(n.kids[0]) and n.name in ALL:
                    ev.append(('use', n.name, n))
                    return
                if n.kind == 'CallExpr':
                    for a in n.kids[1:]:
                        if is_hv(a):
                            ev.append(('escape', None, n))
                if n.kind == 'ReturnStmt' and n.kids and is_hv(n.kids[0]):
                    ev.append(('escape', None, n))
                for k in n.kids:
                    go(k)
            go(ast)
            return ev

        IN = forward(g, ALL, lambda cn, st: _a2i_quiet(cn, st, hv, ALL, events, is_hv), lambda a, b: a & b)
        for cn in g.nodes:
            if cn.ast is None or cn.id not in IN:
                continue
            st = IN[cn.id]
            for n in cn.ast.walk():
                if (n.kind == 'VarDecl' and n.id == hv) or (n.kind == 'BinaryOperator' and n.op == '=' and is_hv(n.kids[0])):
                    st = frozenset()
            for (k, fld, n) in events(cn.ast):
                rr.instances += 1
                if k == 'def':
                    st = st | {fld}
                    rr.ob(True, dict(constructor=c, field=fld, assigned_by=pp(n)[:70]))
                elif k == 'use':
                    rr.ob(fld in st, None, Finding(rule, '%s|%s|%s|read' % (rule, c, fld), n.loc, c,
                          'field `%s` of the new header is read in `%s` before it is assigned: it still holds what the previous user of the '
                          'slot left there (mzd_t_malloc does not clear recycled headers)' % (fld, pp(cn.ast)[:70]), {}, label))
                else:
                    miss = sorted(ALL - st)
                    rr.ob(not miss, dict(constructor=c, leaves_by=pp(cn.ast)[:50], all_fields_assigned=True),
                          Finding(rule, '%s|%s|%s|unassigned' % (rule, c, ','.join(miss)), n.loc, c,
                                  'the new header leaves %s through `%s` with %s not assigned on some path: it keeps the previous user\'s '
                                  'value' % (c, pp(cn.ast)[:50], ', '.join('`%s`' % x for x in miss)), {}, label))
    rr.require_floor(2 * len(HEADER_FIELDS), 'header field events')
    return rr


def _a2i_quiet(cn, st, hv, ALL, events, is_hv):
    if cn.ast is None:
        return st
    for n in cn.ast.walk():
        if (n.kind == 'VarDecl' and n.id == hv) or (n.kind == 'BinaryOperator' and n.op == '=' and is_hv(n.kids[0])):
            st = frozenset()
    for (k, fld, n) in events(cn.ast):
        if k == 'def':
            st = st | {fld}
    return st
