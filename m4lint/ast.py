"""Compact AST node + helpers (built from clang -ast-dump=json)."""

import os
REPO = os.environ.get('M4LINT_REPO', '/repo')


class Node(object):
    __slots__ = ('kind', 'file', 'line', 'col', 'type', 'dtype', 'name', 'op', 'val', 'ref',
                 'refkind', 'refid', 'id', 'cast', 'arrow', 'postfix', 'kids', 'macro',
                 'storage', 'inline', 'init', 'endline', 'uid')

    def __init__(self):
        for s in self.__slots__:
            setattr(self, s, None)
        self.kids = []

    def __repr__(self):
        return '<%s %s:%s %s>' % (self.kind, (self.file or '').split('/')[-1], self.line, pp(self)[:60])

    # convenience ------------------------------------------------------------------
    def walk(self):
        st = [self]
        while st:
            n = st.pop()
            yield n
            st.extend(reversed(n.kids))

    def find(self, kind):
        return [n for n in self.walk() if n.kind == kind]

    @property
    def loc(self):
        f = self.file or '?'
        if f.startswith(REPO + '/'):
            f = f[len(REPO) + 1:]
        return '%s:%s' % (f, self.line)


TRANSPARENT = ('ImplicitCastExpr', 'ParenExpr', 'ConstantExpr')


def strip(n, casts=False):
    """Drop parens and implicit casts (and explicit casts when casts=True)."""
    while n is not None and (n.kind in TRANSPARENT or (casts and n.kind == 'CStyleCastExpr')) and n.kids:
        n = n.kids[0]
    return n


def callee_name(call):
    """Name of the directly called function of a CallExpr, or None for indirect calls."""
    f = strip(call.kids[0])
    if f.kind == 'DeclRefExpr' and f.refkind == 'FunctionDecl':
        return f.ref
    return None


def call_args(call):
    return call.kids[1:]


def is_null(n):
    n = strip(n, casts=True)
    if n is None:
        return False
    if n.kind == 'IntegerLiteral' and n.val == '0':
        return True
    if n.kind == 'GNUNullExpr':
        return True
    return False


def int_value(n):
    """Constant-fold small integer expressions; None if not constant."""
    n = strip(n, casts=True)
    if n is None:
        return None
    if n.kind == 'IntegerLiteral':
        try:
            return int(n.val)
        except Exception:
            return None
    if n.kind == 'CharacterLiteral':
        return int(n.val)
    if n.kind == 'DeclRefExpr' and n.ref == 'm4ri_radix':
        return 64
    if n.kind == 'DeclRefExpr' and n.refkind == 'EnumConstantDecl':
        return ENUMS.get(n.ref)
    if n.kind == 'UnaryOperator' and n.op in ('-', '+', '~', '!'):
        v = int_value(n.kids[0])
        if v is None:
            return None
        return {'-': -v, '+': v, '~': ~v, '!': int(not v)}[n.op]
    if n.kind == 'BinaryOperator':
        a = int_value(n.kids[0])
        b = int_value(n.kids[1])
        if a is None or b is None:
            return None
        try:
            return {'+': a + b, '-': a - b, '*': a * b, '/': (abs(a) // abs(b)) * (1 if (a >= 0) == (b >= 0) else -1) if b else None,
                    '%': (abs(a) % abs(b)) * (1 if a >= 0 else -1) if b else None, '<<': a << b if 0 <= b < 200 else None,
                    '>>': a >> b if 0 <= b < 200 else None, '&': a & b, '|': a | b, '^': a ^ b,
                    '<': int(a < b), '>': int(a > b), '<=': int(a <= b), '>=': int(a >= b),
                    '==': int(a == b), '!=': int(a != b), '&&': int(bool(a) and bool(b)),
                    '||': int(bool(a) or bool(b))}.get(n.op)
        except Exception:
            return None
    if n.kind == 'ConditionalOperator':
        c = int_value(n.kids[0])
        if c is None:
            return None
        return int_value(n.kids[1] if c else n.kids[2])
    if n.kind == 'UnaryExprOrTypeTraitExpr' and n.name == 'sizeof':
        t = n.val or (n.kids[0].type if n.kids else None)
        return SIZEOF.get(t)
    return None


ENUMS = {}
SIZEOF = {'word': 8, 'uint64_t': 8, 'rci_t': 4, 'wi_t': 4, 'int': 4, 'long': 8, 'char': 1,
          'unsigned char': 1, 'uint8_t': 1, 'size_t': 8, 'unsigned long': 8, 'double': 8,
          'word *': 8, 'mzd_t *': 8, 'void *': 8, 'rci_t *': 8, 'srctyp_t': 4, 'int *': 8,
          '__m128i': 16}

_BINPREC = {'*': 10, '/': 10, '%': 10, '+': 9, '-': 9, '<<': 8, '>>': 8, '<': 7, '>': 7, '<=': 7, '>=': 7,
            '==': 6, '!=': 6, '&': 5, '^': 4, '|': 3, '&&': 2, '||': 1}


def pp(n, depth=0):
    """Pretty-print an expression / statement head as C-like text (for reports and keys)."""
    if n is None:
        return ''
    if depth > 40:
        return '...'
    k = n.kind
    d = depth + 1
    if k in ('ImplicitCastExpr', 'ConstantExpr'):
        return pp(n.kids[0], d) if n.kids else ''
    if k == 'ParenExpr':
        return '(' + pp(n.kids[0], d) + ')'
    if k == 'DeclRefExpr':
        return n.ref or '?'
    if k in ('IntegerLiteral', 'FloatingLiteral', 'CharacterLiteral'):
        return str(n.val)
    if k == 'StringLiteral':
        return str(n.val)
    if k == 'MemberExpr':
        return pp(n.kids[0], d) + ('->' if n.arrow else '.') + (n.name or '?')
    if k == 'ArraySubscriptExpr':
        return pp(n.kids[0], d) + '[' + pp(n.kids[1], d) + ']'
    if k == 'UnaryOperator':
        if n.postfix:
            return pp(n.kids[0], d) + n.op
        return n.op + pp(n.kids[0], d)
    if k in ('BinaryOperator', 'CompoundAssignOperator'):
        return pp(n.kids[0], d) + ' ' + n.op + ' ' + pp(n.kids[1], d)
    if k == 'ConditionalOperator':
        return pp(n.kids[0], d) + ' ? ' + pp(n.kids[1], d) + ' : ' + pp(n.kids[2], d)
    if k == 'CallExpr':
        return pp(n.kids[0], d) + '(' + ', '.join(pp(a, d) for a in n.kids[1:]) + ')'
    if k == 'CStyleCastExpr':
        return '(' + (n.type or '?') + ')' + pp(n.kids[0], d)
    if k == 'UnaryExprOrTypeTraitExpr':
        return (n.name or 'sizeof') + '(' + (n.val or (pp(n.kids[0], d) if n.kids else '')) + ')'
    if k == 'DeclStmt':
        return '; '.join(pp(c, d) for c in n.kids)
    if k == 'VarDecl':
        s = (n.type or '') + ' ' + (n.name or '')
        if n.kids:
            s += ' = ' + pp(n.kids[-1], d)
        return s
    if k == 'ReturnStmt':
        return 'return ' + (pp(n.kids[0], d) if n.kids else '')
    if k == 'IfStmt':
        return 'if (' + pp(n.kids[0], d) + ')'
    if k == 'ForStmt':
        return 'for (...; ' + pp(n.kids[2], d) + '; ...)'
    if k == 'WhileStmt':
        return 'while (' + pp(n.kids[-2], d) + ')'
    if k == 'DoStmt':
        return 'do ... while (' + pp(n.kids[-1], d) + ')'
    if k == 'SwitchStmt':
        return 'switch (' + pp(n.kids[-2], d) + ')'
    if k == 'CaseStmt':
        return 'case ' + pp(n.kids[0], d) + ':'
    if k == 'DefaultStmt':
        return 'default:'
    if k == 'InitListExpr':
        return '{' + ', '.join(pp(c, d) for c in n.kids) + '}'
    if k == 'CompoundStmt':
        return '{...}'
    if k in ('BreakStmt', 'ContinueStmt', 'NullStmt'):
        return {'BreakStmt': 'break', 'ContinueStmt': 'continue', 'NullStmt': ';'}[k]
    if k == 'GotoStmt':
        return 'goto ' + (n.name or '?')
    if k == 'LabelStmt':
        return (n.name or '?') + ':'
    if k == 'StmtExpr':
        return '({...})'
    return k


def type_is_pointer(t):
    return bool(t) and t.rstrip().endswith('*')


def pointee_is_const(t):
    """'mzd_t const *', 'const mzd_t *', 'const word *const' ... -> True if pointee const."""
    if not t or '*' not in t:
        return False
    base = t[:t.rindex('*')]
    # only top-level pointee qualifiers: look at the part after any earlier '*'
    last = base.rsplit('*', 1)[-1] if '*' in base else base
    return 'const' in last.split()
