"""Front end: clang-14 -ast-dump=json per (TU, configuration) -> compact program model.

Everything is derived from /repo's *current* working tree on every run; the model is cached
under /verif/.cache keyed by the SHA-256 of every input file, so an edited tree is re-analysed.
"""
import hashlib
import json
import os
import pickle
import re
import subprocess
import sys
import time
from concurrent.futures import ProcessPoolExecutor

from .ast import Node, REPO

VERIF = os.path.dirname(os.path.dirname(os.path.abspath(__file__)))
CACHE = os.path.join(VERIF, '.cache')
FRONTEND_VERSION = '16'


class AnalysisBroken(Exception):
    """Exit 2: the analysis itself cannot be carried out (not a verdict on the code)."""


# ------------------------------------------------------------------ configurations

HOST_DEFAULT = dict(sse2=1, openmp=0, mmc=1, mzdcache=1, l1=32768, l2=1310720, l3=56623104)


def host_config():
    """Configuration found in /repo/m4ri/m4ri_config.h (host default if absent)."""
    cfg = dict(HOST_DEFAULT)
    p = os.path.join(REPO, 'm4ri', 'm4ri_config.h')
    if os.path.exists(p):
        txt = open(p).read()
        for key, macro in (('sse2', '__M4RI_HAVE_SSE2'), ('openmp', '__M4RI_HAVE_OPENMP'),
                           ('mmc', '__M4RI_ENABLE_MMC'), ('mzdcache', '__M4RI_ENABLE_MZD_CACHE'),
                           ('l1', '__M4RI_CPU_L1_CACHE'), ('l2', '__M4RI_CPU_L2_CACHE'),
                           ('l3', '__M4RI_CPU_L3_CACHE')):
            m = re.search(r'#define\s+%s\s+(\d+)' % macro, txt)
            if m:
                cfg[key] = int(m.group(1))
    return cfg


def cfg_id(cfg):
    return 'sse%d_omp%d_mmc%d_mzc%d_L%d_%d_%d' % (cfg['sse2'], cfg['openmp'], cfg['mmc'], cfg['mzdcache'],
                                                   cfg['l1'], cfg['l2'], cfg['l3'])


SMALL = (4096, 32768, 65536)


def with_caches(cfg, triple):
    c = dict(cfg)
    c['l1'], c['l2'], c['l3'] = triple
    return c


def legal_configs():
    """All (SSE2, OPENMP, MMC, MZD_CACHE) combinations configure.ac can produce, x 2 cache triples."""
    host = host_config()
    out = []
    for sse in (1, 0):
        for omp in (0, 1):
            for mmc, mzc in ((1, 1), (0, 0), (1, 0)):
                if omp and mzc:
                    continue  # configure.ac: OpenMP => MZD_CACHE=0
                if (mmc, mzc) == (1, 0) and not omp:
                    continue  # (1,0) only arises from OpenMP
                for triple in ((host['l1'], host['l2'], host['l3']), SMALL):
                    out.append(dict(sse2=sse, openmp=omp, mmc=mmc, mzdcache=mzc,
                                    l1=triple[0], l2=triple[1], l3=triple[2]))
    return out


def thread_safe_configs():
    host = host_config()
    return [dict(sse2=s, openmp=0, mmc=0, mzdcache=0, l1=host['l1'], l2=host['l2'], l3=host['l3']) for s in (1, 0)]


def openmp_configs():
    host = host_config()
    return [dict(sse2=s, openmp=1, mmc=1, mzdcache=0, l1=host['l1'], l2=host['l2'], l3=host['l3']) for s in (1, 0)]


def write_cfg_header(cfg, path):
    """Generate the configuration header from the repo's own template m4ri_config.h.in."""
    tpl_path = os.path.join(REPO, 'm4ri', 'm4ri_config.h.in')
    if not os.path.exists(tpl_path):
        raise AnalysisBroken('anchor vanished: m4ri/m4ri_config.h.in')
    tpl = open(tpl_path).read()
    subst = {
        'M4RI_HAVE_MM_MALLOC': '1', 'M4RI_HAVE_POSIX_MEMALIGN': '1',
        'M4RI_HAVE_SSE2': str(cfg['sse2']), 'M4RI_HAVE_OPENMP': str(cfg['openmp']),
        'M4RI_CPU_L1_CACHE': str(cfg['l1']), 'M4RI_CPU_L2_CACHE': str(cfg['l2']),
        'M4RI_CPU_L3_CACHE': str(cfg['l3']), 'M4RI_DEBUG_DUMP': '0', 'M4RI_DEBUG_MZD': '0',
        'M4RI_HAVE_LIBPNG': '1', 'CC': 'clang', 'SIMD_FLAGS': '', 'OPENMP_CFLAGS': '', 'CFLAGS': '',
        'M4RI_ENABLE_MZD_CACHE': str(cfg['mzdcache']), 'M4RI_ENABLE_MMC': str(cfg['mmc']),
    }

    def rep(m):
        k = m.group(1)
        if k not in subst:
            raise AnalysisBroken('unknown slot @%s@ in m4ri_config.h.in' % k)
        return subst[k]
    txt = re.sub(r'@([A-Za-z0-9_]+)@', rep, tpl)
    tmp = '%s.%d.tmp' % (path, os.getpid())
    with open(tmp, 'w') as f:
        f.write(txt)
    os.replace(tmp, path)


def library_units():
    """libm4ri_la_SOURCES from Makefile.am; any m4ri/*.c not listed is reported."""
    mk = os.path.join(REPO, 'Makefile.am')
    if not os.path.exists(mk):
        raise AnalysisBroken('anchor vanished: Makefile.am')
    txt = open(mk).read()
    m = re.search(r'libm4ri_la_SOURCES\s*=\s*((?:.*\\\n)*.*)', txt)
    if not m:
        raise AnalysisBroken('libm4ri_la_SOURCES not found in Makefile.am')
    units = [w for w in m.group(1).replace('\\\n', ' ').split() if w.endswith('.c')]
    on_disk = sorted('m4ri/' + f for f in os.listdir(os.path.join(REPO, 'm4ri')) if f.endswith('.c'))
    unlisted = [u for u in on_disk if u not in units]
    missing = [u for u in units if not os.path.exists(os.path.join(REPO, u))]
    if missing:
        raise AnalysisBroken('listed sources missing: %s' % missing)
    return units, unlisted


def tree_hash():
    h = hashlib.sha256()
    h.update(FRONTEND_VERSION.encode())
    files = [os.path.join(REPO, 'Makefile.am'), os.path.join(REPO, 'configure.ac')]
    d = os.path.join(REPO, 'm4ri')
    for f in sorted(os.listdir(d)):
        if f.endswith(('.c', '.h', '.in')):
            files.append(os.path.join(d, f))
    for f in files:
        if os.path.exists(f):
            h.update(f.encode())
            h.update(open(f, 'rb').read())
    me = os.path.dirname(os.path.abspath(__file__))
    for f in ('frontend.py', 'ast.py'):
        h.update(open(os.path.join(me, f), 'rb').read())
    return h.hexdigest()[:24]


def clang_flags(cfg, cfg_header, ndebug=True):
    fl = ['-std=gnu11', '-fsyntax-only', '-DHAVE_CONFIG_H', '-I' + REPO, '-I' + REPO + '/m4ri',
          '-I/usr/include/libpng16', '-include', cfg_header, '-Wno-everything',
          '-Werror=implicit-function-declaration']
    if cfg['sse2']:
        fl.append('-msse2')
    if cfg['openmp']:
        fl.append('-fopenmp')
    if not ndebug:
        fl += ['-UNDEBUG', '-DM4LINT_KEEP_ASSERT']
    return fl


# ------------------------------------------------------------------ reduction

_KEEP_SYS_BODY = False


class _Loc(object):
    def __init__(self):
        self.file = None
        self.line = None

    def bare(self, d):
        if 'file' in d:
            self.file = d['file']
        if 'line' in d:
            self.line = d['line']
        return self.file, self.line, d.get('col')

    def loc(self, d):
        """d is a location object: bare, or {spellingLoc, expansionLoc}. Returns (file,line,col,macro)."""
        if not d:
            return None
        if 'spellingLoc' in d or 'expansionLoc' in d:
            r = None
            if 'spellingLoc' in d:
                self.bare(d['spellingLoc'])
            if 'expansionLoc' in d:
                r = self.bare(d['expansionLoc'])
            else:
                r = (self.file, self.line, None)
            return r + (True,)
        if 'offset' in d or 'line' in d or 'col' in d or 'file' in d:
            return self.bare(d) + (False,)
        return None


def _unconst_ptr(t):
    """`T *const` -> `T *`: whether the pointer variable itself may be reassigned is irrelevant to every rule (mutation is
    read off the assignments), and the engines recognise pointers by the trailing `*`.  Only the top-level const is dropped."""
    if t and t.endswith('const'):
        u = t[:-5].rstrip()
        if u.endswith('*'):
            return u
    return t


def _reduce(j, L, counter):
    """json dict -> Node (recursively), tracking clang's stateful file/line encoding."""
    n = Node()
    n.kind = j.get('kind')
    if n.kind is None:
        n.kind = 'Null'
        return n
    counter[0] += 1
    n.uid = counter[0]
    r = None
    if 'loc' in j:
        r = L.loc(j['loc'])
    rb = None
    if 'range' in j:
        rb = L.loc(j['range'].get('begin'))
        re_ = L.loc(j['range'].get('end'))
        if re_:
            n.endline = re_[1]
    use = r if (r and n.kind.endswith('Decl')) else (rb or r)
    if use:
        n.file, n.line, n.col, n.macro = use[0], use[1], use[2], use[3]
    t = j.get('type')
    if t:
        n.type = _unconst_ptr(t.get('qualType'))
        n.dtype = _unconst_ptr(t.get('desugaredQualType'))
    n.name = j.get('name')
    n.op = j.get('opcode')
    if 'value' in j:
        n.val = j['value']
    rd = j.get('referencedDecl')
    if rd:
        n.ref = rd.get('name')
        n.refkind = rd.get('kind')
        n.refid = rd.get('id')
    if n.kind.endswith('Decl') or n.kind == 'LabelStmt':
        n.id = j.get('id')
    if n.kind == 'LabelStmt':
        n.refid = j.get('declId')
    if n.kind == 'GotoStmt':
        n.refid = j.get('targetLabelDeclId')
    n.cast = j.get('castKind')
    if 'isArrow' in j:
        n.arrow = j['isArrow']
    if j.get('isPostfix'):
        n.postfix = True
    if 'storageClass' in j:
        n.storage = j['storageClass']
    if j.get('inline'):
        n.inline = True
    if 'init' in j:
        n.init = j['init']
    if n.kind == 'UnaryExprOrTypeTraitExpr':
        at = j.get('argType')
        if at:
            n.val = at.get('qualType')
    if n.kind == 'IfStmt' and j.get('hasElse'):
        n.val = 'else'
    if n.kind == 'StringLiteral':
        n.val = j.get('value')
    if n.kind == 'FieldDecl' and j.get('isBitfield'):
        n.val = 'bitfield'
    for c in j.get('inner', []):
        ck = c.get('kind')
        if ck and (ck.endswith('Comment') or ck.endswith('Attr')):
            if ck.endswith('Attr'):
                n.val = ((n.val + ' ') if isinstance(n.val, str) else '') + ck if n.kind.endswith('Decl') else n.val
            continue
        n.kids.append(_reduce(c, L, counter))
    if n.kind == 'CapturedDecl':
        # clang lists the captured region's local declarations again as children: keep the statement only
        n.kids = [k for k in n.kids if k.kind not in ('VarDecl', 'ImplicitParamDecl')]
    if n.kind.startswith('OMP') and n.kind.endswith('Directive'):
        # drop the helper expressions (captured variable references, loop bookkeeping) after the associated statement
        n.kids = [k for k in n.kids if k.kind in ('CapturedStmt', 'CompoundStmt', 'ForStmt') or k.kind.startswith('OMP')]
    return n


def _parse_unit(args):
    unit, cfg, cfg_header, ndebug = args
    src = unit if os.path.isabs(unit) else os.path.join(REPO, unit)
    cmd = ['clang-14'] + clang_flags(cfg, cfg_header, ndebug) + ['-Xclang', '-ast-dump=json', src]
    p = subprocess.run(cmd, stdout=subprocess.PIPE, stderr=subprocess.PIPE)
    if p.returncode != 0:
        return unit, None, p.stderr.decode(errors='replace')[-3000:]
    j = json.loads(p.stdout)
    del p
    L = _Loc()
    counter = [0]
    decls = []
    nsys = 0
    for top in j.get('inner', []):
        # locate file first (stateful) by reducing; system function bodies are dropped afterwards
        n = _reduce(top, L, counter)
        infile = (n.file or '')
        if not infile.startswith(REPO + '/') and not (os.path.isabs(unit) and infile == unit):
            nsys += 1
            if n.kind == 'FunctionDecl':
                n.kids = [k for k in n.kids if k.kind == 'ParmVarDecl']
            elif n.kind not in ('VarDecl', 'EnumDecl'):
                continue
        decls.append(n)
    return unit, decls, None


class Func(object):
    def __init__(self, node, unit):
        self.node = node
        self.name = node.name
        self.file = node.file
        self.line = node.line
        self.unit = unit
        self.params = [k for k in node.kids if k.kind == 'ParmVarDecl']
        body = [k for k in node.kids if k.kind == 'CompoundStmt']
        self.body = body[0] if body else None
        self.static = node.storage == 'static'
        self.inline = bool(node.inline)
        self.rettype = (node.type or '').split('(')[0].strip()
        self.in_repo = (node.file or '').startswith(REPO + '/') or (node.file or '').startswith(os.path.join(VERIF, 'selftest'))

    @property
    def loc(self):
        return self.node.loc

    def __repr__(self):
        return '<Func %s %s>' % (self.name, self.loc)


class Program(object):
    """Merged model of all library translation units for one configuration."""

    def __init__(self, cfg):
        self.cfg = cfg
        self.cfg_id = cfg_id(cfg)
        self.funcs = {}       # name -> Func (with body, in repo)
        self.protos = {}      # name -> Func (no body; externals and forward decls)
        self.globals = {}     # name -> (VarDecl node, unit)  file-scope variables defined in repo files
        self.static_locals = []  # (Func, VarDecl node)
        self.records = {}     # name -> RecordDecl node
        self.alt = {}         # (name, file) -> Func for same-named static functions
        self.units = []
        self.unlisted = []
        self.dupes = []
        self.errors = {}
        self.enum = {}
        self.typedef_struct = {}

    def func(self, name):
        f = self.funcs.get(name)
        if f is None:
            raise AnalysisBroken('anchor function vanished: %s (config %s)' % (name, self.cfg_id))
        return f

    def resolve(self, name, caller=None):
        """Func called as `name` from `caller` (same-file static definition wins), or None."""
        if caller is not None and self.alt:
            f = self.alt.get((name, caller.file))
            if f is not None:
                return f
        return self.funcs.get(name)

    def all_funcs(self):
        seen = set()
        out = []
        for f in list(self.funcs.values()) + list(self.alt.values()):
            if id(f) not in seen:
                seen.add(id(f))
                out.append(f)
        return out

    def has(self, name):
        return name in self.funcs

    def repo_funcs(self):
        return [f for f in self.funcs.values() if f.in_repo]


_CLONE_N = [0]


def _clone(n, mapping, line, col, file):
    """deep copy of an expression; references to the helper's parameters are replaced by (copies of) the arguments"""
    from .ast import Node
    if n.kind == 'DeclRefExpr' and n.refid in mapping:
        return _clone(mapping[n.refid], {}, line, col, file)
    if n.kind == 'ImplicitCastExpr' and n.cast == 'LValueToRValue' and n.kids and n.kids[0].kind == 'DeclRefExpr' and n.kids[0].refid in mapping:
        # reading a parameter yields the argument's value: the argument expression is already an rvalue
        return _clone(mapping[n.kids[0].refid], {}, line, col, file)
    m = Node()
    for sl in Node.__slots__:
        if sl not in ('kids', 'uid'):
            setattr(m, sl, getattr(n, sl))
    _CLONE_N[0] += 1
    m.uid = -_CLONE_N[0]
    m.line, m.col, m.file = line, col, file
    m.kids = [_clone(c, mapping, line, col, file) for c in n.kids]
    return m


_KNOWN_NAMES = [None]


def known_names():
    """identifiers the rule code and the frozen tables mention: functions known to the rules by name are never expanded"""
    if _KNOWN_NAMES[0] is None:
        import re
        words = set()
        for d, pat in ((os.path.join(VERIF, 'm4lint'), '.py'), (os.path.join(VERIF, 'rules'), '.json')):
            for fn in os.listdir(d):
                if fn.endswith(pat):
                    words |= set(re.findall(r'[A-Za-z_][A-Za-z_0-9]{3,}', open(os.path.join(d, fn), errors='replace').read()))
        _KNOWN_NAMES[0] = words
    return _KNOWN_NAMES[0]


def _clone_stmt(n, mapping, idmap, pos):
    """deep copy of a statement tree: parameters in `mapping` are replaced by the arguments, declarations get fresh ids
    (idmap), nodes get fresh uids and increasing synthetic positions so that source order is preserved"""
    from .ast import Node
    if n.kind == 'DeclRefExpr' and n.refid in mapping:
        return _clone(mapping[n.refid], {}, pos[0], pos[1], pos[2])
    if n.kind == 'ImplicitCastExpr' and n.cast == 'LValueToRValue' and n.kids and n.kids[0].kind == 'DeclRefExpr' and n.kids[0].refid in mapping:
        return _clone(mapping[n.kids[0].refid], {}, pos[0], pos[1], pos[2])
    m = Node()
    for sl in Node.__slots__:
        if sl not in ('kids', 'uid'):
            setattr(m, sl, getattr(n, sl))
    _CLONE_N[0] += 1
    m.uid = -_CLONE_N[0]
    pos[1] += 1
    m.line, m.col, m.file = pos[0], pos[1], pos[2]
    if n.kind in ('VarDecl',) and n.id is not None:
        m.id = idmap.setdefault(n.id, '%s~%d' % (n.id, _CLONE_N[0]))
    if n.kind == 'DeclRefExpr' and n.refid in idmap:
        m.refid = idmap[n.refid]
        m.refkind = 'VarDecl'
    m.kids = [_clone_stmt(c, mapping, idmap, pos) for c in n.kids]
    return m


def inline_statement_helpers(prog):
    """Program normalisation, second kind: a call *statement* to a file-local `static void` helper that the rules do not know
    by name is replaced by a block holding a copy of the helper's body.  Parameters that the helper only reads are replaced by
    the arguments; parameters it modifies become locals of the block initialised with the arguments.  Helpers with early
    returns, labels or recursion are left alone.  The helper itself is no longer analysed on its own."""
    from .ast import Node
    known = known_names()
    helpers = {}
    for f in prog.all_funcs():
        b = f.body
        if not (f.static and (f.file or '').endswith('.c') and b is not None and f.rettype.replace('static', '').replace('inline', '').strip() == 'void'):
            continue
        if f.name in known:
            continue
        stmts = list(b.kids)
        if stmts and stmts[-1].kind == 'ReturnStmt' and not stmts[-1].kids:
            stmts = stmts[:-1]
        ok = True
        for st in stmts:
            for x in st.walk():
                if x.kind in ('ReturnStmt', 'LabelStmt', 'GotoStmt') or x.kind.startswith('OMP'):
                    ok = False
                if x.kind == 'DeclRefExpr' and x.refkind == 'FunctionDecl' and x.ref == f.name:
                    ok = False
                if x.kind == 'VarDecl' and x.storage == 'static':
                    ok = False
        if ok:
            helpers[(f.name, f.file)] = (f, stmts)
    done = set()
    for rounds in range(3):
        changed = False
        for f in prog.all_funcs():
            if f.body is None or (f.name, f.file) in helpers:
                continue
            for blk in f.body.walk():
                if blk.kind not in ('CompoundStmt', 'IfStmt', 'ForStmt', 'WhileStmt', 'DoStmt', 'CaseStmt', 'DefaultStmt'):
                    continue
                for n in blk.kids:
                    if n.kind != 'CallExpr' or not n.kids:
                        continue
                    # only full-expression statements: in a for header the call is kid 0 / 3, skip those
                    if blk.kind == 'ForStmt' and n is not blk.kids[-1]:
                        continue
                    if blk.kind in ('IfStmt', 'WhileStmt') and n is blk.kids[0]:
                        continue
                    c0 = n.kids[0]
                    while c0.kind in ('ImplicitCastExpr', 'ParenExpr') and c0.kids:
                        c0 = c0.kids[0]
                    if c0.kind != 'DeclRefExpr' or c0.refkind != 'FunctionDecl':
                        continue
                    h = helpers.get((c0.ref, f.file))
                    if h is None or len(n.kids) - 1 != len(h[0].params):
                        continue
                    g, stmts = h
                    pids = dict((p.id, p) for p in g.params)
                    modified = set()
                    for st in stmts:
                        for x in st.walk():
                            if (x.kind == 'BinaryOperator' and x.op == '=') or x.kind == 'CompoundAssignOperator' or (x.kind == 'UnaryOperator' and x.op in ('++', '--', '&')):
                                t = x.kids[0]
                                while t.kind in ('ImplicitCastExpr', 'ParenExpr') and t.kids:
                                    t = t.kids[0]
                                if t.kind == 'DeclRefExpr' and t.refid in pids:
                                    modified.add(t.refid)
                    pos = [n.line, (n.col or 0), n.file]
                    mapping, idmap, decls = {}, {}, []
                    for pa, a in zip(g.params, n.kids[1:]):
                        if pa.id in modified:
                            v = Node()
                            _CLONE_N[0] += 1
                            v.uid = -_CLONE_N[0]
                            v.kind, v.name, v.type, v.init = 'VarDecl', pa.name, pa.type, True
                            v.id = idmap.setdefault(pa.id, '%s~%d' % (pa.id, _CLONE_N[0]))
                            pos[1] += 1
                            v.line, v.col, v.file = pos[0], pos[1], pos[2]
                            v.kids = [_clone(a, {}, pos[0], pos[1], pos[2])]
                            ds = Node()
                            _CLONE_N[0] += 1
                            ds.uid = -_CLONE_N[0]
                            ds.kind, ds.kids = 'DeclStmt', [v]
                            ds.line, ds.col, ds.file = pos[0], pos[1], pos[2]
                            decls.append(ds)
                        else:
                            mapping[pa.id] = a
                    body = [_clone_stmt(st, mapping, idmap, pos) for st in stmts]
                    n.kind, n.kids, n.op, n.val, n.ref, n.refid, n.refkind, n.type = 'CompoundStmt', decls + body, None, None, None, None, None, None
                    done.add((g.name, g.file))
                    changed = True
        if not changed:
            break
    for (name, file) in done:
        g = helpers[(name, file)][0]
        # keep the helper if a call to it survives somewhere (e.g. inside an expression)
        alive = any(x.kind == 'DeclRefExpr' and x.refkind == 'FunctionDecl' and x.ref == name for f2 in prog.all_funcs() if f2 is not g and f2.body is not None for x in f2.body.walk())
        if alive:
            continue
        if prog.funcs.get(name) is g:
            del prog.funcs[name]
        if prog.alt.get((name, file)) is g:
            del prog.alt[(name, file)]
    prog.inlined_helpers = sorted(set(getattr(prog, 'inlined_helpers', [])) | done)


def inline_expression_helpers(prog):
    """Program normalisation: a call to a file-local helper whose whole body is `return <expression>;` is replaced by that
    expression with the arguments substituted (wrapped in parentheses).  Extracting a repeated expression into such a helper
    (or the reverse) is a common maintenance edit and must not change what the rules see.  Only helpers defined in a .c file
    are expanded (the header API - mzd_row, mzd_read_bit, ... - is what the rules are written against); the helper itself is
    no longer analysed on its own (its parameters have no meaning outside a call)."""
    helpers = {}
    for f in prog.all_funcs():
        b = f.body
        if not (f.static and (f.file or '').endswith('.c') and b is not None and len(b.kids) == 1 and b.kids[0].kind == 'ReturnStmt' and b.kids[0].kids):
            continue
        if f.name in known_names() and f.name not in ('closer', 'log2_ceil'):
            continue
        expr = b.kids[0].kids[0]
        pids = set(p.id for p in f.params)
        # parameters are only read; no call to itself; no address-of
        bad = False
        for x in expr.walk():
            if x.kind == 'UnaryOperator' and x.op in ('&', '++', '--') and any(y.kind == 'DeclRefExpr' and y.refid in pids for y in x.walk()):
                bad = True
            if x.kind in ('CompoundAssignOperator',) or (x.kind == 'BinaryOperator' and x.op == '='):
                bad = True
            if x.kind == 'DeclRefExpr' and x.refkind == 'FunctionDecl' and x.ref == f.name:
                bad = True
        if not bad:
            helpers[(f.name, f.file)] = f
    if not helpers:
        prog.inlined_helpers = []
        return
    done = set()
    for rounds in range(3):
        changed = False
        for f in prog.all_funcs():
            if f.body is None:
                continue
            for n in f.body.walk():
                if n.kind != 'CallExpr' or not n.kids:
                    continue
                c0 = n.kids[0]
                while c0.kind in ('ImplicitCastExpr', 'ParenExpr') and c0.kids:
                    c0 = c0.kids[0]
                if c0.kind != 'DeclRefExpr' or c0.refkind != 'FunctionDecl':
                    continue
                g = helpers.get((c0.ref, f.file))
                if g is None or g is f or len(n.kids) - 1 != len(g.params):
                    continue
                mapping = dict((p.id, a) for p, a in zip(g.params, n.kids[1:]))
                body = _clone(g.body.kids[0].kids[0], mapping, n.line, n.col, n.file)
                # turn the call node into a parenthesised copy of the helper's expression (in place: parents keep their child)
                n.kind, n.kids, n.op, n.val, n.ref, n.refid, n.refkind = 'ParenExpr', [body], None, None, None, None, None
                done.add((g.name, g.file))
                changed = True
        if not changed:
            break
    prog.inlined_helpers = sorted(done)
    for (name, file) in done:
        g = helpers[(name, file)]
        if prog.funcs.get(name) is g:
            del prog.funcs[name]
        if prog.alt.get((name, file)) is g:
            del prog.alt[(name, file)]


def _merge(prog, unit, decls):
    for n in decls:
        if n.kind == 'FunctionDecl':
            f = Func(n, unit)
            if f.body is not None and f.in_repo:
                old = prog.funcs.get(f.name)
                if old is not None:
                    if (old.file, old.line) != (f.file, f.line):
                        # two different (static) functions with one name: keep both, the plain
                        # name goes to the header version, callers resolve by their own file first
                        if (f.name, f.file) not in prog.alt:
                            prog.dupes.append((f.name, old.loc, f.loc))
                            prog.alt[(f.name, f.file)] = f
                            prog.alt[(old.name, old.file)] = old
                            if f.file.endswith('.h') and not old.file.endswith('.h'):
                                prog.funcs[f.name] = f
                    continue
                prog.funcs[f.name] = f
            else:
                if f.name not in prog.protos:
                    prog.protos[f.name] = f
        elif n.kind == 'VarDecl':
            if (n.file or '').startswith(REPO + '/'):
                old = prog.globals.get(n.name)
                # prefer a definition (has init or not extern) over an extern declaration
                if old is None or (old[0].storage == 'extern' and n.storage != 'extern'):
                    prog.globals[n.name] = (n, unit)
        elif n.kind == 'RecordDecl':
            if n.name and n.kids:
                prog.records[n.name] = n
        elif n.kind == 'EnumDecl':
            v = 0
            for c in n.kids:
                if c.kind == 'EnumConstantDecl':
                    from .ast import int_value
                    if c.kids:
                        iv = int_value(c.kids[0])
                        if iv is not None:
                            v = iv
                    prog.enum[c.name] = v
                    v += 1


def load_program(cfg, ndebug=True, verbose=False, extra_units=None):
    os.makedirs(CACHE, exist_ok=True)
    xh = ''
    if extra_units:
        h_ = hashlib.sha256()
        for x in extra_units:
            h_.update(open(x, 'rb').read())
        xh = '_x' + h_.hexdigest()[:10]
    key = '%s_%s_%s%s' % (tree_hash(), cfg_id(cfg), 'nd' if ndebug else 'dbg', xh)
    path = os.path.join(CACHE, key + '.pkl')
    if os.path.exists(path):
        try:
            with open(path, 'rb') as f:
                prog = pickle.load(f)
            _post_load(prog)
            return prog
        except Exception:
            pass
    t0 = time.time()
    units, unlisted = library_units()
    hdr = os.path.join(CACHE, 'cfg_%s.h' % cfg_id(cfg))
    write_cfg_header(cfg, hdr)
    prog = Program(cfg)
    prog.units = units
    prog.unlisted = unlisted
    jobs = [(u, cfg, hdr, ndebug) for u in units] + [(x, cfg, hdr, ndebug) for x in (extra_units or [])]
    workers = min(int(os.environ.get('M4LINT_JOBS', '8')), len(jobs))
    with ProcessPoolExecutor(max_workers=workers) as ex:
        for unit, decls, err in ex.map(_parse_unit, jobs):
            if decls is None:
                prog.errors[unit] = err
                continue
            _merge(prog, unit, decls)
    if prog.errors:
        # a configuration that does not type-check is a *finding* for rule J1, not a broken analysis;
        # the caller decides. The model is still cached.
        pass
    inline_expression_helpers(prog)
    inline_statement_helpers(prog)
    # static locals
    for f in prog.all_funcs():
        for n in f.body.walk():
            if n.kind == 'VarDecl' and n.storage == 'static':
                prog.static_locals.append((f.name, n))
    prog.parse_seconds = time.time() - t0
    sys.setrecursionlimit(20000)
    tmp = path + '.%d.tmp' % os.getpid()
    with open(tmp, 'wb') as f:
        pickle.dump(prog, f, protocol=pickle.HIGHEST_PROTOCOL)
    os.replace(tmp, path)
    _prune_cache()
    _post_load(prog)
    return prog


def _post_load(prog):
    from . import ast
    ast.ENUMS.update(prog.enum)


def _prune_cache(maxfiles=80):
    try:
        fs = [os.path.join(CACHE, f) for f in os.listdir(CACHE) if f.endswith('.pkl')]
        if len(fs) > maxfiles:
            fs.sort(key=lambda p: os.path.getmtime(p))
            for p in fs[:len(fs) - maxfiles]:
                os.remove(p)
    except OSError:
        pass


def load_programs(cfgs, ndebug=True):
    """Load several configurations (each parses its TUs in parallel)."""
    return [load_program(c, ndebug) for c in cfgs]
