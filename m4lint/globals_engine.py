"""Engine G: static-storage census (G1), non-reentrant libc calls (G2), configure coupling (G4)."""
import os
import re
import subprocess
import tempfile

from .ast import callee_name, pp, REPO
from .driver import RuleResult, Finding
from .frontend import AnalysisBroken, clang_flags, CACHE, cfg_id, write_cfg_header

# glibc "MT-Unsafe" interfaces (attributes(7) tables) that return or use static buffers / global state.
# rand()/random() are MT-Safe in glibc (internal lock) and are documented RNG sources: listed as info only.
MT_UNSAFE = {'localtime', 'gmtime', 'ctime', 'asctime', 'strtok', 'strerror', 'getenv_unsafe', 'setlocale',
             'readdir', 'getpwnam', 'getpwuid', 'gethostbyname', 'tmpnam', 'ttyname', 'drand48', 'lrand48',
             'mrand48', 'erand48', 'srand48', 'ecvt', 'fcvt', 'gcvt', 'getdate', 'getlogin', 'crypt',
             'basename_gnu_unsafe', 'dirname_unsafe', 'l64a', 'getopt', 'hsearch', 'ptsname', 'rand_r_unsafe',
             'setenv', 'putenv', 'unsetenv', 'tzset_unsafe', 'wcstombs_unsafe', 'strsignal', 'inet_ntoa',
             'getgrnam', 'getgrgid', 'mktime_unsafe', 'nl_langinfo'}
RNG_INFO = {'rand', 'random', 'srand', 'srandom'}


def _ctor_dtor(prog):
    out = set()
    for f in prog.all_funcs():
        v = f.node.val if isinstance(f.node.val, str) else ''
        if 'ConstructorAttr' in v or 'DestructorAttr' in v:
            out.add(f.name)
    # the attribute may sit on the prototype only
    for name, f in prog.protos.items():
        v = f.node.val if isinstance(f.node.val, str) else ''
        if ('ConstructorAttr' in v or 'DestructorAttr' in v) and name in prog.funcs:
            out.add(name)
    return out


def _callers(prog, eff):
    callers = {}
    for f in prog.all_funcs():
        for c in eff.of(f).callees:
            callers.setdefault(c, set()).add(f.name)
    return callers


def _load_time_only(name, callers, roots, seen=None):
    """True iff every call chain into `name` inside the library starts at a constructor/destructor."""
    if name in roots:
        return True
    seen = seen or set()
    if name in seen:
        return True
    seen.add(name)
    cs = callers.get(name, set())
    if not cs:
        return False
    return all(_load_time_only(c, callers, roots, seen) for c in cs)


def static_objects(prog):
    objs = {}
    for name, (n, unit) in prog.globals.items():
        objs[name] = n
    for fname, n in prog.static_locals:
        objs[fname + '.' + n.name] = n
    return objs


def rule_G1(ctx, prog, label):
    """Every static-storage object is never written, or written only from load-time ctor/dtor."""
    rr = RuleResult('G1', 'static-storage census: object never written after load time (thread-safe configuration)')
    eff = ctx.effects(prog)
    objs = static_objects(prog)
    roots = _ctor_dtor(prog)
    if not roots:
        raise AnalysisBroken('G1: no constructor/destructor function found (m4ri_init/m4ri_fini anchors vanished)')
    callers = _callers(prog, eff)
    rr.instances = len(objs)
    rr.extra['objects'] = sorted(objs)
    rr.extra['load_time_roots'] = sorted(roots)
    for oname in sorted(objs):
        n = objs[oname]
        writers = []
        escapes = []
        for f in prog.all_funcs():
            S = eff.of(f)
            for (r, part), site in S.dwrites.items():
                if r == ('g', oname):
                    writers.append((f.name, part, site))
            for (r, part), site in S.escapes.items():
                if r == ('g', oname):
                    escapes.append((f.name, part, site))
        bad = [(w, part, site) for (w, part, site) in writers if not _load_time_only(w, callers, roots)]
        badesc = [(w, part, site) for (w, part, site) in escapes if not _load_time_only(w, callers, roots)]
        ok = not bad and not badesc
        sample = dict(object=oname, type=n.type, writers=sorted(set(w for w, _, _ in writers)),
                      verdict='never written' if not writers else 'written only under load-time constructor/destructor')
        fnd = None
        if not ok:
            w, part, site = (bad or badesc)[0]
            fnd = Finding('G1', 'G1|%s|%s' % (oname, w), site.split(':')[0] + ':' + site.split(':')[1] if ':' in site else n.loc, w,
                          'static-storage object `%s` is %s in `%s`, which is reachable outside the load-time constructor: shared mutable state in the thread-safe build' % (
                              oname, 'written' if bad else 'aliased into memory', w),
                          dict(object=oname, declared=n.loc, site=site, all_writers=sorted(set(x[0] for x in bad + badesc))), label)
        rr.ob(ok, sample, fnd)
    return rr


def rule_G1nm(ctx, prog, label):
    """Cross-check of the census against the object files' symbol tables (llvm-nm)."""
    rr = RuleResult('G1-nm', 'cross-check: every symbol in a writable section of the compiled objects is in the census')
    objs = static_objects(prog)
    known = set()
    for o in objs:
        known.add(o.split('.')[-1])
        known.add(o)
    hdr = os.path.join(CACHE, 'cfg_%s.h' % cfg_id(prog.cfg))
    write_cfg_header(prog.cfg, hdr)
    flags = [f for f in clang_flags(prog.cfg, hdr) if f != '-fsyntax-only']
    tmpd = tempfile.mkdtemp(prefix='nm_', dir=CACHE)
    try:
        procs = []
        for u in prog.units:
            o = os.path.join(tmpd, os.path.basename(u) + '.o')
            procs.append((u, o, subprocess.Popen(['clang-14'] + flags + ['-O0', '-c', os.path.join(REPO, u), '-o', o],
                                                 stdout=subprocess.PIPE, stderr=subprocess.PIPE)))
        syms = []
        for u, o, p in procs:
            _, err = p.communicate()
            if p.returncode != 0:
                raise AnalysisBroken('G1-nm: cannot compile %s: %s' % (u, err.decode()[-500:]))
            out = subprocess.run(['llvm-nm-14', '--defined-only', o], stdout=subprocess.PIPE).stdout.decode()
            for line in out.splitlines():
                parts = line.split()
                if len(parts) >= 3 and parts[-2] in ('b', 'B', 'd', 'D', 'C', 'c', 's', 'S', 'g', 'G'):
                    syms.append((u, parts[-2], parts[-1]))
    finally:
        for f in os.listdir(tmpd):
            os.remove(os.path.join(tmpd, f))
        os.rmdir(tmpd)
    rr.instances = len(syms)
    rr.extra['writable_symbols'] = sorted(set('%s(%s)' % (s, t) for _, t, s in syms))
    for u, t, s in syms:
        base = s.split('.')[0] if s.split('.')[0] in known else s
        # static locals are emitted as 'func.var'
        ok = s in known or base in known or s.split('.')[-1] in known
        rr.ob(ok, dict(unit=u, symbol=s, section=t),
              Finding('G1-nm', 'G1-nm|%s' % s, u, '-', 'symbol `%s` lives in a writable section but is not in the AST census' % s,
                      dict(unit=u, section=t), label))
    return rr


def rule_G2(ctx, prog, label):
    """No call to a libc interface documented MT-Unsafe (static buffers)."""
    rr = RuleResult('G2', 'no call to a non-reentrant (MT-Unsafe) libc interface anywhere in the library')
    ext = 0
    info = set()
    for f in prog.all_funcs():
        for c in f.body.find('CallExpr'):
            name = callee_name(c)
            if name is None or prog.resolve(name, f) is not None:
                continue
            ext += 1
            if name in RNG_INFO:
                info.add('%s calls %s (MT-Safe in glibc; documented RNG source)' % (f.name, name))
            bad = name in MT_UNSAFE
            rr.ob(not bad, dict(function=f.name, external=name) if ext % 40 == 1 else None,
                  Finding('G2', 'G2|%s|%s' % (f.name, name), c.loc, f.name,
                          '`%s` uses a static buffer / global state (MT-Unsafe): concurrent callers race' % name,
                          dict(call=pp(c)), label))
    rr.instances = ext
    rr.extra['rng_info'] = sorted(info)
    rr.require_floor(30, 'external call sites')
    return rr


def rule_G4(ctx):
    """configure.ac: --enable-thread-safe => MMC=0 and MZD_CACHE=0; OpenMP => MZD_CACHE=0."""
    rr = RuleResult('G4', 'configure.ac couples thread-safe => no block/header caches, OpenMP => no header cache')
    p = os.path.join(REPO, 'configure.ac')
    if not os.path.exists(p):
        raise AnalysisBroken('configure.ac vanished')
    lines = open(p).read().splitlines()
    # tiny shell reader: track if-blocks on enable_thread_safe / M4RI_HAVE_OPENMP
    state = {'ts': {}, 'omp': {}, 'default': {}}
    cur = ['default']
    for ln in lines:
        s = ln.strip()
        if s.startswith('#'):
            continue
        m = re.match(r'if\s+test\s+(.*);\s*then', s)
        if m:
            c = m.group(1)
            if 'enable_thread_safe' in c and 'xyes' in c and '!=' not in c:
                cur.append('ts')
            elif 'M4RI_HAVE_OPENMP' in c and re.search(r'=\s*1', c) and '!=' not in c:
                cur.append('omp')
            else:
                cur.append('other')
            continue
        if s == 'fi' and len(cur) > 1:
            cur.pop()
            continue
        if s.startswith('else') and len(cur) > 1:
            cur[-1] = 'other'
            continue
        m = re.match(r'(M4RI_ENABLE_MMC|M4RI_ENABLE_MZD_CACHE)=(\d+)', s)
        if m and cur[-1] in state and all(c in ('default',) for c in cur[:-1]):
            state[cur[-1]][m.group(1)] = int(m.group(2))
    rr.instances = 3
    obs = [('ts', 'M4RI_ENABLE_MMC', 0), ('ts', 'M4RI_ENABLE_MZD_CACHE', 0), ('omp', 'M4RI_ENABLE_MZD_CACHE', 0)]
    for blk, var, want in obs:
        got = state[blk].get(var)
        rr.ob(got == want, dict(block=blk, variable=var, value=got),
              Finding('G4', 'G4|%s|%s' % (blk, var), 'configure.ac', '-',
                      'configure.ac no longer sets %s=%d under %s' % (var, want, {'ts': '--enable-thread-safe', 'omp': 'OpenMP'}[blk]),
                      dict(found=got)))
    # the substitution must reach the template
    tpl = open(os.path.join(REPO, 'm4ri', 'm4ri_config.h.in')).read()
    for var in ('M4RI_ENABLE_MMC', 'M4RI_ENABLE_MZD_CACHE'):
        rr.instances += 1
        ok = ('@%s@' % var) in tpl and re.search(r'AC_SUBST\(\s*%s\s*\)' % var, '\n'.join(lines)) is not None
        rr.ob(ok, dict(substitution=var),
              Finding('G4', 'G4|subst|%s' % var, 'configure.ac', '-', '%s is no longer substituted into m4ri_config.h' % var))
    return rr
