"""Engine D: 16-byte phase typestate for the aligned-vector kernels (D0 census, D1 phase matching
along call chains into the sinks, D2 window column offsets are word multiples)."""
import json
import os

from .ast import strip, callee_name, pp, int_value, type_is_pointer
from .symbolic import FuncSym, Lin
from .driver import RuleResult, Finding
from .frontend import AnalysisBroken, VERIF

SINKS = {'_mzd_combine': (0, [1]), '_mzd_combine_2': (0, [1]), '_mzd_combine_3': (0, [1]), '_mzd_combine_4': (0, [1]),
         '_mzd_combine_5': (0, [1]), '_mzd_combine_6': (0, [1]), '_mzd_combine_7': (0, [1]), '_mzd_combine_8': (0, [1])}
SELF_GUARDING = {
    'mzd_combine_even_in_place': 'tests the phase of a and of b before entering the vector loop',
    'mzd_combine_even': 'tests the phase of c, then of a and b, before entering the vector loop',
    'mzd_row_add_offset': 'tests the phase of src; dst is the same word offset in another row of the same matrix and rowstride is even (rule A2)',
}


SELF_GUARDING_UNTESTED = {
    'mzd_row_add_offset': {'dst': 'dst is the same word offset as src in another row of the same matrix; rowstride is even (rule A2), so both share their phase'},
}


def _is_alignment_test(e):
    """((unsigned long)(p)) % 16  ->  p expression, else None"""
    e = strip(e)
    if e is not None and e.kind == 'BinaryOperator' and e.op == '%' and int_value(e.kids[1]) == 16:
        inner = strip(e.kids[0])
        if inner.kind == 'CStyleCastExpr' and 'long' in (inner.type or ''):
            return inner.kids[0]
    return None


def vector_functions(prog):
    out = {}
    for f in prog.all_funcs():
        casts = [n for n in f.body.walk() if n.kind == 'CStyleCastExpr' and '__m128i' in (n.type or '') and '*' in (n.type or '')]
        if casts:
            out[f.name] = casts
    return out


def rule_D0(ctx, prog, label, rule='D0'):
    rr = RuleResult(rule, 'census of functions that dereference __m128i*: each is a known sink or tests operand phases itself')
    vf = vector_functions(prog)
    if not prog.cfg['sse2']:
        rr.instances = len(vf)
        for name, casts in vf.items():
            rr.ob(False, None, Finding(rule, '%s|%s|nosse' % (rule, name), casts[0].loc, name, 'vector code present in the scalar configuration', {}, label))
        rr.obligations += 1
        rr.discharged += 1
        return rr
    for name, casts in sorted(vf.items()):
        rr.instances += 1
        f = prog.funcs[name]
        if name in SINKS:
            rr.ob(True, dict(function=name, role='sink: assumes all operands share a phase; obligation raised at the table creators (D1)'))
            continue
        tests = []
        for n in f.body.walk():
            p = _is_alignment_test(n)
            if p is not None:
                tests.append(pp(p))
        ok = name in SELF_GUARDING and len(tests) >= 1
        rr.ob(ok, dict(function=name, role='self-guarding', phase_tests=sorted(set(tests)), reason=SELF_GUARDING.get(name)),
              Finding(rule, '%s|%s' % (rule, name), casts[0].loc, name,
                      '%s dereferences __m128i* but is neither a known phase-assuming kernel nor tests its operands\' phases' % name, {}, label))
        if name not in SELF_GUARDING:
            continue
        # every word pointer that is reinterpreted as __m128i* has its own phase test on every path to the cast
        from .cfg import cfg_of
        g = cfg_of(f)
        dom = g.dominators()
        exempt = SELF_GUARDING_UNTESTED.get(name, {})
        for c in casts:
            src = strip(c.kids[0], casts=True)
            if src.kind != 'DeclRefExpr':
                continue
            if 'eof' in pp(c) or src.kind != 'DeclRefExpr':
                pass
            v = src.ref
            par = None
            for cn in g.nodes:
                if cn.ast is not None and any(x is c for x in cn.ast.walk()):
                    par = cn
            if par is None:
                continue
            # the end-of-loop sentinel  (__m128i *)((unsigned long)(p + wide) & ~0xF)  is an address computation, not an access
            inner = strip(c.kids[0])
            if inner.kind == 'BinaryOperator' or (inner.kind == 'ParenExpr'):
                continue
            rr.instances += 1
            tested = False
            for cn in g.nodes:
                if cn.kind != 'branch' and cn.kind != 'stmt':
                    continue
                if cn.ast is None or cn.id not in dom.get(par.id, ()):
                    continue
                for n in cn.ast.walk():
                    pt = _is_alignment_test(n)
                    if pt is not None and pp(strip(pt, casts=True)) == v:
                        tested = True
            if not tested and v in exempt:
                tested = True
            rr.ob(tested, dict(function=name, pointer=v, verdict='phase of `%s` is tested on every path to its reinterpretation as __m128i*' % v if v not in exempt else exempt[v]),
                  Finding(rule, '%s|%s|untested|%s' % (rule, name, v), c.loc, name,
                          '`%s` is reinterpreted as __m128i* in %s without a 16-byte phase test of `%s` on the path: an operand at an odd word offset makes the aligned access fault' % (v, name, v), {}, label))
    rr.require_floor(10, 'functions with vector dereferences')
    return rr


class PhaseEval(object):
    """Constant folding of an expression under the hypothesis  ALIGNMENT(mzd_row(D, 0), 16) == phase."""

    def __init__(self, fs, dest_names, binding=None, outer=None):
        self.fs = fs
        self.dest = set(dest_names)
        self.depends = False
        self.binding = binding or {}     # helper parameter decl id -> caller argument expression
        self.outer = outer               # PhaseEval of the caller (evaluates bound expressions)

    def ev(self, e, phase, depth=0):
        e = strip(e, casts=True)
        if e is None or depth > 10:
            return None
        p = _is_alignment_test(e)
        if p is not None:
            ps = strip(p, casts=True)
            if ps.kind == 'CallExpr' and callee_name(ps) in ('mzd_row', 'mzd_row_const') and int_value(ps.kids[2]) == 0 and \
                    self.fs.base_name(ps.kids[1]) in self.dest:
                self.depends = True
                return phase
            return None
        v = int_value(e)
        if v is not None:
            return v
        if e.kind == 'DeclRefExpr':
            if e.refid in self.binding and self.outer is not None:
                v_ = self.outer.ev(self.binding[e.refid], phase, depth + 1)
                if self.outer.depends:
                    self.depends = True
                return v_
            d = self.fs.single_def(e.refid)
            if d is not None:
                return self.ev(d, phase, depth + 1)
            return None
        if e.kind == 'BinaryOperator':
            a = self.ev(e.kids[0], phase, depth + 1)
            b = self.ev(e.kids[1], phase, depth + 1)
            if e.op == '*' and (a == 0 or b == 0):
                return 0
            if a is None or b is None:
                return None
            try:
                return {'+': a + b, '-': a - b, '*': a * b, '==': int(a == b), '!=': int(a != b), '/': a // b if b else None,
                        '%': a % b if b else None, '<<': a << b, '>>': a >> b, '&': a & b, '|': a | b}.get(e.op)
            except Exception:
                return None
        if e.kind == 'ConditionalOperator':
            c = self.ev(e.kids[0], phase, depth + 1)
            if c is None:
                return None
            return self.ev(e.kids[1] if c else e.kids[2], phase, depth + 1)
        if e.kind == 'UnaryOperator' and e.op == '!':
            a = self.ev(e.kids[0], phase, depth + 1)
            return None if a is None else int(not a)
        return None


class Align(object):
    def __init__(self, ctx, prog):
        self.prog = prog
        self.eff = ctx.effects(prog)
        self.consumers = dict(SINKS)   # name -> (dest param idx, [table param idx])
        self.creators = []             # (func, call node, dest names, table arg exprs, callee)
        self.external = []             # consumers whose dest and tables are all parameters (precondition)
        self._propagate()

    def _propagate(self):
        changed = True
        seen_sites = set()
        rounds = 0
        while changed:
            changed = False
            rounds += 1
            if rounds > 12:
                raise AnalysisBroken('align: consumer propagation did not converge')
            for f in self.prog.all_funcs():
                Q = None
                for c in f.body.find('CallExpr'):
                    cn = callee_name(c)
                    if cn not in self.consumers:
                        continue
                    di, tis = self.consumers[cn]
                    args = c.kids[1:]
                    if di >= len(args):
                        continue
                    if Q is None:
                        Q = self.eff.query(f)
                    droots = set(r for (r, p) in Q.pts(args[di]))
                    troots = {}
                    for ti in tis:
                        if ti < len(args):
                            rs = set(r for (r, p) in Q.pts(args[ti])) | set(r for (r, p) in Q.load(args[ti]))
                            for n_ in args[ti].walk():
                                if n_.kind == 'DeclRefExpr' and n_.refkind == 'VarDecl':
                                    rs |= set(r for (r, p) in Q.env.get(n_.refid, ()))
                            rs = set(r for r in rs if r[0] != 'local')
                            troots[ti] = rs
                    dparams = sorted(r[1] for r in droots if r[0] == 'p')
                    tparams = sorted(set(r[1] for rs in troots.values() for r in rs if r[0] == 'p'))
                    tlocal = any(r[0] in ('fresh', 'g') for rs in troots.values() for r in rs)
                    key = (f.name, c.uid)
                    if dparams and tparams and not tlocal:
                        # pure pass-through: f is itself a consumer
                        tp = [t for t in tparams if t not in dparams] or tparams
                        cur = self.consumers.get(f.name)
                        new = (dparams[0], sorted(set((cur[1] if cur else []) + tp)))
                        if cur != new and f.name not in SINKS:
                            self.consumers[f.name] = new
                            changed = True
                    elif key not in seen_sites and tlocal:
                        seen_sites.add(key)
                        self.creators.append((f, c, droots, troots, cn))

    # ------------------------------------------------------------------
    def table_vars(self, f, fs, expr):
        """Local variables (decl ids) a table argument expression reads: T0, T[z], T[0]->T, t (array filled
        from mzd_row_const(T[i], x)) ..."""
        out = []
        e = strip(expr, casts=True)
        for n in e.walk():
            if n.kind == 'DeclRefExpr' and n.refkind == 'VarDecl' and n.refid in fs.decl:
                out.append(n.refid)
        return out

    def defs_of(self, fs, vid):
        """All expressions assigned to local `vid` or to its elements (arrays)."""
        out = list(fs.defs.get(vid, []))
        for n in fs.f.body.walk():
            if n.kind == 'BinaryOperator' and n.op == '=':
                l = strip(n.kids[0], casts=True)
                while l.kind in ('ArraySubscriptExpr', 'MemberExpr'):
                    l = strip(l.kids[0], casts=True)
                    if l.kind == 'DeclRefExpr' and l.refid == vid and not any(n.kids[1] is d for d in out):
                        out.append(n.kids[1])
                        break
        return out

    def matrix_sources(self, f, fs, vid, depth=0, seen=None):
        """Follow a local pointer/array variable back to the matrix-creating calls that define it:
        returns list of CallExpr (mzd_init / mzd_init_window / ple_table_init / ...) or ('param', name)."""
        seen = seen or set()
        if vid in seen or depth > 6:
            return []
        seen.add(vid)
        res = []
        # filled by a helper through an out-parameter:  helper(T, Talign, L, ...)
        for c in f.body.find('CallExpr'):
            g = self.prog.resolve(callee_name(c), f) if callee_name(c) else None
            if g is None or g.body is None or callee_name(c) in SINKS:
                continue
            S = self.eff.of(g)
            for j, a in enumerate(c.kids[1:]):
                a2 = strip(a, casts=True)
                if a2.kind == 'DeclRefExpr' and a2.refid == vid and j in S.pstores and j < len(g.params):
                    gfs = FuncSym(g)
                    binding = {}
                    for jj, aa in enumerate(c.kids[1:]):
                        if jj < len(g.params):
                            binding[g.params[jj].id] = aa
                    for dd in self.defs_of(gfs, g.params[j].id):
                        ds_ = strip(dd, casts=True)
                        if ds_.kind == 'CallExpr':
                            res.append(('helper', ds_, gfs, binding, g))
        for d in self.defs_of(fs, vid):
            ds = strip(d, casts=True)
            if ds.kind == 'CallExpr':
                cn = callee_name(ds)
                if cn in ('mzd_row', 'mzd_row_const'):
                    for v2 in self.table_vars(f, fs, ds.kids[1]):
                        res += self.matrix_sources(f, fs, v2, depth + 1, seen)
                    b = strip(ds.kids[1], casts=True)
                    for n in b.walk():
                        if n.kind == 'DeclRefExpr' and n.refkind == 'ParmVarDecl':
                            res.append(('param', n.ref))
                else:
                    res.append(ds)
            elif ds.kind == 'BinaryOperator' and ds.op in ('+', '-'):
                for n in ds.walk():
                    if n.kind == 'CallExpr' and callee_name(n) in ('mzd_row', 'mzd_row_const'):
                        for v2 in self.table_vars(f, fs, n.kids[1]):
                            res += self.matrix_sources(f, fs, v2, depth + 1, seen)
                        for x in strip(n.kids[1], casts=True).walk():
                            if x.kind == 'DeclRefExpr' and x.refkind == 'ParmVarDecl':
                                res.append(('param', x.ref))
                    elif n.kind == 'DeclRefExpr' and n.refkind == 'VarDecl' and n.refid in fs.decl and type_is_pointer(n.type):
                        res += self.matrix_sources(f, fs, n.refid, depth + 1, seen)
            else:
                for n in ds.walk():
                    if n.kind == 'DeclRefExpr' and n.refkind == 'VarDecl' and n.refid in fs.decl and n.refid != vid:
                        res += self.matrix_sources(f, fs, n.refid, depth + 1, seen)
                    elif n.kind == 'DeclRefExpr' and n.refkind == 'ParmVarDecl' and type_is_pointer(n.type):
                        res.append(('param', n.ref))
        return res


def rule_D1(ctx, prog, label, rule='D1', only_funcs=None):
    """At every function that creates lookup tables and hands them, together with a destination derived from
    its own parameter, to a phase-assuming kernel: each table is a window of a local owner whose column offset,
    folded under both hypotheses phase(dest) in {0, 8}, is 64 * phase / 8."""
    rr = RuleResult(rule, 'tables combined into a caller matrix by the aligned kernels are phase-matched to that matrix')
    if not prog.cfg['sse2']:
        rr.obligations = rr.discharged = 1
        rr.extra['note'] = 'scalar configuration: no aligned vector dereference exists (D0)'
        return rr
    A = Align(ctx, prog)
    rr.extra['consumers'] = dict((k, v) for k, v in sorted(A.consumers.items()) if k not in SINKS)
    for (f, call, droots, troots, cn) in sorted(A.creators, key=lambda x: (x[0].file, x[1].line)):
        if only_funcs is not None and f.name not in only_funcs:
            continue
        fs = FuncSym(f)
        dest_params = sorted(set(f.params[r[1]].name for r in droots if r[0] == 'p'))
        di, tis = A.consumers[cn]
        args = call.kids[1:]
        for ti in tis:
            if ti >= len(args):
                continue
            rr.instances += 1
            targ = args[ti]
            creators = []
            for vid in A.table_vars(f, fs, targ):
                creators += A.matrix_sources(f, fs, vid)
            calls = [c for c in creators if not isinstance(c, tuple)] + [c for c in creators if isinstance(c, tuple) and c[0] == 'helper']
            params = sorted(set(c[1] for c in creators if isinstance(c, tuple) and c[0] == 'param'))
            verdicts = []
            for c in calls:
                hfs, hbind = fs, None
                if isinstance(c, tuple):
                    _tag, c, hfs, hbind, _g = c
                name = callee_name(c)
                if name in ('mzd_init_window', 'mzd_init_window_const'):
                    lowc = c.kids[3]
                    pe = PhaseEval(hfs, dest_params, binding=hbind, outer=PhaseEval(fs, dest_params)) if hbind is not None else PhaseEval(fs, dest_params)
                    v0, v8 = pe.ev(lowc, 0), pe.ev(lowc, 8)
                    if v0 == 0 and v8 == 64:
                        verdicts.append((True, 'window at column offset `%s` = 64 * phase(dest)/8' % pp(lowc)))
                    elif not dest_params and v0 is not None and v0 % 128 == 0:
                        verdicts.append((True, 'destination and table are local owners'))
                    else:
                        verdicts.append((False, 'window column offset `%s` evaluates to %s / %s for destination phases 0 / 8 (needs 0 / 64)' % (pp(lowc), v0, v8)))
                elif name == 'mzd_init':
                    if dest_params:
                        verdicts.append((False, 'table `%s` is a plain owner (always 16-byte aligned) while the destination `%s` may sit at an odd word offset' % (pp(c)[:50], '/'.join(dest_params))))
                    else:
                        verdicts.append((True, 'destination and table are local owners'))
                else:
                    if dest_params:
                        verdicts.append((False, 'table comes from `%s`, which allocates plain owners, while the destination `%s` may sit at an odd word offset' % (pp(c)[:50], '/'.join(dest_params))))
                    else:
                        verdicts.append((True, 'local'))
            if not calls and not params:
                verdicts.append((False, 'origin of table argument `%s` not understood' % pp(targ)))
            bad = [w for ok, w in verdicts if not ok]
            ok = not bad
            rr.ob(ok, dict(function=f.name, kernel=cn, destination='/'.join(dest_params) or 'local', table_argument=pp(targ),
                           verdict=[w for _, w in verdicts][:3]),
                  Finding(rule, '%s|%s|%s' % (rule, f.name, cn if cn in SINKS else cn), call.loc, f.name,
                          'phase mismatch feeding %s: %s' % (cn, bad[0] if bad else ''), dict(call=pp(call)[:120]), label))
    # same word offset on destination and tables at direct sink calls
    for f in prog.all_funcs():
        fs = None
        if only_funcs is not None and f.name not in only_funcs:
            continue
        for c in f.body.find('CallExpr'):
            cn = callee_name(c)
            if cn not in SINKS:
                continue
            if fs is None:
                fs = FuncSym(f)
                from .masks import MaskAnalysis
                MA = MaskAnalysis(ctx, prog)
            d = MA.pointer_origin(c.kids[1], fs)
            if d is None:
                continue
            offs = []
            t = strip(c.kids[2], casts=True)
            tv = [n for n in t.walk() if n.kind == 'DeclRefExpr' and n.refkind == 'VarDecl']
            for v in tv:
                for dd in Align.defs_of(None, fs, v.refid) if False else _defs_of(fs, v.refid):
                    o = MA.pointer_origin(dd, fs)
                    if o is not None:
                        offs.append((o[2], dd))
            if t.kind == 'CallExpr' or (t.kind == 'BinaryOperator'):
                o = MA.pointer_origin(t, fs)
                if o is not None:
                    offs.append((o[2], t))
            for (off, dd) in offs:
                rr.instances += 1
                ok = (off - d[2]).is_const() and (off - d[2]).c % 2 == 0
                rr.ob(ok, dict(function=f.name, kernel=cn, dest_offset=repr(d[2]), table_offset=repr(off)),
                      Finding(rule, '%s|%s|offset|%s' % (rule, f.name, cn), c.loc, f.name,
                              'destination is advanced by `%r` words but a table pointer by `%r`: the operands lose their common phase' % (d[2], off), {}, label))
    # one finding per creating function (with the number of kernel calls it feeds in the key)
    byf = {}
    for fd in rr.findings:
        byf.setdefault((fd.func, 'offset' in fd.key), []).append(fd)
    merged = []
    for (fn, isoff), fds in sorted(byf.items()):
        fd = fds[0]
        if not isoff:
            fd.key = '%s|%s|tables-not-phase-matched|n=%d' % (rule, fn, len(fds))
            fd.msg += ' (%d kernel call(s) in %s are fed this way)' % (len(fds), fn)
        merged.append(fd)
    rr.findings = merged
    rr.require_floor(20 if only_funcs is None else 4, 'table arguments / offsets at kernel calls')
    return rr


def _defs_of(fs, vid):
    out = list(fs.defs.get(vid, []))
    for n in fs.f.body.walk():
        if n.kind == 'BinaryOperator' and n.op == '=':
            l = strip(n.kids[0], casts=True)
            if l.kind == 'ArraySubscriptExpr':
                b = strip(l.kids[0], casts=True)
                if b.kind == 'DeclRefExpr' and b.refid == vid:
                    out.append(n.kids[1])
    return out


def rule_D2(ctx, prog, label, rule='D2'):
    """Every lowc argument of mzd_init_window* is a multiple of 64 (congruence domain, with the guards
    `x % 64 == 0`-style the code uses)."""
    rr = RuleResult(rule, 'every window starts on a word boundary: lowc argument congruent 0 mod 64')
    table = json.load(open(os.path.join(VERIF, 'rules', 'align.json')))
    exc = table.get('lowc_exceptions', [])
    hits = dict((i, 0) for i in range(len(exc)))
    for f in sorted(prog.all_funcs(), key=lambda f: (f.file, f.line)):
        fs = None
        for c in f.body.find('CallExpr'):
            if callee_name(c) not in ('mzd_init_window', 'mzd_init_window_const'):
                continue
            if fs is None:
                fs = FuncSym(f)
            if f.name in ('mzd_init_window_const',):
                continue     # thin wrapper: its own call sites are enumerated instead
            rr.instances += 1
            lowc = c.kids[3]
            ok, why = mod64(lowc, fs, c)
            if not ok:
                pe = PhaseEval(fs, [p_.name for p_ in f.params])
                v0, v8 = pe.ev(lowc, 0), pe.ev(lowc, 8)
                if pe.depends and v0 is not None and v8 is not None and v0 % 64 == 0 and v8 % 64 == 0:
                    ok, why = True, 'phase offset: %d / %d for row phases 0 / 8' % (v0, v8)
            if not ok:
                for i, e in enumerate(exc):
                    if e['function'] == f.name and hits[i] < e.get('count', 1):
                        hits[i] += 1
                        ok, why = True, 'frozen exception: ' + e['reason']
                        break
            rr.ob(ok, dict(function=f.name, lowc=pp(lowc), discharged_by=why) if rr.instances % 12 == 1 or 'exception' in why else None,
                  Finding(rule, '%s|%s|%s' % (rule, f.name, pp(lowc)[:40]), c.loc, f.name,
                          'window column offset `%s` is not provably a multiple of 64 (%s): mzd_init_window silently rounds it down' % (pp(lowc), why), {}, label))
    for i, e in enumerate(exc):
        if hits[i] == 0 and e['function'] in prog.funcs:
            raise AnalysisBroken('rules/align.json lowc exception #%d (%s) matches no window: stale table' % (i, e['function']))
    rr.require_floor(120, 'window constructions')
    return rr


def mod64(e, fs, at, depth=0):
    """Is expression e == 0 (mod 64)?  returns (bool, reason)"""
    e = strip(e, casts=True)
    if e is None or depth > 10:
        return False, 'unknown'
    v = int_value(e)
    if v is not None:
        return v % 64 == 0, 'constant %d' % v
    if e.kind == 'DeclRefExpr':
        d = fs.single_def(e.refid)
        if d is not None:
            return mod64(d, fs, at, depth + 1)
        # all definitions congruent 0, including compound updates  x *= 2, x += 64k ...
        ds = fs.defs.get(e.refid, [])
        if ds and e.refid not in fs.params:
            oks = [mod64(d, fs, at, depth + 1)[0] for d in ds]
            upd_ok = True
            for n in fs.f.body.walk():
                if n.kind == 'CompoundAssignOperator' and strip(n.kids[0]).kind == 'DeclRefExpr' and strip(n.kids[0]).refid == e.refid:
                    if n.op in ('*=', '<<='):
                        continue
                    if n.op in ('+=', '-=') and mod64(n.kids[1], fs, at, depth + 1)[0]:
                        continue
                    upd_ok = False
                if n.kind == 'UnaryOperator' and n.op in ('++', '--') and strip(n.kids[0]).kind == 'DeclRefExpr' and strip(n.kids[0]).refid == e.refid:
                    upd_ok = False
            if all(oks) and upd_ok:
                return True, 'every definition of %s is a multiple of 64' % e.ref
        # flow-sensitive: the nearest preceding top-level statement that modifies the variable
        lu = last_update_before(e.refid, at, fs)
        if lu is not None:
            if lu.kind == 'CompoundAssignOperator' and lu.op in ('*=',) and mod64(lu.kids[1], fs, at, depth + 1)[0]:
                return True, '%s was just multiplied by a multiple of 64' % e.ref
            if lu.kind == 'BinaryOperator' and lu.op == '=' and mod64(lu.kids[1], fs, lu, depth + 1)[0]:
                return True, '%s was just assigned a multiple of 64' % e.ref
        # guard: enclosing if (x % 64 == 0) / (x_radix == x)
        if guarded_mod64(e, fs, at):
            return True, 'guarded by a test that %s is a multiple of 64' % e.ref
        return False, '%s is not known to be a multiple of 64' % e.ref
    if e.kind == 'BinaryOperator':
        a, b = e.kids
        if e.op in ('+', '-'):
            x, y = mod64(a, fs, at, depth + 1), mod64(b, fs, at, depth + 1)
            return (x[0] and y[0]), (x[1] if not x[0] else y[1])
        if e.op == '*':
            x, y = mod64(a, fs, at, depth + 1), mod64(b, fs, at, depth + 1)
            if x[0] or y[0]:
                return True, 'product with a multiple of 64'
            return False, 'product `%s`' % pp(e)
        if e.op == '<<':
            sh = int_value(b)
            if sh is not None and sh >= 6:
                return True, 'shift by >= 6'
            return mod64(a, fs, at, depth + 1)
        if e.op == '/':
            # (x / 64) * 64 handled by '*'; x / c alone unknown
            return False, 'quotient `%s`' % pp(e)
        if e.op == '&':
            m = int_value(b)
            if m is not None and m % 64 == 0 and m < 0:
                return True, 'masked with %d' % m
    if e.kind == 'ConditionalOperator':
        x, y = mod64(e.kids[1], fs, at, depth + 1), mod64(e.kids[2], fs, at, depth + 1)
        return (x[0] and y[0]), (x[1] if not x[0] else y[1])
    if e.kind == 'MemberExpr':
        return False, '`%s` is a run-time dimension' % pp(e)
    return False, '`%s`' % pp(e)[:40]


def last_update_before(vid, at, fs):
    stmt = at
    par = fs.parent.get(stmt.uid)
    while par is not None:
        if par.kind == 'CompoundStmt':
            idx = [i for i, c in enumerate(par.kids) if c is stmt]
            if idx:
                for c in reversed(par.kids[:idx[0]]):
                    mods = []
                    for n in c.walk():
                        if (n.kind == 'BinaryOperator' and n.op == '=') or n.kind == 'CompoundAssignOperator' or (n.kind == 'UnaryOperator' and n.op in ('++', '--')):
                            t = strip(n.kids[0])
                            if t.kind == 'DeclRefExpr' and t.refid == vid:
                                mods.append(n)
                        if n.kind == 'VarDecl' and n.id == vid:
                            return None
                    if mods:
                        cs = strip(c)
                        return cs if cs is mods[0] or cs.uid == mods[0].uid else None
        if par.kind in ('ForStmt', 'WhileStmt', 'DoStmt'):
            return None
        stmt = par
        par = fs.parent.get(par.uid)
    return None


def guarded_mod64(e, fs, at):
    for ifs in fs.enclosing_all(at, ('IfStmt',)):
        c = strip(ifs.kids[0])
        then = ifs.kids[1]
        if not any(x is at for x in then.walk()):
            continue
        for cc in _conjuncts(c):
            cc = strip(cc)
            if cc.kind == 'BinaryOperator' and cc.op == '==':
                l, r = strip(cc.kids[0], casts=True), strip(cc.kids[1], casts=True)
                # x % 64 == 0
                if l.kind == 'BinaryOperator' and l.op == '%' and int_value(l.kids[1]) == 64 and int_value(r) == 0 and pp(strip(l.kids[0], casts=True)) == pp(e):
                    return True
                # x_radix == x  with  x_radix = 64 * (x / 64)
                for u, v in ((l, r), (r, l)):
                    if pp(v) == pp(e) and u.kind == 'DeclRefExpr' and pp(u) != pp(e):
                        d = fs.single_def(u.refid)
                        if d is not None and mod64(d, fs, at, 8)[0]:
                            return True
    return False


def _conjuncts(c):
    c = strip(c)
    if c.kind == 'BinaryOperator' and c.op == '&&':
        return _conjuncts(c.kids[0]) + _conjuncts(c.kids[1])
    return [c]
