"""Engine C: last-word discipline.  Classifies every store into the data words of a matrix that may
be a caller's matrix by FORM (how the changed bits are confined) and POSITION (relative to the
destination's width), and applies the verdict table of DESIGN.md Appendix G.1."""
import json
import os

from .ast import strip, callee_name, pp, int_value, type_is_pointer
from .symbolic import FuncSym, Lin
from .driver import RuleResult, Finding
from .frontend import AnalysisBroken, VERIF

RAW_XOR_KERNELS = {'_mzd_combine': 1, '_mzd_combine_2': 2, '_mzd_combine_3': 3, '_mzd_combine_4': 4,
                   '_mzd_combine_5': 5, '_mzd_combine_6': 6, '_mzd_combine_7': 7, '_mzd_combine_8': 8}
TABLE_BUILDERS = {'mzd_make_table', 'mzd_make_table_ple', 'mzd_make_table_trtri', 'mzd_submatrix', 'mzd_set_ui',
                  'mzd_init', 'mzd_init_window', 'mzd_free', 'mzd_row_add', 'mzd_row_add_offset', 'mzd_copy'}


def rules_table():
    p = os.path.join(VERIF, 'rules', 'masks.json')
    return json.load(open(p))


class Mask(object):
    """Recognised mask expression.  kind: 'hb' (X->high_bitmask), 'param' (word parameter used as mask),
    'macro' (structurally recognised bit-range mask), 'bit', 'not', 'and', 'or'."""

    def __init__(self, kind, a=None, b=None):
        self.kind, self.a, self.b = kind, a, b

    def __repr__(self):
        if self.kind in ('hb', 'param', 'macro'):
            return '%s(%s)' % (self.kind, self.a)
        if self.kind == 'bit':
            return 'bit'
        if self.kind == 'not':
            return '~%r' % self.a
        return '(%r %s %r)' % (self.a, '&' if self.kind == 'and' else '|', self.b)

    def within_hb(self, owner=None):
        """Is the mask's bit set provably a subset of `owner`'s valid-bit mask (any owner if None)?"""
        if self.kind == 'hb':
            return owner is None or self.a == owner
        if self.kind == 'param':
            return True   # contract: callers pass the destination's high_bitmask (checked at call sites)
        if self.kind == 'and':
            return self.a.within_hb(owner) or self.b.within_hb(owner)
        if self.kind == 'or':
            return self.a.within_hb(owner) and self.b.within_hb(owner)
        return False

    def is_excess_of(self, owner=None):
        """Is it exactly the complement of a high_bitmask (revert idiom)?"""
        return self.kind == 'not' and self.a.kind in ('hb', 'param') and (owner is None or self.a.kind == 'param' or self.a.a == owner)


class Store(object):
    __slots__ = ('node', 'func', 'dest', 'form', 'mask', 'pos', 'posinfo', 'lhs', 'rhs', 'op', 'src', 'ordinal', 'bump', 'owner')

    def describe(self):
        return '%s %s @%s' % (self.form, self.mask if self.mask is not None else '', self.pos)


class MaskAnalysis(object):
    def __init__(self, ctx, prog):
        self.prog = prog
        self.eff = ctx.effects(prog)

    # ------------------------------------------------------------------ mask recognition
    def mask_of(self, e, fs, at=None, depth=0):
        e = strip(e, casts=True)
        if e is None or depth > 8:
            return None
        k = e.kind
        if k == 'MemberExpr' and e.name == 'high_bitmask':
            return Mask('hb', fs.base_name(e.kids[0]))
        if k == 'DeclRefExpr':
            if e.refkind == 'ParmVarDecl' and (e.type or '').replace('const', '').strip() == 'word':
                return Mask('param', e.ref)
            d = fs.single_def(e.refid)
            if d is None and at is not None:
                d = self.prev_def(e.refid, at, fs)
            if d is not None:
                return self.mask_of(d, fs, at, depth + 1)
            return None
        if k == 'UnaryOperator' and e.op == '~':
            m = self.mask_of(e.kids[0], fs, at, depth + 1)
            return Mask('not', m) if m else None
        if k == 'BinaryOperator' and e.op in ('&', '|'):
            a = self.mask_of(e.kids[0], fs, at, depth + 1)
            b = self.mask_of(e.kids[1], fs, at, depth + 1)
            if e.op == '&':
                if a and b:
                    return Mask('and', a, b)
                # X & m : bits confined by m
                return None
            if a and b:
                return Mask('or', a, b)
            return None
        if k == 'ConditionalOperator':
            a = self.mask_of(e.kids[1], fs, at, depth + 1)
            b = self.mask_of(e.kids[2], fs, at, depth + 1)
            if a and b:
                m_ = Mask('or', a, b)
                m_.cond = e.kids[0]
                return m_
            return None
        if k == 'BinaryOperator' and e.op in ('<<', '>>'):
            l = strip(e.kids[0], casts=True)
            if l.kind == 'DeclRefExpr' and l.ref == 'm4ri_one' and e.op == '<<':
                return Mask('bit')
            if l.kind == 'DeclRefExpr' and l.ref == 'm4ri_ffff':
                # __M4RI_LEFT_BITMASK(X->ncols % 64) is structurally X's high_bitmask
                if e.op == '>>':
                    sh = fs.sym(e.kids[1])
                    for a in sh.atoms():
                        pass
                    r = strip(e.kids[1], casts=True)
                    if r.kind == 'BinaryOperator' and r.op == '%' and int_value(r.kids[1]) == 64:
                        inner = fs.sym(r.kids[0])          # 64 - n
                        n_ = Lin(64) - inner
                        if not n_.c and len(n_.t) == 1:
                            (a, k), = n_.t.items()
                            if k == 1 and a.startswith('(') and a.endswith(')%(64)') and a[1:-6].endswith('.ncols'):
                                return Mask('hb', a[1:-6][:-6])
                return Mask('macro', pp(e.kids[1]))
            inner = self.mask_of(l, fs, at, depth + 1)
            if inner is not None and inner.kind == 'macro':
                return Mask('macro', pp(e))
            return None
        return None

    def prev_def(self, vid, at, fs):
        """Nearest assignment to local `vid` among the previous siblings of the statement containing `at`."""
        stmt = at
        par = fs.parent.get(stmt.uid)
        while par is not None and par.kind != 'CompoundStmt':
            stmt = par
            par = fs.parent.get(stmt.uid)
        if par is None:
            return None
        idx = None
        for i, c in enumerate(par.kids):
            if c is stmt:
                idx = i
        if idx is None:
            return None
        for c in reversed(par.kids[:idx]):
            for n in c.walk():
                if n.kind == 'BinaryOperator' and n.op == '=':
                    l = strip(n.kids[0])
                    if l.kind == 'DeclRefExpr' and l.refid == vid:
                        return n.kids[1] if c is n or c.kind in ('BinaryOperator',) or True else None
                if n.kind == 'VarDecl' and n.id == vid and n.kids:
                    return n.kids[-1]
        return None

    # ------------------------------------------------------------------ form
    def confined_by(self, e, fs, at, lv_text=None):
        """If the value of e has all its set bits inside a recognised mask m (e = X & m, or a variable
        defined so), return m."""
        e = strip(e, casts=True)
        if e is None:
            return None
        if e.kind == 'BinaryOperator' and e.op == '&':
            for i in (0, 1):
                m = self.mask_of(e.kids[i], fs, at)
                if m is not None:
                    other = self.confined_by(e.kids[1 - i], fs, at)
                    return Mask('and', m, other) if other is not None else m
            for i in (0, 1):
                m = self.confined_by(e.kids[i], fs, at)
                if m is not None:
                    return m
            return None
        if e.kind == 'BinaryOperator' and e.op == '<<':
            l = strip(e.kids[0], casts=True)
            # ((x >> j) & m4ri_one) << i : single bit
            c = self.confined_by(l, fs, at)
            if c is not None and c.kind == 'bit':
                return Mask('bit')
            if l.kind == 'DeclRefExpr' and l.ref == 'm4ri_one':
                return Mask('bit')
            return None
        if e.kind == 'BinaryOperator' and e.op in ('|', '^'):
            a = self.confined_by(e.kids[0], fs, at)
            b = self.confined_by(e.kids[1], fs, at)
            if a is not None and b is not None:
                return Mask('or', a, b)
            return None
        if e.kind == 'DeclRefExpr':
            if e.ref == 'm4ri_one':
                return Mask('bit')
            d = fs.single_def(e.refid)
            if d is None:
                d = self.prev_def(e.refid, at, fs)
            if d is not None:
                return self.confined_by(d, fs, at)
            return None
        if e.kind == 'ConditionalOperator':
            a = self.confined_by(e.kids[1], fs, at)
            b = self.confined_by(e.kids[2], fs, at)
            if a is not None and b is not None:
                m_ = Mask('or', a, b)
                m_.cond = e.kids[0]
                return m_
        m = self.mask_of(e, fs, at)
        return m

    def classify_form(self, st, fs):
        """Returns (form, mask).  forms: MASKED, BIT, XORSRC, FULL."""
        n = st.node
        op = st.op
        lhs, rhs = st.lhs, st.rhs
        ltxt = pp(strip(lhs, casts=True))
        if op in ('^=', '|='):
            m = self.confined_by(rhs, fs, n)
            if m is not None:
                return ('BIT' if m.kind == 'bit' else 'MASKED'), m
            if op == '^=':
                return 'XORSRC', None
            return 'FULL', None
        if op == '&=':
            r = strip(rhs, casts=True)
            # lv &= ~m   |  lv &= X | ~m  | lv &= ~(values << spot)  (bit-range clear: documented precondition)
            if r.kind == 'UnaryOperator' and r.op == '~':
                m = self.mask_of(r.kids[0], fs, n) or self.confined_by(r.kids[0], fs, n)
                if m is not None:
                    return ('BIT' if m.kind == 'bit' else 'MASKED'), m
                return 'ANDNOT', None
            if r.kind == 'BinaryOperator' and r.op == '|':
                for i in (0, 1):
                    x = strip(r.kids[i], casts=True)
                    if x.kind == 'UnaryOperator' and x.op == '~':
                        m = self.mask_of(x.kids[0], fs, n)
                        if m is not None:
                            return 'MASKED', m
            m = self.mask_of(r, fs, n)
            if m is not None and m.kind == 'not':
                return 'MASKED', m.a
            return 'AND', None
        if op == '=':
            r = strip(rhs, casts=True)
            # lv = (lv & ~m) | (X & m)   (either order)
            if r.kind == 'BinaryOperator' and r.op == '|':
                a, b = strip(r.kids[0], casts=True), strip(r.kids[1], casts=True)
                for keep, new in ((a, b), (b, a)):
                    if keep.kind == 'BinaryOperator' and keep.op == '&':
                        for i in (0, 1):
                            if pp(strip(keep.kids[i], casts=True)) == ltxt:
                                km = self.mask_of(keep.kids[1 - i], fs, n)
                                nm = self.confined_by(new, fs, n)
                                if km is not None and km.kind == 'not' and nm is not None:
                                    if repr(km.a) == repr(nm) or (nm.kind == 'bit' and km.a.kind == 'bit') or repr(nm).startswith('(' + repr(km.a)) or repr(km.a) in repr(nm):
                                        return ('BIT' if nm.kind == 'bit' else 'MASKED'), km.a
            # lv = X & m : value confined to m, all other bits zeroed (right for owners/tables only)
            cm = self.confined_by(r, fs, n)
            if cm is not None and cm.kind != 'bit':
                return 'ASSIGNM', cm
            # lv = lv & w[j]  (write-mask idiom)
            if r.kind == 'BinaryOperator' and r.op == '&':
                for i in (0, 1):
                    if pp(strip(r.kids[i], casts=True)) == ltxt:
                        return 'ANDW', None
            return 'FULL', None
        if op in ('++', '--'):
            return 'FULL', None
        return 'FULL', None

    # ------------------------------------------------------------------ position
    def pointer_origin(self, e, fs, depth=0):
        """Decompose a word-pointer expression into (matrix base name, row expr text, offset Lin) when it
        is mzd_row(X, r) + off (through single-definition locals); else None."""
        e = strip(e, casts=True)
        if e is None or depth > 6:
            return None
        if e.kind == 'CallExpr' and callee_name(e) in ('mzd_row', 'mzd_row_const'):
            return fs.base_name(e.kids[1]), pp(e.kids[2]), Lin(0)
        if e.kind == 'BinaryOperator' and e.op in ('+', '-'):
            a, b = e.kids
            if type_is_pointer(a.type):
                o = self.pointer_origin(a, fs, depth + 1)
                if o is None:
                    return None
                off = fs.sym(b)
                return o[0], o[1], (o[2] + off) if e.op == '+' else (o[2] - off)
            if type_is_pointer(b.type) and e.op == '+':
                o = self.pointer_origin(b, fs, depth + 1)
                if o is None:
                    return None
                return o[0], o[1], o[2] + fs.sym(a)
            return None
        if e.kind == 'DeclRefExpr':
            if e.refid in fs.mutated:
                return None
            d = fs.single_def(e.refid)
            if d is not None:
                return self.pointer_origin(d, fs, depth + 1)
            return None
        if e.kind == 'MemberExpr' and e.name == 'data':
            return fs.base_name(e.kids[0]), '0', Lin(0)
        return None

    def classify_pos(self, st, fs):
        """INTERIOR / LAST / MAYBE (range reaches width-1) / BEYOND / UNKNOWN, plus details."""
        l = strip(st.lhs, casts=True)
        base = idx = None
        if l.kind == 'ArraySubscriptExpr':
            base, idx = l.kids[0], l.kids[1]
        elif l.kind == 'UnaryOperator' and l.op == '*':
            inner = strip(l.kids[0], casts=True)
            if inner.kind == 'BinaryOperator' and inner.op == '+':
                base, idx = inner.kids[0], inner.kids[1]
            else:
                base, idx = inner, None
        else:
            return 'UNKNOWN', dict(why='lvalue shape')
        b = strip(base, casts=True)
        if b.kind == 'UnaryOperator' and b.op in ('++', '--'):
            st.bump = True
            r_ = self._bump_in_counted_loop(st, b, fs)
            if r_ is not None:
                base, lo_i, hi_i = r_
                o = self.pointer_origin(base, fs)
                if o is not None:
                    X, row, off = o
                    st.owner = X
                    W = Lin.atom('%s.width' % X)
                    hi, lo = off + hi_i, off + lo_i
                    info = dict(owner=X, max_word='%r' % hi, min_word='%r' % lo, note='pointer bumped once per iteration of a counted loop')
                    fwd = hi - (Lin.atom('%s.fullwords' % X) - Lin(1))
                    if fwd.is_const() and fwd.c <= 0:
                        return 'INTERIOR', dict(info, note='only full words (no excess bits) are addressed')
                    hi = self._upper_in_terms_of(hi, X, st.func)
                    dhi, dlo = hi - (W - Lin(1)), lo - (W - Lin(1))
                    if dhi.is_const():
                        if dhi.c < 0:
                            return 'INTERIOR', info
                        if dhi.c == 0:
                            return ('LAST' if (dlo.is_const() and dlo.c == 0) else 'MAYBE'), info
                        return 'BEYOND', info
            return 'UNKNOWN', dict(why='pointer bump')
        o = self.pointer_origin(base, fs)
        if o is None:
            return 'UNKNOWN', dict(why='pointer origin')
        X, row, off = o
        st.owner = X
        W = Lin.atom('%s.width' % X)
        if idx is None:
            hi = off
            lo = off
        else:
            hi = fs.sym_max(idx, st.node)
            lo = fs.sym_min(idx, st.node)
            if hi is None or lo is None:
                return 'UNKNOWN', dict(why='index depends on a mutated local', owner=X)
            hi = off + hi
            lo = off + lo
        info = dict(owner=X, max_word='%r' % hi, min_word='%r' % lo)
        # full words only: index <= X.fullwords - 1  (words without excess bits)
        fwd = hi - (Lin.atom('%s.fullwords' % X) - Lin(1))
        if fwd.is_const() and fwd.c <= 0:
            return 'INTERIOR', dict(info, note='only full words (no excess bits) are addressed')
        hi = self._upper_in_terms_of(hi, X, st.func)
        dhi = hi - (W - Lin(1))
        dlo = lo - (W - Lin(1))
        # constant subscripts under `switch (X->width) case K:`
        if not dhi.is_const():
            sw = self.width_case(st.node, fs, X)
            if sw is not None and hi.is_const() and lo.is_const():
                dhi = Lin(hi.c - (sw - 1))
                dlo = Lin(lo.c - (sw - 1))
                info['width_case'] = sw
        if dhi.is_const():
            if dhi.c < 0:
                return 'INTERIOR', info
            if dhi.c == 0:
                if dlo.is_const() and dlo.c == 0:
                    return 'LAST', info
                return 'MAYBE', info
            return 'BEYOND', info
        return 'UNKNOWN', info

    def _bump_in_counted_loop(self, st, bump, fs):
        """`T *p = BASE; for (j = lo; j < hi; ++j) { ... *p++ ...; }` with p post-incremented exactly once per iteration, at the
        top level of the loop body, and defined once before the loop: the word addressed in iteration j is BASE[j - lo].
        Returns (BASE node, Lin 0, Lin hi - 1 - lo) or None."""
        if bump.op != '++' or not getattr(bump, 'postfix', True):
            return None
        pv = strip(bump.kids[0], casts=True)
        if pv.kind != 'DeclRefExpr' or pv.refkind != 'VarDecl':
            return None
        defs = fs.defs.get(pv.refid, [])
        if len(defs) != 1:
            return None
        loop = fs.enclosing(st.node, ('ForStmt',))
        if loop is None or any(x is defs[0] for x in loop.walk()):
            return None
        iv = fs._induction(loop)
        if iv is None or iv[3] != 1:
            return None
        # every modification of p in the whole function: exactly this bump; it sits in a top-level statement of the loop body
        mods = []
        for n in fs.f.body.walk():
            if (n.kind == 'UnaryOperator' and n.op in ('++', '--', '&')) or n.kind == 'CompoundAssignOperator' or (n.kind == 'BinaryOperator' and n.op == '='):
                t = strip(n.kids[0], casts=True)
                if t.kind == 'DeclRefExpr' and t.refid == pv.refid:
                    mods.append(n)
        mods = [m for m in mods if not (m.kind == 'BinaryOperator' and m.kids[1] is defs[0])]
        if len(mods) != 1 or mods[0] is not bump:
            return None
        body = loop.kids[4]
        tops = body.kids if body.kind == 'CompoundStmt' else [body]
        holder = [t for t in tops if any(x is bump for x in t.walk())]
        if len(holder) != 1 or strip(holder[0]).kind in ('IfStmt', 'ForStmt', 'WhileStmt', 'SwitchStmt', 'DoStmt'):
            return None
        # no other loop between: the store's innermost loop is this one
        inner = fs.enclosing(bump, ('ForStmt', 'WhileStmt', 'DoStmt'))
        if inner is not loop:
            return None
        return defs[0], Lin(0), iv[2] - Lin(1) - iv[1]

    def _upper_in_terms_of(self, hi, X, f):
        """Rewrite an upper bound that mentions min(..X.width..) or Y.width with Y.width <= X.width."""
        W = '%s.width' % X
        for a in list(hi.atoms()):
            k = hi.t[a]
            if k <= 0:
                continue
            if a.startswith('min(') and W in a[4:-1].split(','):
                hi = hi.subst(a, Lin.atom(W))
            elif a.endswith('.width') and a != W:
                Y = a[:-6]
                if self.relations is not None and self.relations(f, Y, X):
                    hi = hi.subst(a, Lin.atom(W))
        return hi

    relations = None

    def width_case(self, n, fs, X):
        """If n is (lexically) under `case K:` of `switch (X->width)`, return K."""
        p = fs.parent.get(n.uid)
        child = n
        while p is not None:
            if p.kind == 'SwitchStmt':
                c = strip(p.kids[-2], casts=True)
                # `wi_t const width = X->width; switch (width)`: a local defined once stands for its definition
                for _ in range(3):
                    if c.kind == 'DeclRefExpr' and c.refkind == 'VarDecl' and fs.single_def(c.refid) is not None:
                        c = strip(fs.single_def(c.refid), casts=True)
                Y = fs.base_name(c.kids[0]) if c.kind == 'MemberExpr' else None
                if c.kind == 'MemberExpr' and c.name == 'width' and (Y == X or (self.relations is not None and self.relations(self._cur_f, Y, X) and self.relations(self._cur_f, X, Y))):
                    # find the case label governing `child` inside the switch body
                    body = p.kids[-1]
                    cur = None
                    for s in body.kids:
                        x = s
                        while x.kind in ('CaseStmt', 'DefaultStmt'):
                            cur = int_value(x.kids[0]) if x.kind == 'CaseStmt' else None
                            x = x.kids[-1]
                        if any(y is n for y in s.walk()):
                            return cur
                return None
            child = p
            p = fs.parent.get(p.uid)
        return None

    # ------------------------------------------------------------------ enumeration
    def matrix_params(self, f):
        out = {}
        for i, p in enumerate(f.params):
            t = (p.type or '')
            if 'mzd_t' in t and '*' in t:
                out[i] = p
        return out

    def stores(self, f):
        """All stores (assignments, compound assignments, memcpy/memset, raw XOR kernels) whose target
        may be data words of a matrix parameter (or of a window of one)."""
        Q = self.eff.query(f)
        fs = FuncSym(f)
        mp = self.matrix_params(f)
        self._cur_f = f
        out = []
        for n in f.body.walk():
            lhs = rhs = None
            op = None
            if n.kind == 'BinaryOperator' and n.op == '=':
                lhs, rhs, op = n.kids[0], n.kids[1], '='
            elif n.kind == 'CompoundAssignOperator':
                lhs, rhs, op = n.kids[0], n.kids[1], n.op
            elif n.kind == 'UnaryOperator' and n.op in ('++', '--'):
                lhs, rhs, op = n.kids[0], None, n.op
            elif n.kind == 'CallExpr' and callee_name(n) in ('memcpy', 'memset', 'memmove'):
                locs = Q.pts(n.kids[1])
                dests = sorted(set(r[1] for (r, part) in locs if r[0] == 'p' and part == 'data' and r[1] in mp))
                if dests:
                    st = Store()
                    st.node, st.func, st.dest, st.lhs, st.rhs, st.op = n, f, dests, n.kids[1], None, callee_name(n)
                    st.bump = False
                    st.owner = None
                    st.form, st.mask = 'FULL', None
                    o = self.pointer_origin(n.kids[1], fs)
                    if o is not None:
                        st.owner = o[0]
                        cnt = fs.sym(n.kids[3])
                        words = None
                        # sizeof(word) * k
                        if all(v % 8 == 0 for v in cnt.t.values()) and cnt.c % 8 == 0:
                            words = Lin(cnt.c // 8, dict((a, v // 8) for a, v in cnt.t.items()))
                        if words is not None:
                            d = (o[2] + words - Lin(1)) - (Lin.atom('%s.width' % o[0]) - Lin(1))
                            st.pos = ('INTERIOR' if d.c < 0 else 'MAYBE') if d.is_const() else 'UNKNOWN'
                            st.posinfo = dict(owner=o[0], words='%r' % words)
                        else:
                            st.pos, st.posinfo = 'UNKNOWN', dict(why='byte count')
                    else:
                        st.pos, st.posinfo = 'UNKNOWN', dict(why='pointer origin')
                    out.append(st)
                continue
            elif n.kind == 'CallExpr' and callee_name(n) in ('mzd_clear_bits', 'mzd_xor_bits', 'mzd_and_bits') and len(n.kids) >= 5:
                # bit-range primitive asked to work up to the end of the word: n == 64 - (y % 64)
                locs = Q.pts(n.kids[1])
                dests = sorted(set(r[1] for (r, part) in locs if r[0] == 'p' and part in ('hdr', 'data', 'win') and r[1] in mp))
                nn = fs.sym(n.kids[4])
                yy = fs.sym(n.kids[3])
                to_end = False
                for a, k in nn.t.items():
                    if k == -1 and a.startswith('(') and a.endswith(')%(64)') and nn.c == 64 and len(nn.t) == 1:
                        to_end = True
                if dests and to_end:
                    st = Store()
                    st.node, st.func, st.dest, st.lhs, st.rhs, st.op = n, f, dests, n.kids[1], None, callee_name(n)
                    st.bump, st.owner, st.mask = False, None, None
                    st.form = 'BITS-TO-WORD-END'
                    st.pos, st.posinfo = 'UNKNOWN', dict(why='bit range runs to the end of the word holding column %r' % yy)
                    out.append(st)
                continue
            elif n.kind == 'CallExpr' and callee_name(n) in RAW_XOR_KERNELS:
                locs = Q.pts(n.kids[1])
                dests = sorted(set(r[1] for (r, part) in locs if r[0] == 'p' and part == 'data' and r[1] in mp))
                if dests:
                    st = Store()
                    st.node, st.func, st.dest, st.lhs, st.rhs, st.op = n, f, dests, n.kids[1], n.kids[2], 'xor-kernel'
                    st.bump = False
                    st.owner = None
                    st.form, st.mask = 'XORSRC', None
                    st.pos, st.posinfo = 'MAYBE', dict(why='whole row tail')
                    out.append(st)
                continue
            if lhs is None:
                continue
            l = strip(lhs)
            if l.kind == 'DeclRefExpr':
                continue
            t = (l.type or '')
            if t not in ('word', '__m128i', 'uint64_t', 'const word'):
                continue
            locs = Q.lv(lhs)
            dests = sorted(set(r[1] for (r, part) in locs if r[0] == 'p' and part == 'data' and r[1] in mp))
            if not dests:
                continue
            st = Store()
            st.node, st.func, st.dest, st.lhs, st.rhs, st.op = n, f, dests, lhs, rhs, op
            st.bump = False
            st.owner = None
            st.form, st.mask = self.classify_form(st, fs)
            st.pos, st.posinfo = self.classify_pos(st, fs)
            out.append(st)
        return out, fs, Q


# ====================================================================== verdicts

def _hb_alias(mask_text_arg, fs):
    return None


class Verdicts(object):
    """Applies the verdict table to every store of every function (rule C1) and the dedicated
    sub-rules (tail families, kernel contracts, clean-table sources)."""

    def __init__(self, ctx, prog):
        self.ctx = ctx
        self.prog = prog
        self.MA = MaskAnalysis(ctx, prog)
        self.table = rules_table()
        self.eff = self.MA.eff
        self._callers = None
        self.MA.relations = self.width_le

    # -- width relations -----------------------------------------------------------------
    def width_le(self, f, small, big):
        """Is `small`.width <= `big`.width established for function f?  (validated in f itself,
        established by allocation, or frozen contract)."""
        if small == big:
            return True
        rel = self.table.get('width_relations', {}).get(f.name, [])
        for r in rel:
            if r['small'] == small and r['big'] == big:
                return True
            if r.get('equal') and r['small'] == big and r['big'] == small:
                return True
        return False

    def width_le_name(self, fname, small, big):
        class _F(object):
            name = fname
        return self.width_le(_F, small, big)

    # -- tail families ---------------------------------------------------------------------
    def tail_family_of(self, st, fs):
        """If the store is a member of a fall-through `switch (e - j)` tail after a
        `for (...; j + M <= e - 1; j += M)` loop, return (switch node, case value, M, ok_shape)."""
        n = st.node
        sw = fs.enclosing(n, ('SwitchStmt',))
        if sw is None:
            return None
        body = sw.kids[-1]
        if body.kind != 'CompoundStmt':
            return None
        labels = []
        member_of = None
        for s in body.kids:
            x = s
            lab = None
            while x.kind in ('CaseStmt', 'DefaultStmt'):
                lab = int_value(x.kids[0]) if x.kind == 'CaseStmt' else 'default'
                x = x.kids[-1]
            if lab is not None:
                labels.append(lab)
            if any(y is n for y in s.walk()):
                member_of = labels[-1] if labels else None
        if not labels or any(not isinstance(l, int) for l in labels):
            return None
        M = max(labels)
        if labels != list(range(M, 0, -1)):
            return None
        return sw, member_of, M

    # -- verdict ----------------------------------------------------------------------------
    def dest_names(self, st):
        return [st.func.params[i].name for i in st.dest]

    def verdict(self, st, fs, Q):
        """Returns (ok, reason)"""
        f = st.func
        dnames = self.dest_names(st)
        form, pos, m = st.form, st.pos, st.mask
        owner = st.owner
        # position relative to the *destination*: the classified owner may be another matrix
        # whose width is <= the destination's (validated / contract)
        interior = False
        if pos == 'INTERIOR' and owner is not None:
            interior = all(self.width_le(f, owner, d) for d in dnames)
        if pos in ('LAST', 'MAYBE', 'UNKNOWN') and owner is not None and owner not in dnames:
            # last word of a *narrower or equal* matrix is interior or last of the destination: keep class
            pass
        if form == 'BIT':
            return True, 'bit-granular'
        od = self.table.get('owner_dests', {}).get(f.name)
        if od is not None and all(d in od['params'] for d in dnames):
            if form == 'ASSIGNM' and m is not None and m.within_hb(None):
                return True, 'owner/table destination: value confined to valid columns, excess zeroed'
            # conditional mask  (E != 1) ? begin : begin & end
            if form == 'ASSIGNM' and m is not None and m.kind == 'or' and m.b.within_hb(None):
                okc, whyc = self._one_word_condition(st, fs, m)
                if okc:
                    return True, 'owner/table destination: first word, masked by mask_end as well when the row part is one word (%s)' % whyc
                return False, 'first word of the row part: mask_end is applied only under a condition that is not "this word is also the last one": %s' % whyc
        if form == 'MASKED':
            if m is not None and (m.within_hb(None)):
                # the mask must belong to the destination or to a matrix at most as wide
                own = self._mask_owner(m)
                if own is None or own in dnames or any(self.width_le(f, own, d) for d in dnames) or own == '<param>':
                    return True, 'changed bits confined to valid columns (%r)' % m
            if interior:
                return True, 'interior word'
            return False, 'masked by %r which is not the destination\'s valid-bit mask, position %s' % (m, pos)
        if interior:
            return True, 'interior word (max word %s)' % (st.posinfo or {}).get('max_word')
        if form == 'XORSRC':
            ok, why = self.clean_sources(st, fs, Q)
            if ok:
                return True, 'whole-word XOR from clean table rows (%s)' % why
            return False, 'whole-word XOR at position %s from a source that is not a clean table: %s' % (pos, why)
        return False, '%s store at position %s' % (form, pos)

    def _one_word_condition(self, st, fs, m):
        """`mask = (E != 1) ? begin : begin & end` stored through `*p++` with p = row + OFF: the masked arm is taken exactly
        when the word is the last one of the row, i.e. E is X->width - OFF."""
        cond = getattr(m, 'cond', None)
        if cond is None:
            return False, 'the choice between the two masks is not a recognisable condition'
        c = strip(cond, casts=True)
        if not (c.kind == 'BinaryOperator' and c.op in ('!=', '>') and int_value(c.kids[1]) == 1):
            return False, 'condition `%s` is not of the form `words != 1`' % pp(c)[:50]
        E = fs.sym(c.kids[0])
        # the pointer stored through and its starting offset
        l = strip(st.lhs, casts=True)
        while l is not None and l.kind in ('UnaryOperator', 'ArraySubscriptExpr', 'ParenExpr') and l.kids:
            l = strip(l.kids[0], casts=True)
        if l is None or l.kind != 'DeclRefExpr':
            return False, 'store target not understood'
        d = fs.single_def(l.refid)
        if d is None:
            d = self.MA.prev_def(l.refid, st.node, fs) if hasattr(self.MA, 'prev_def') else None
        if d is None:
            ds = fs.defs.get(l.refid, [])
            d = ds[0] if ds else None
        if d is None:
            return False, 'no definition of `%s`' % l.ref
        # the store is the first step of the pointer: nothing advances it between its definition and here
        for n_ in st.func.body.walk():
            if (n_.kind == 'UnaryOperator' and n_.op in ('++', '--')) or (n_.kind == 'CompoundAssignOperator' and n_.op in ('+=', '-=')):
                t_ = strip(n_.kids[0], casts=True)
                if t_.kind == 'DeclRefExpr' and t_.refid == l.refid:
                    if not any(x is n_ for x in st.node.walk()):
                        return False, '`%s` is advanced before this store: it is not the first word of the row part' % l.ref
                    break
        d0 = strip(d, casts=True)
        off = Lin(0)
        if d0.kind == 'BinaryOperator' and d0.op == '+':
            a0, b0 = strip(d0.kids[0], casts=True), strip(d0.kids[1], casts=True)
            off = fs.sym(b0) if type_is_pointer(a0.type or '') or a0.kind == 'CallExpr' else fs.sym(a0)
        for X in [p_.name for p_ in st.func.params if 'mzd_t' in (p_.type or '')]:
            if E == Lin.atom('%s.width' % X) - off:
                return True, '`%s` is %s->width minus the starting word' % (pp(strip(c.kids[0], casts=True))[:40], X)
        return False, '`%s` (= %r) is not the number of words from the starting word (%r) to the end of the row' % (pp(c)[:50], E, off)

    def _mask_owner(self, m):
        if m.kind == 'hb':
            return m.a
        if m.kind == 'param':
            return '<param>'
        if m.kind == 'and':
            return self._mask_owner(m.a) or self._mask_owner(m.b)
        if m.kind == 'or':
            return self._mask_owner(m.a)
        return None

    # -- clean sources -------------------------------------------------------------------------
    def clean_sources(self, st, fs, Q):
        f = st.func
        tp = self.table.get('table_params', {}).get(f.name)
        rhs = st.rhs
        if rhs is None:
            return False, 'no source'
        # pointers loaded on the right-hand side
        roots = set()
        if st.op == 'xor-kernel':
            roots |= set(Q.pts(rhs))
            roots |= set(l for l in Q.load(rhs))
        else:
            for n in rhs.walk():
                if n.kind in ('ArraySubscriptExpr',) or (n.kind == 'UnaryOperator' and n.op == '*'):
                    roots |= set(Q.lv(n))
            if not roots:
                return False, 'right-hand side is not a load'
        srcs = set()
        for (r, part) in roots:
            if r[0] == 'local':
                continue
            srcs.add(r)
        if not srcs:
            return False, 'source roots unknown'
        names = []
        for r in srcs:
            if r[0] == 'p':
                pn = f.params[r[1]].name
                if tp is None or pn not in tp:
                    return False, 'source parameter `%s` is not a declared table parameter of %s' % (pn, f.name)
                names.append(pn)
            elif r[0] in ('fresh', 'g'):
                ok, why = self.local_tables_clean(f, fs, Q)
                if not ok:
                    return False, why
                names.append('local tables')
            else:
                return False, 'source root %r' % (r,)
        return True, ', '.join(sorted(set(names)))

    def local_tables_clean(self, f, fs, Q):
        """Every call in f that writes the data of a locally created matrix is a table builder, and f
        itself stores nothing into locally created matrices."""
        key = ('ltc', f.name)
        c = getattr(self, '_ltc', None)
        if c is None:
            c = self._ltc = {}
        if key in c:
            return c[key]
        res = (True, 'local tables written only by builders')
        for n in f.body.find('CallExpr'):
            cn = callee_name(n)
            if cn is None:
                continue
            S = self.eff.summary(cn, f)
            for i, a in enumerate(n.kids[1:]):
                if not type_is_pointer(a.type):
                    continue
                locs = Q.pts(a)
                if not any(r[0] in ('fresh',) or (r[0] == 'g' and r[1] in ('current_cache', 'mzd_cache', 'm4ri_mmc_cache')) for (r, p) in locs):
                    continue
                if any(r[0] == 'p' for (r, p) in locs):
                    continue   # may be the caller's matrix: judged as a destination, not as a table
                writes = False
                if S is not None:
                    writes = any(rt == ('p', i) and part == 'data' for (rt, part) in S.writes)
                elif cn in ('memcpy', 'memset'):
                    writes = i == 0
                if writes and cn not in TABLE_BUILDERS and cn not in self.table.get('table_builders_extra', []):
                    res = (False, 'local matrix is written by %s() at %s, which is not a table builder' % (cn, n.loc))
        c[key] = res
        return res


# ====================================================================== sub-rules and the C1 rule

def _stmt_chain(node, fs):
    """ancestors of node up to the function body"""
    out = []
    p = fs.parent.get(node.uid)
    while p is not None:
        out.append(p)
        p = fs.parent.get(p.uid)
    return out


class TailFamily(object):
    """`for (j = j0; j + M <= E - 1; j += M) { M unit stores }  switch (E - j) { case M: ... case 1: }`
    over bump pointer(s); discharges all members when E + offset == owner.width and case 1 is masked."""

    def __init__(self, V, f, fs, stores):
        self.V, self.f, self.fs = V, f, fs
        self.families = []   # dict(loop, switch, M, E, members=[stores], last=store)
        by_uid = dict((s.node.uid, s) for s in stores)
        for sw in f.body.find('SwitchStmt'):
            body = sw.kids[-1]
            if body.kind != 'CompoundStmt':
                continue
            labels, members = [], []
            cur = None
            ok = True
            for stx in body.kids:
                x = stx
                while x.kind in ('CaseStmt', 'DefaultStmt'):
                    cur = int_value(x.kids[0]) if x.kind == 'CaseStmt' else 'default'
                    labels.append(cur)
                    x = x.kids[-1]
                if cur is None:
                    ok = False
                    break
                sts = [by_uid[n.uid] for n in x.walk() if n.uid in by_uid]
                members.append((cur, x, sts))
            if not ok or not labels or any(not isinstance(l, int) for l in labels):
                continue
            M = max(labels)
            if labels != list(range(M, 0, -1)):
                continue
            if any(len(sts) != 1 for (_l, _x, sts) in members):
                continue
            disc = fs.sym(sw.kids[-2])
            # preceding sibling must be the matching for-loop
            par = fs.parent.get(sw.uid)
            if par is None or par.kind != 'CompoundStmt':
                continue
            idx = [i for i, c in enumerate(par.kids) if c is sw][0]
            loop = None
            for c in reversed(par.kids[:idx]):
                if c.kind == 'ForStmt':
                    loop = c
                    break
                if c.kind not in ('DeclStmt', 'NullStmt'):
                    break
            if loop is None:
                continue
            init, _cv, cond, inc, lbody = loop.kids
            c = strip(cond)
            i_ = strip(inc)
            if not (c.kind == 'BinaryOperator' and c.op == '<=' and i_.kind == 'CompoundAssignOperator' and i_.op == '+=' and int_value(i_.kids[1]) == M):
                continue
            jv = strip(i_.kids[0])
            if jv.kind != 'DeclRefExpr':
                continue
            j = Lin.atom(jv.ref)
            lhs = fs.sym(c.kids[0])          # j + M
            if lhs != j + Lin(M):
                continue
            E = fs.sym(c.kids[1]) + Lin(1)    # j + M <= E - 1
            if disc != E - j:
                continue
            j0 = None
            if init.kind == 'BinaryOperator' and init.op == '=':
                j0 = int_value(init.kids[1])
            elif init.kind == 'DeclStmt' and init.kids and init.kids[0].kids:
                j0 = int_value(init.kids[0].kids[-1])
            if j0 not in (0, 1):
                continue
            lsts = [by_uid[n.uid] for n in lbody.walk() if n.uid in by_uid]
            self.families.append(dict(loop=loop, switch=sw, M=M, E=E, j0=j0, members=members, loop_stores=lsts,
                                      last=members[-1][2][0], parent=par, idx=idx))

    def discharge(self):
        """Returns {store uid: reason} for every store discharged by a well-formed tail family and a list of
        (family, problem) for malformed ones."""
        out = {}
        problems = []
        for fam in self.families:
            last = fam['last']
            dests = [self.f.params[i].name for i in last.dest]
            # bump pointer origin of the destination: declared as  word *p = mzd_row(X, r) + o;
            l = strip(last.lhs, casts=True)
            ptr = None
            for n in l.walk():
                if n.kind == 'DeclRefExpr' and type_is_pointer(n.type):
                    ptr = n
                    break
            if ptr is None:
                continue
            d0 = self.fs.decl.get(ptr.refid)
            if d0 is None or d0.kind != 'VarDecl' or not d0.kids:
                continue
            o = self.V.MA.pointer_origin(d0.kids[-1], self.fs)
            if o is None:
                continue
            X, _row, off = o
            W = Lin.atom('%s.width' % X)
            if fam['E'] + off != W:
                # E counts from another matrix of equal width?
                E2 = self.V.MA._upper_in_terms_of(fam['E'] + off, X, self.f)
                if E2 != W or not all(self.V.width_le(self.f, X, a[:-6]) for a in (fam['E'] + off).atoms() if a.endswith('.width')):
                    problems.append((fam, 'loop bound %r + offset %r is not the width of %s' % (fam['E'], off, X)))
                    continue
            # the masked tail
            m = last.mask
            own = self.V._mask_owner(m) if m is not None else None
            od = self.V.table.get('owner_dests', {}).get(self.f.name)
            owner_dest = od is not None and all(d in od['params'] for d in dests)
            masked_ok = (last.form == 'MASKED' or (owner_dest and last.form == 'ASSIGNM')) and m is not None and m.within_hb(None) and (
                own == '<param>' or own == X or own in dests or (own is not None and self.V.width_le(self.f, own, X) and self.V.width_le(self.f, X, own)))
            if not masked_ok:
                problems.append((fam, 'the last member (case 1) of the tail is not masked by the valid-bit mask of %s' % X))
                continue
            # pre-loop stores on the same pointer: j0 of them, between the pointer declaration and the loop
            reason = 'tail family over %s: words < width-1 are interior, the last word is masked (case 1)' % X
            for (_lab, _x, sts) in fam['members']:
                out[sts[0].node.uid] = reason
            for s_ in fam['loop_stores']:
                out[s_.node.uid] = reason
            if fam['j0'] == 1:
                # exactly one store before the loop writes word `off`; if E == 1 it is also the last word:
                # its mask must then include the valid-bit mask (conditional mask idiom)
                pre = []
                for c in fam['parent'].kids[:fam['idx']]:
                    if c is fam['loop']:
                        break
                    for n in c.walk():
                        pass
                fam['pre_needed'] = True
        return out, problems


def rule_C1(ctx, prog, label, only=None, rule='C1'):
    """Every store into the data words of a caller-visible matrix is discharged by form, by position,
    by a well-formed tail family, by a kernel contract, by clean-table sources, or is a frozen exception."""
    rr = RuleResult(rule, 'last-word discipline: no store can change excess bits of a caller-visible matrix')
    V = Verdicts(ctx, prog)
    table = V.table
    exc = table.get('exceptions', [])
    exc_hits = dict((i, 0) for i in range(len(exc)))
    kernels = table.get('kernels', {})
    nfun = 0
    for f in sorted(prog.all_funcs(), key=lambda f: (f.file, f.line)):
        if only is not None and f.name not in only:
            continue
        sts, fs, Q = V.MA.stores(f)
        if not sts:
            continue
        nfun += 1
        tf = TailFamily(V, f, fs, sts)
        tail_ok, tail_problems = tf.discharge()
        kern = kernels.get(f.name)
        kern_ok = {}
        if kern is not None:
            kern_ok, kproblem = check_kernel(V, f, fs, sts, kern)
            if kproblem:
                rr.ob(False, None, Finding(rule, '%s|%s|kernel-contract' % (rule, f.name), f.loc, f.name,
                                           'kernel contract of %s no longer holds: %s' % (f.name, kproblem), dict(contract=kern), label))
        for fam, why in tail_problems:
            sw = fam['switch']
            rr.ob(False, None, Finding(rule, '%s|%s|tail-family|%s' % (rule, f.name, pp(sw.kids[-2])), sw.loc, f.name,
                                       'unrolled tail: ' + why, {}, label))
        # group identical verdict classes for ordinal-free exception matching
        for st in sts:
            rr.instances += 1
            ok, why = V.verdict(st, fs, Q)
            if not ok and st.node.uid in tail_ok:
                ok, why = True, tail_ok[st.node.uid]
            if not ok and st.node.uid in kern_ok:
                ok, why = True, kern_ok[st.node.uid]
            if not ok:
                for i, e in enumerate(exc):
                    if e['function'] == f.name and e['form'] == st.form and e['position'] == st.pos and \
                            e.get('dest', V.dest_names(st)[0]) in V.dest_names(st) and exc_hits[i] < e.get('count', 1):
                        side = e.get('requires')
                        if side and not check_side_condition(V, f, fs, side):
                            why = 'the side condition of its frozen exception no longer holds (%s): %s' % (side.get('kind'), e['reason'])
                            exc_hits[i] += 1      # the site still exists: a violation, not a stale table
                            break
                        exc_hits[i] += 1
                        ok, why = True, 'frozen exception: ' + e['reason']
                        break
            fnd = None
            if not ok:
                sig = '%s|%s|%s|%s|%s' % (rule, f.name, ','.join(V.dest_names(st)), st.form, st.pos)
                fnd = Finding(rule, sig, st.node.loc, f.name,
                              'store `%s` into %s: %s' % (pp(st.node)[:90], '/'.join(V.dest_names(st)), why),
                              dict(form=st.form, mask=repr(st.mask), position=st.pos, posinfo=st.posinfo), label)
            rr.ob(ok, dict(function=f.name, store=pp(st.node)[:80], form=st.form, position=st.pos, discharged_by=why) if ok else None, fnd)
    # identical (function, destination, form, position) findings are merged into one with their count in the key,
    # so that an additional undischarged store of the same class in the same function is a *new* finding
    cnt = {}
    for fd in rr.findings:
        cnt[fd.key] = cnt.get(fd.key, 0) + 1
    seen = set()
    merged = []
    for fd in rr.findings:
        if fd.key in seen:
            continue
        seen.add(fd.key)
        if cnt[fd.key] > 1:
            fd.msg += ' (+%d more stores of the same class in this function)' % (cnt[fd.key] - 1)
        fd.key = '%s|n=%d' % (fd.key, cnt[fd.key])
        merged.append(fd)
    rr.findings = merged
    for i, e in enumerate(exc):
        if only is None and exc_hits[i] == 0 and e['function'] in prog.funcs:
            raise AnalysisBroken('rules/masks.json exception #%d (%s, %s @%s) matches no store any more: stale table' % (i, e['function'], e['form'], e['position']))
    rr.extra['functions_with_stores'] = nfun
    return rr


def check_side_condition(V, f, fs, side):
    """side: {'kind': 'excess-write-mask', 'dest': 'A'}:  some statement  w[A->width - 1] |= ~A->high_bitmask  exists
    at the top level of the function body (so it dominates the strip loops)."""
    if side['kind'] == 'excess-write-mask':
        X = side['dest']
        for n in f.body.kids:
            s = strip(n)
            if s.kind == 'CompoundAssignOperator' and s.op == '|=':
                l = strip(s.kids[0], casts=True)
                if l.kind == 'ArraySubscriptExpr':
                    idx = fs.sym(l.kids[1])
                    m = V.MA.mask_of(s.kids[1], fs, s)
                    if idx == Lin.atom('%s.width' % X) - Lin(1) and m is not None and m.kind == 'not' and m.a.kind == 'hb' and m.a.a == X:
                        return True
        return False
    if side['kind'] == 'callers-pass-write-mask-of':
        return True
    return False


def check_kernel(V, f, fs, sts, kern):
    """Kernel contract: (1) some local is initialised to the stated counter; (2) the lexically last store into the
    destination is a top-level statement of the body and is masked by the destination's valid-bit mask (or is the
    revert `^= src & ~mask`); (3) every other store has an allowed form."""
    X = kern['dest']
    want = kern['counter']
    found = False
    for vid, ds in fs.defs.items():
        d = fs.decl.get(vid)
        if d is None or d.kind != 'VarDecl' or not d.kids or not d.init:
            continue
        if repr(fs.sym(d.kids[-1], 1)) == want:
            found = True
    if not found:
        return {}, 'no local counter is initialised to `%s`' % want
    mine = [s for s in sts if X in V.dest_names(s)]
    if not mine:
        return {}, 'no store into %s' % X
    last = max(mine, key=lambda s: (s.node.line, s.node.col or 0))
    top = fs.parent.get(last.node.uid)
    if top is not f.body:
        return {}, 'the final store into %s is not an unconditional top-level statement' % X
    m = last.mask
    if kern['tail'] == 'masked':
        if not (last.form == 'MASKED' and m is not None and V._mask_owner(m) == X and m.within_hb(X)):
            return {}, 'the final store `%s` is not confined by %s->high_bitmask' % (pp(last.node)[:60], X)
    elif kern['tail'] == 'revert':
        if not (last.form == 'MASKED' and m is not None and m.is_excess_of(X)):
            return {}, 'the final store `%s` is not the revert `^= src & ~%s->high_bitmask`' % (pp(last.node)[:60], X)
    ok = {}
    for s in mine:
        if s is last or s.form in ('XORSRC', 'FULL', 'MASKED'):
            ok[s.node.uid] = 'kernel contract %s: counter %s, final store %s' % (f.name, want, kern['tail'])
    return ok, None


def rule_C2_callers(ctx, prog, label, rule='C2'):
    """Table contract at call sites: every argument bound to a declared table parameter (or to the table
    destination of a builder) is a locally created matrix written only by table builders, or one of the
    caller's own declared table parameters."""
    rr = RuleResult(rule, 'lookup tables handed to whole-row XOR consumers are local owners written only by table builders')
    V = Verdicts(ctx, prog)
    tp = V.table.get('table_params', {})
    od = V.table.get('owner_dests', {})
    for f in sorted(prog.all_funcs(), key=lambda f: (f.file, f.line)):
        Q = None
        fs = None
        for c in f.body.find('CallExpr'):
            cn = callee_name(c)
            names = list(tp.get(cn, [])) + list(od.get(cn, {}).get('params', []))
            if not names:
                continue
            callee = prog.resolve(cn, f)
            if callee is None:
                continue
            if Q is None:
                Q = V.eff.query(f)
                fs = FuncSym(f)
            for i, pa in enumerate(callee.params):
                if pa.name not in names or 1 + i >= len(c.kids):
                    continue
                rr.instances += 1
                a = c.kids[1 + i]
                locs = Q.pts(a)
                roots = set(r for (r, p) in locs)
                ok, why = True, ''
                for r in roots:
                    if r[0] == 'p':
                        pn = f.params[r[1]].name
                        if pn not in tp.get(f.name, []) and pn not in od.get(f.name, {}).get('params', []):
                            ok, why = False, 'caller\'s parameter `%s`, which is not a declared table parameter of %s' % (pn, f.name)
                    elif r[0] == 'fresh' or (r[0] == 'g' and r[1] in ('current_cache', 'mzd_cache', 'm4ri_mmc_cache')):
                        o2, w2 = V.local_tables_clean(f, fs, Q)
                        if not o2:
                            ok, why = False, w2
                    elif r[0] == 'local':
                        pass
                    else:
                        ok, why = False, 'root %r' % (r,)
                if not roots:
                    ok, why = False, 'argument `%s` has no known origin' % pp(a)
                rr.ob(ok, dict(caller=f.name, callee=cn, table_parameter=pa.name, argument=pp(a), verdict='local table written only by builders' if ok else why),
                      Finding(rule, '%s|%s|%s|%s' % (rule, f.name, cn, pa.name), c.loc, f.name,
                              'argument `%s` for table parameter `%s` of %s is %s' % (pp(a), pa.name, cn, why), {}, label))
    rr.require_floor(40, 'table arguments')
    return rr


OBSERVERS = ['mzd_equal', 'mzd_cmp', 'mzd_is_zero', 'mzd_first_zero_row', 'mzd_find_pivot']


def rule_C3(ctx, prog, label, rule='C3'):
    """Readers: in the observers every loaded word that may be the last word of its row is &-ed with the
    valid-bit mask before it can influence the verdict."""
    rr = RuleResult(rule, 'observers mask the last word of every row before it influences the result')
    V = Verdicts(ctx, prog)
    MA = V.MA
    exc = V.table.get('reader_exceptions', [])
    hits = dict((i, 0) for i in range(len(exc)))
    for name in OBSERVERS:
        f = prog.func(name)
        fs = FuncSym(f)
        MA._cur_f = f
        nload = 0
        for n in f.body.walk():
            if n.kind != 'ImplicitCastExpr' or n.cast != 'LValueToRValue':
                continue
            l = strip(n.kids[0], casts=True)
            if l.kind != 'ArraySubscriptExpr' or (l.type or '').replace('const', '').strip() != 'word':
                continue
            o = MA.pointer_origin(l.kids[0], fs)
            if o is None:
                continue
            st = Store()
            st.node, st.func, st.lhs, st.bump, st.owner, st.dest = l, f, l, False, None, []
            pos, info = MA.classify_pos(st, fs)
            X = o[0]
            nload += 1
            rr.instances += 1
            ok, why = False, ''
            any_mask = None
            if pos == 'INTERIOR':
                ok, why = True, 'interior word'
            else:
                # climb: ^ | with other words are fine; & with the owner's mask discharges
                cur = n
                p = fs.parent.get(cur.uid)
                while p is not None and p.kind in ('ParenExpr', 'ImplicitCastExpr', 'BinaryOperator', 'CStyleCastExpr'):
                    if p.kind == 'BinaryOperator':
                        if p.op == '&':
                            other = p.kids[1] if (p.kids[0] is cur or any(x is cur for x in p.kids[0].walk())) else p.kids[0]
                            m = MA.mask_of(other, fs, p)
                            if m is not None:
                                any_mask = m
                            if m is not None and m.within_hb(None):
                                own = V._mask_owner(m)
                                if own in (X, '<param>') or (own is not None and V.width_le(f, own, X) and V.width_le(f, X, own)) or self_equal_dims(f, own, X):
                                    ok, why = True, 'masked by %r' % m
                                    break
                        elif p.op not in ('^', '|'):
                            break
                    cur = p
                    p = fs.parent.get(p.uid)
            if not ok:
                for i, e in enumerate(exc):
                    if e['function'] == name and e['position'] == pos and hits[i] < e.get('count', 1) and any_mask is not None:
                        hits[i] += 1
                        ok, why = True, 'frozen exception: ' + e['reason']
                        break
            rr.ob(ok, dict(function=name, load=pp(l), position=pos, discharged_by=why) if ok else None,
                  Finding(rule, '%s|%s|%s|%s' % (rule, name, X, pos), l.loc, name,
                          'word `%s` of %s (position %s) reaches the result without the valid-bit mask: bits past the last column can change the verdict' % (pp(l), X, pos),
                          dict(posinfo=info), label))
        if nload == 0:
            raise AnalysisBroken('C3: no word loads found in observer %s' % name)
    for i, e in enumerate(exc):
        if hits[i] == 0:
            raise AnalysisBroken('rules/masks.json reader exception #%d (%s) matches no load: stale table' % (i, e['function']))
    return rr


def _in_condition(n, fs):
    """the condition (If / While / Do / For / ?:) whose value the expression node n contributes to, if any"""
    cur = n
    p = fs.parent.get(cur.uid)
    while p is not None:
        if p.kind in ('IfStmt', 'WhileStmt', 'ConditionalOperator') and p.kids[0] is cur:
            return p
        if p.kind == 'DoStmt' and p.kids[-1] is cur:
            return p
        if p.kind == 'ForStmt' and len(p.kids) > 2 and p.kids[2] is cur:
            return p
        if p.kind in ('CompoundStmt', 'DeclStmt', 'CallExpr'):
            return None
        cur = p
        p = fs.parent.get(p.uid)
    return None


def rule_C3c(ctx, prog, label, rule='C3c'):
    """Library-wide: a word loaded from a matrix row that decides a branch (directly, or through a local it initialises) is
    an interior word, or is masked with the valid-bit mask of its matrix, or contributes a single addressed bit
    (`& (m4ri_one << c)`, `>> c & 1`).  Otherwise bits past the last column - foreign data when the matrix is a window -
    steer the control flow."""
    rr = RuleResult(rule, 'control-deciding loads: a word of a matrix row that reaches a condition is interior, masked with the valid-bit mask, or reduced to one addressed bit')
    V = Verdicts(ctx, prog)
    MA = V.MA
    for f in sorted(prog.all_funcs(), key=lambda f: (f.file, f.line)):
        if f.name in OBSERVERS:
            continue      # decided by C3 with its own tables
        fs = None
        for n in f.body.walk():
            if n.kind != 'ImplicitCastExpr' or n.cast != 'LValueToRValue':
                continue
            l = strip(n.kids[0], casts=True)
            if l.kind != 'ArraySubscriptExpr' or (l.type or '').replace('const', '').strip() != 'word':
                continue
            if fs is None:
                fs = FuncSym(f)
                MA._cur_f = f
            o = MA.pointer_origin(l.kids[0], fs)
            if o is None:
                continue
            # climb through the value expression: note a discharging mask on the way; stop at a condition or at a local
            ok, why = False, ''
            cond = None
            cur = n
            p = fs.parent.get(cur.uid)
            while p is not None:
                if p.kind in ('IfStmt', 'WhileStmt', 'ConditionalOperator') and p.kids[0] is cur:
                    cond = p
                    break
                if p.kind == 'DoStmt' and p.kids[-1] is cur:
                    cond = p
                    break
                if p.kind == 'ForStmt' and len(p.kids) > 2 and p.kids[2] is cur:
                    cond = p
                    break
                if p.kind == 'VarDecl':
                    for u in f.body.walk():
                        if u.kind == 'DeclRefExpr' and u.refid == p.id and _in_condition(u, fs) is not None:
                            cond = _in_condition(u, fs)
                            break
                    break
                if p.kind == 'UnaryOperator' and p.op == '!':
                    cur = p
                    p = fs.parent.get(p.uid)
                    continue
                if p.kind not in ('ParenExpr', 'ImplicitCastExpr', 'BinaryOperator', 'CStyleCastExpr'):
                    break
                if p.kind == 'BinaryOperator' and not ok:
                    left = p.kids[0] is cur or any(x is cur for x in p.kids[0].walk())
                    other = p.kids[1] if left else p.kids[0]
                    if p.op == '&':
                        o0 = strip(other, casts=True)
                        for _ in range(3):
                            if o0.kind == 'DeclRefExpr' and o0.refkind == 'VarDecl' and fs.single_def(o0.refid) is not None:
                                o0 = strip(fs.single_def(o0.refid), casts=True)
                        if o0.kind == 'ArraySubscriptExpr':
                            ok, why = True, 'one bit selected by a per-column mask table'
                        elif (o0.kind == 'DeclRefExpr' and o0.ref == 'm4ri_one') or int_value(o0) == 1:
                            ok, why = True, 'single bit'
                        elif o0.kind == 'BinaryOperator' and o0.op == '<<' and ((strip(o0.kids[0], casts=True).kind == 'DeclRefExpr' and strip(o0.kids[0], casts=True).ref == 'm4ri_one') or int_value(strip(o0.kids[0], casts=True)) == 1):
                            ok, why = True, 'single addressed bit'
                        else:
                            m = MA.mask_of(other, fs, p)
                            if m is not None and m.within_hb(None):
                                own = V._mask_owner(m)
                                if own in (X_ := o[0], '<param>') or (own is not None and V.width_le(f, own, o[0]) and V.width_le(f, o[0], own)):
                                    ok, why = True, 'masked by %r' % m
                    elif p.op in ('==', '!=', '<', '>', '<=', '>=', '&&', '||', '^', '|', '>>', '<<', '+', '-'):
                        pass
                    else:
                        pass
                cur = p
                p = fs.parent.get(p.uid)
            if cond is None:
                continue
            st = Store()
            st.node, st.func, st.lhs, st.bump, st.owner, st.dest = l, f, l, False, None, []
            pos, info = MA.classify_pos(st, fs)
            X = o[0]
            rr.instances += 1
            if pos == 'INTERIOR':
                ok, why = True, 'interior word'
            rr.ob(ok, dict(function=f.name, load=pp(l)[:40], position=pos, discharged_by=why),
                  Finding(rule, '%s|%s|%s|%s' % (rule, f.name, X, pos), l.loc, f.name,
                          'word `%s` of %s (position %s) decides `%s` without the valid-bit mask: bits past the last column (the parent\'s data, for a window) steer the control flow'
                          % (pp(l)[:40], X, pos, pp(cond.kids[0] if cond.kind != 'DoStmt' else cond.kids[-1])[:50]), dict(posinfo=info), label))
    rr.require_floor(5, 'control-deciding loads outside the observers')
    return rr


def self_equal_dims(f, a, b):
    """Within the observers the second operand's dimensions are compared with the first's before any word is read
    (C3b checks that); their masks coincide."""
    return f.name in ('mzd_equal', 'mzd_cmp') and a is not None and b is not None and {a, b} == {'A', 'B'}


def rule_C3b(ctx, prog, label, rule='C3b'):
    """mzd_cmp compares two-sidedly; mzd_equal / mzd_cmp compare both dimensions before any word."""
    rr = RuleResult(rule, 'three-way comparison is two-sided on every compared quantity; dimensions are compared before data')
    # mzd_cmp: every `if (x < y) return -1` has the mirror `if (x > y) return 1` (or `y < x`) on the same pair
    f = prog.func('mzd_cmp')
    fs = FuncSym(f)
    lts, gts = [], []
    for n in f.body.find('IfStmt'):
        c = strip(n.kids[0])
        then = n.kids[1]
        rv = None
        for r in then.walk():
            if r.kind == 'ReturnStmt' and r.kids:
                rv = int_value(r.kids[0])
                break
        if c.kind == 'BinaryOperator' and c.op in ('<', '>') and rv in (-1, 1):
            a, b = pp(strip(c.kids[0], casts=True)), pp(strip(c.kids[1], casts=True))
            if c.op == '>':
                a, b = b, a          # a < b
            (lts if rv == -1 else gts).append(((a, b), n))
    rr.instances = len(lts)
    for (a, b), n in lts:
        mirror = any((x, y) == (b, a) for (x, y), _ in gts)
        rr.ob(mirror, dict(function='mzd_cmp', less=(a + ' < ' + b), mirror=(b + ' < ' + a + ' -> 1')),
              Finding(rule, '%s|mzd_cmp|%s' % (rule, a), n.loc, 'mzd_cmp',
                      '`%s < %s` returns -1 but the mirrored comparison returning 1 is missing: cmp is not antisymmetric' % (a, b), {}, label))
    for (a, b), n in gts:
        mirror = any((x, y) == (b, a) for (x, y), _ in lts)
        rr.instances += 1
        rr.ob(mirror, None, Finding(rule, '%s|mzd_cmp|gt|%s' % (rule, a), n.loc, 'mzd_cmp',
                                    '`%s < %s` returns 1 but the mirrored comparison returning -1 is missing' % (a, b), {}, label))
    if len(lts) < 4:
        raise AnalysisBroken('C3b: expected >= 4 compared quantities in mzd_cmp, found %d' % len(lts))
    # dimensions before data
    from .cfg import cfg_of
    for name in ('mzd_equal', 'mzd_cmp'):
        f = prog.func(name)
        g = cfg_of(f)
        dom = g.dominators()
        dim_nodes = {'nrows': [], 'ncols': []}
        for cn in g.nodes:
            if cn.kind == 'branch':
                c = strip(cn.ast)
                if c.kind == 'BinaryOperator' and c.op in ('!=', '<', '>', '=='):
                    for fld in ('nrows', 'ncols'):
                        ms = [m for m in c.find('MemberExpr') if m.name == fld]
                        if len(ms) == 2:
                            dim_nodes[fld].append(cn.id)
        first_loads = []
        for cn in g.nodes:
            if cn.ast is not None and cn.kind in ('stmt', 'branch'):
                if any(callee_name(c) in ('mzd_row', 'mzd_row_const') for c in cn.ast.find('CallExpr')):
                    first_loads.append(cn)
        for fld in ('nrows', 'ncols'):
            rr.instances += 1
            ok = bool(dim_nodes[fld]) and all(any(d in dom.get(ld.id, ()) for d in dim_nodes[fld]) for ld in first_loads) and bool(first_loads)
            rr.ob(ok, dict(function=name, dimension=fld, verdict='compared before any row is read'),
                  Finding(rule, '%s|%s|dims|%s' % (rule, name, fld), f.loc, name,
                          '%s no longer compares `%s` of both operands before reading rows' % (name, fld), {}, label))
    return rr


def rule_C4(ctx, prog, label, rule='C4'):
    """Raw whole-matrix kernels: `X->data` of a caller's matrix is handed to a function only on paths where
    `!mzd_is_dangerous_window(X)` holds (destination and source)."""
    from .cfg import cfg_of
    rr = RuleResult(rule, 'raw data pointers of caller matrices reach whole-matrix kernels only under !mzd_is_dangerous_window')
    allowed = {'mzd_init', 'mzd_init_window', 'mzd_free', 'mzd_row', 'mzd_row_const', 'mzd_t_malloc', 'mzd_t_free'}
    for f in sorted(prog.all_funcs(), key=lambda f: (f.file, f.line)):
        if f.name in allowed:
            continue
        sites = []
        for c in f.body.find('CallExpr'):
            for a in c.kids[1:]:
                a2 = strip(a, casts=True)
                if a2 is not None and a2.kind == 'MemberExpr' and a2.name == 'data':
                    b = strip(a2.kids[0], casts=True)
                    if b.kind == 'DeclRefExpr' and 'mzd_t' in (b.type or ''):
                        sites.append((c, b))
        if not sites:
            continue
        g = cfg_of(f)
        fs = FuncSym(f)
        for (c, b) in sites:
            rr.instances += 1
            X = b.ref
            # local owners (assigned only from mzd_init) need no guard
            if b.refkind == 'VarDecl':
                defs = fs.defs.get(b.refid, [])
                if defs and all(strip(d, casts=True).kind == 'CallExpr' and callee_name(strip(d, casts=True)) == 'mzd_init' for d in defs):
                    rr.ob(True, dict(function=f.name, call=pp(c)[:60], matrix=X, verdict='local owner'))
                    continue
            # reachability from entry without taking the safe edge of a test of mzd_is_dangerous_window(X)
            target = None
            for cn in g.nodes:
                if cn.ast is not None and any(x is c for x in cn.ast.walk()):
                    target = cn
            seen = set()
            st = [g.entry]
            while st:
                n = st.pop()
                if n.id in seen:
                    continue
                seen.add(n.id)
                safe = _danger_safe_edge(n, X) if n.kind == 'branch' else None
                for (lab, m) in n.succs:
                    if safe is not None and lab is safe:
                        continue
                    st.append(m)
            ok = target is not None and target.id not in seen
            rr.ob(ok, dict(function=f.name, call=pp(c)[:60], matrix=X, verdict='only under !mzd_is_dangerous_window(%s)' % X),
                  Finding(rule, '%s|%s|%s|%s' % (rule, f.name, callee_name(c), X), c.loc, f.name,
                          '`%s->data` is passed to %s() on a path where %s may be a window with excess bits: the raw kernel reads/writes whole words' % (X, callee_name(c), X),
                          dict(call=pp(c)[:120]), label))
    rr.require_floor(3, 'raw data pointer arguments')
    return rr


def _danger_safe_edge(cn, X):
    """If the branch tests mzd_is_dangerous_window(X) (possibly negated / wrapped), return the label of the
    edge on which X is NOT dangerous."""
    c = cn.ast
    neg = False
    while True:
        c = strip(c, casts=True)
        if c is None:
            return None
        if c.kind == 'UnaryOperator' and c.op == '!':
            neg = not neg
            c = c.kids[0]
            continue
        if c.kind == 'CallExpr' and callee_name(c) == '__builtin_expect':
            c = c.kids[1]
            continue
        if c.kind == 'BinaryOperator' and c.op in ('!=', '==') and int_value(c.kids[1]) == 0:
            if c.op == '==':
                neg = not neg
            c = c.kids[0]
            continue
        break
    if c.kind == 'CallExpr' and callee_name(c) == 'mzd_is_dangerous_window':
        a = strip(c.kids[1], casts=True)
        if a.kind == 'DeclRefExpr' and a.ref == X:
            return True if neg else False
    return None


def rule_S1(ctx, prog, label, rule='S1'):
    """Row-stride agreement: a pointer that is advanced by (a multiple of) `X->rowstride` points into the data of X
    itself (same matrix root), never into another matrix that merely has the same shape."""
    rr = RuleResult(rule, 'row pointers are advanced only by the rowstride of the matrix they point into')
    eff = ctx.effects(prog)
    skip = {'mzd_init', 'mzd_init_window', 'mzd_free', 'mzd_row', 'mzd_row_const'}
    for f in sorted(prog.all_funcs(), key=lambda f: (f.file, f.line)):
        if f.name in skip:
            continue
        strides = []
        for n in f.body.walk():
            if n.kind == 'MemberExpr' and n.name == 'rowstride':
                strides.append(n)
        if not strides:
            continue
        fs = FuncSym(f)
        Q = eff.query(f)
        # variables holding a rowstride: id -> matrix expression
        svars = {}
        for n in f.body.walk():
            if n.kind == 'VarDecl' and n.kids:
                d = strip(n.kids[-1], casts=True)
                if d is not None and d.kind == 'MemberExpr' and d.name == 'rowstride':
                    svars[n.id] = d.kids[0]

        def stride_owner(e):
            """matrix expression X if e mentions X->rowstride (directly or through a local), else None"""
            for x in e.walk():
                if x.kind == 'MemberExpr' and x.name == 'rowstride':
                    return x.kids[0]
                if x.kind == 'DeclRefExpr' and x.refid in svars:
                    return svars[x.refid]
            return None
        for n in f.body.walk():
            ptr = off = None
            if n.kind == 'BinaryOperator' and n.op in ('+', '-') and (type_is_pointer(n.kids[0].type) or type_is_pointer(n.kids[1].type)):
                ptr, off = (n.kids[0], n.kids[1]) if type_is_pointer(n.kids[0].type) else (n.kids[1], n.kids[0])
            elif n.kind == 'CompoundAssignOperator' and n.op in ('+=', '-=') and type_is_pointer(n.kids[0].type):
                ptr, off = n.kids[0], n.kids[1]
            elif n.kind == 'ArraySubscriptExpr':
                ptr, off = n.kids[0], n.kids[1]
            if ptr is None:
                continue
            own = stride_owner(off)
            if own is None:
                continue
            pt = (ptr.type or '') + (ptr.dtype or '')
            if 'word' not in pt and '__m128i' not in pt and 'uint64' not in pt:
                continue
            rr.instances += 1
            proots = set(r for (r, p) in (Q.pts(ptr) | Q.load(ptr)) if r[0] != 'local')
            oroots = set(r for (r, p) in Q.pts(own) if r[0] != 'local')
            ok = bool(proots) and proots <= oroots or not proots
            rr.ob(ok, dict(function=f.name, expression=pp(n)[:60], stride_of=pp(own)) if rr.instances % 5 == 1 else None,
                  Finding(rule, '%s|%s|%s' % (rule, f.name, pp(own)), n.loc, f.name,
                          '`%s` advances a pointer into %s by the rowstride of `%s`: two matrices of the same shape need not have the same row stride (views, padded owners)' % (
                              pp(n)[:60], sorted('%s%s' % (r[0], r[1]) for r in proots), pp(own)), {}, label))
    # S1b: a row base pointer steps from row to row by the rowstride - never by the width (rows are padded to an even
    # number of words, and a window inherits its parent's stride)
    for f in sorted(prog.all_funcs(), key=lambda f: (f.file, f.line)):
        if f.name in skip:
            continue
        fs = None
        for n in f.body.walk():
            if not (n.kind == 'CompoundAssignOperator' and n.op in ('+=', '-=') and type_is_pointer(n.kids[0].type)):
                continue
            pt = (n.kids[0].type or '')
            if 'word' not in pt and 'uint64' not in pt:
                continue
            fs = fs or FuncSym(f)
            off = n.kids[1]
            men_w = men_s = False
            stack = [off]
            while stack:
                x = stack.pop()
                x0 = strip(x, casts=True)
                if x0 is None:
                    continue
                if x0.kind == 'MemberExpr' and x0.name == 'width':
                    men_w = True
                if x0.kind == 'MemberExpr' and x0.name == 'rowstride':
                    men_s = True
                if x0.kind == 'DeclRefExpr' and x0.refkind == 'VarDecl' and fs.single_def(x0.refid) is not None:
                    stack.append(fs.single_def(x0.refid))
                stack.extend(x0.kids)
            if not men_w or men_s:
                continue
            p0 = strip(n.kids[0], casts=True)
            loop = fs.enclosing(n, ('ForStmt', 'WhileStmt', 'DoStmt'))
            if p0.kind != 'DeclRefExpr' or loop is None:
                continue
            indexed = any(x.kind == 'ArraySubscriptExpr' and strip(x.kids[0], casts=True).kind == 'DeclRefExpr' and
                          strip(x.kids[0], casts=True).refid == p0.refid for x in loop.walk())
            guarded = any(('rowstride' in pp(i_.kids[0]) and 'width' in pp(i_.kids[0])) for i_ in fs.enclosing_all(n, ('IfStmt',)))
            if not indexed or guarded:
                continue
            rr.instances += 1
            rr.ob(False, None, Finding(rule, '%s|%s|width-step|%s' % (rule, f.name, p0.ref), n.loc, f.name,
                                       '`%s` moves the row pointer `%s` to the next row by the width: consecutive rows lie `rowstride` words apart '
                                       '(width rounded up to an even number for owners, the parent\'s stride for windows)' % (pp(n)[:60], p0.ref), {}, label))
    rr.require_floor(6, 'pointer advances by a rowstride')
    return rr


_WIDE = ('word', 'unsigned long', 'uint64_t', 'unsigned long long', 'long', 'long long', 'size_t')


def rule_W1(ctx, prog, label, rule='W1', only_funcs=None):
    """A left shift evaluated in 32-bit `int` (e.g. of a BIT) whose result is then widened to a 64-bit word loses
    or sign-extends every bit at position >= 31: all word-level shifts must be performed on word operands."""
    rr = RuleResult(rule, 'no left shift is evaluated in 32-bit int and then widened to a 64-bit word')
    for f in sorted(prog.all_funcs(), key=lambda f: (f.file, f.line)):
        if only_funcs is not None and f.name not in only_funcs:
            continue
        par = {}
        for x in f.body.walk():
            for c in x.kids:
                par[c.uid] = x
        for x in f.body.walk():
            if not (x.kind == 'BinaryOperator' and x.op == '<<'):
                continue
            rr.instances += 1
            t = (x.dtype or x.type or '')
            if t not in ('int', 'unsigned int', 'BIT'):
                rr.obligations += 1
                rr.discharged += 1
                continue
            q = par.get(x.uid)
            while q is not None and q.kind == 'ParenExpr':
                q = par.get(q.uid)
            # widening may also happen after |=, | with a word: look for the first conversion or word-typed operator
            widened = None
            hops = 0
            while q is not None and hops < 6:
                qt = (q.dtype or q.type or '')
                if q.kind in ('ImplicitCastExpr', 'CStyleCastExpr') and qt in _WIDE:
                    widened = q
                    break
                if q.kind in ('BinaryOperator', 'CompoundAssignOperator') and qt in _WIDE:
                    widened = q
                    break
                if q.kind not in ('ParenExpr', 'ImplicitCastExpr', 'BinaryOperator', 'ConditionalOperator'):
                    break
                q = par.get(q.uid)
                hops += 1
            cnt = int_value(x.kids[1])
            ok = widened is None or (cnt is not None and 0 <= cnt < 31)
            rr.ob(ok, None, Finding(rule, '%s|%s|%s' % (rule, f.name, pp(x)[:40]), x.loc, f.name,
                                    '`%s` is evaluated in %s and then widened to %s: target bit positions >= 31 are lost or sign-extended' % (pp(x)[:70], t, (widened.dtype or widened.type) if widened else ''), {}, label))
    rr.require_floor(100 if only_funcs is None else 1, 'left shifts')
    return rr


# ====================================================================== MV1: placers overwrite (C08)

PLACERS = ('mzd_copy', 'mzd_copy_row', 'mzd_submatrix', 'mzd_concat', 'mzd_stack', 'mzd_extract_u', 'mzd_extract_l')
_ACCUM_CALLS = ('mzd_xor_bits', 'mzd_combine', 'mzd_combine_even', 'mzd_combine_even_in_place', 'mzd_row_add', 'mzd_row_add_offset',
                '_mzd_combine', 'mzd_add', '_mzd_add', 'mzd_addmul', '_mzd_addmul')


def rule_MV1(ctx, prog, label, rule='MV1', placers=PLACERS):
    """A data mover places its source entries in the destination whatever the destination held before: every write into
    the destination is an overwriting form, or an accumulating form (^=, |=, mzd_xor_bits, row addition) that directly
    follows a write that cleared the same location."""
    rr = RuleResult(rule, 'data movers overwrite: no accumulating write into the destination without a clearing write of the same location before it')
    eff = ctx.effects(prog)
    nfun = 0
    njust = 0
    for name in placers:
        f = prog.funcs.get(name)
        if f is None or f.body is None:
            raise AnalysisBroken('%s: data mover %s no longer exists' % (rule, name))
        nfun += 1
        Q = eff.query(f)
        fs = FuncSym(f)
        dst = 0
        if not ('mzd_t' in (f.params[0].type or '') and 'const' not in (f.params[0].type or '').split('*')[0]):
            raise AnalysisBroken('%s: first parameter of %s is no longer the destination matrix' % (rule, name))

        def into_dst(e, parts):
            return any(r[0] == 'p' and r[1] == dst and part in parts for (r, part) in e)

        def prior_in_block(n):
            """statements before the one holding n in its innermost block (nearest first)"""
            blk = fs.enclosing(n, ('CompoundStmt',))
            if blk is None:
                return []
            idx = None
            for i, s in enumerate(blk.kids):
                if any(x is n for x in s.walk()):
                    idx = i
            return list(reversed(blk.kids[:idx])) if idx is not None else []

        for n in f.body.walk():
            if n.kind == 'CompoundAssignOperator' and n.op in ('^=', '|=', '+=', '-='):
                l = strip(n.kids[0])
                if l.kind == 'DeclRefExpr' or (l.type or '') not in ('word', '__m128i', 'uint64_t'):
                    continue
                if not into_dst(Q.lv(n.kids[0]), ('data',)):
                    continue
                rr.instances += 1
                ltxt = pp(strip(n.kids[0], casts=True))
                ok, why = False, ''
                for s in prior_in_block(n):
                    s0 = strip(s, casts=True)
                    if s0 is None:
                        continue
                    if s0.kind == 'BinaryOperator' and s0.op == '=' and pp(strip(s0.kids[0], casts=True)) == ltxt:
                        ok, why = True, 'the same word is assigned just before'
                        break
                    if s0.kind == 'CompoundAssignOperator' and s0.op == '&=' and pp(strip(s0.kids[0], casts=True)) == ltxt:
                        m = strip(s0.kids[1], casts=True)
                        if m.kind == 'UnaryOperator' and m.op == '~':
                            mt = pp(strip(m.kids[0], casts=True))
                            r = strip(n.kids[1], casts=True)
                            if r.kind == 'BinaryOperator' and r.op == '&' and mt in (pp(strip(r.kids[0], casts=True)), pp(strip(r.kids[1], casts=True))):
                                ok, why = True, 'the bits under %s are cleared just before and only those are added' % mt
                        break
                    if any(x.kind in ('BinaryOperator', 'CompoundAssignOperator') and x.op in ('=', '&=', '|=', '^=') and
                           pp(strip(x.kids[0], casts=True)) == ltxt for x in s.walk()):
                        break
                njust += 1 if ok else 0
                rr.ob(ok, dict(function=name, write=pp(n)[:80], discharged_by=why) if ok else None,
                      Finding(rule, '%s|%s|%s' % (rule, name, n.op), n.loc, name,
                              '`%s` adds to the destination words of %s without a clearing write of the same bits before it: with a supplied '
                              'destination the result depends on what it held before' % (pp(n)[:80], name), {}, label))
            elif n.kind == 'CallExpr' and callee_name(n) in _ACCUM_CALLS and len(n.kids) > 1:
                if not into_dst(Q.pts(n.kids[1]), ('hdr', 'data', 'win')):
                    continue
                rr.instances += 1
                cn = callee_name(n)
                ok, why = False, ''
                if cn == 'mzd_xor_bits' and len(n.kids) >= 5:
                    want = [pp(strip(k, casts=True)) for k in n.kids[1:5]]
                    for s in prior_in_block(n):
                        s0 = strip(s, casts=True)
                        if s0 is not None and s0.kind == 'CallExpr' and callee_name(s0) == 'mzd_clear_bits' and \
                                [pp(strip(k, casts=True)) for k in s0.kids[1:5]] == want:
                            ok, why = True, 'mzd_clear_bits on the same range just before'
                        break
                njust += 1 if ok else 0
                rr.ob(ok, dict(function=name, write=pp(n)[:80], discharged_by=why) if ok else None,
                      Finding(rule, '%s|%s|%s' % (rule, name, cn), n.loc, name,
                              '`%s` accumulates into the destination of %s without clearing the same range first: with a supplied '
                              'destination the result depends on what it held before' % (pp(n)[:80], name), {}, label))
    rr.instances += nfun
    rr.extra['accumulating_writes_justified'] = njust
    rr.require_floor(len(placers), 'data movers')
    return rr
