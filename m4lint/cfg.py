"""Control-flow graph built from the compact AST (one per function).

Node kinds: entry, exit, stmt (DeclStmt / expression statement / ReturnStmt), branch (condition with
True/False successors), switch (successors labelled ('case', v) / 'default' / 'nodefault'),
label (case/default/goto-label junctions), noreturn (call to m4ri_die/abort/exit: no successors).
Handles case labels nested inside loops inside the switch (Duff's device), goto ladders, OpenMP
captured regions (transparent).
"""
from .ast import Node, strip, callee_name, int_value, pp
from .frontend import AnalysisBroken

NORETURN = {'m4ri_die', 'abort', 'exit', '_exit', '__assert_fail', 'png_error', 'longjmp', '__builtin_unreachable'}

_OMP_PREFIX = 'OMP'


class CNode(object):
    __slots__ = ('id', 'kind', 'ast', 'succs', 'preds', 'tag')

    def __init__(self, id_, kind, ast=None, tag=None):
        self.id = id_
        self.kind = kind
        self.ast = ast
        self.succs = []   # (label, CNode)
        self.preds = []   # (label, CNode)
        self.tag = tag

    def __repr__(self):
        return '<C%d %s %s>' % (self.id, self.kind, pp(self.ast)[:50] if self.ast is not None else (self.tag or ''))

    @property
    def line(self):
        return self.ast.line if self.ast is not None else None


class CFG(object):
    def __init__(self, func):
        self.func = func
        self.nodes = []
        self.entry = self._new('entry')
        self.exit = self._new('exit')
        self.stmt_node = {}   # ast uid -> CNode
        self.loops = []       # (loop ast, cond CNode or None, body-first frontier)
        self.omp_regions = []
        self._labels = {}
        self._gotos = []
        self._build()

    def _new(self, kind, ast=None, tag=None):
        n = CNode(len(self.nodes), kind, ast, tag)
        self.nodes.append(n)
        if ast is not None and kind in ('stmt', 'branch', 'switch', 'noreturn'):
            self.stmt_node[ast.uid] = n
        return n

    @staticmethod
    def _link(frontier, node):
        for (src, label) in frontier:
            src.succs.append((label, node))
            node.preds.append((label, src))

    # ------------------------------------------------------------------
    def _build(self):
        f = self.func
        self._brk = []
        self._cont = []
        self._sw = []
        fr = self._stmt(f.body, [(self.entry, None)])
        self._link(fr, self.exit)
        for (src, lid, ast) in self._gotos:
            tgt = self._labels.get(lid)
            if tgt is None:
                raise AnalysisBroken('goto to unknown label in %s' % f.name)
            src.succs.append((None, tgt))
            tgt.preds.append((None, src))

    def _is_noreturn_call(self, e):
        e = strip(e)
        if e is not None and e.kind == 'CallExpr':
            return callee_name(e) in NORETURN
        return False

    def _stmt(self, s, fr):
        k = s.kind
        if k == 'CompoundStmt':
            for c in s.kids:
                fr = self._stmt(c, fr)
            return fr
        if k == 'NullStmt' or k == 'Null':
            return fr
        if k == 'DeclStmt':
            n = self._new('stmt', s)
            self._link(fr, n)
            return [(n, None)]
        if k == 'ReturnStmt':
            n = self._new('stmt', s)
            self._link(fr, n)
            n.succs.append(('return', self.exit))
            self.exit.preds.append(('return', n))
            return []
        if k == 'IfStmt':
            cond = s.kids[0]
            b = self._new('branch', cond, tag=s)
            self._link(fr, b)
            thenfr = self._stmt(s.kids[1], [(b, True)])
            if len(s.kids) > 2 and s.kids[2].kind != 'Null':
                elsefr = self._stmt(s.kids[2], [(b, False)])
            else:
                elsefr = [(b, False)]
            return thenfr + elsefr
        if k == 'ForStmt':
            init, condvar, cond, inc, body = s.kids
            if init.kind != 'Null':
                fr = self._stmt(init, fr)
            head = self._new('label', None, tag=('loop', s))
            self._link(fr, head)
            if cond.kind != 'Null':
                b = self._new('branch', cond, tag=s)
                self._link([(head, None)], b)
                bodyfr = [(b, True)]
                exitfr = [(b, False)]
            else:
                bodyfr = [(head, None)]
                exitfr = []
            self._brk.append([])
            self._cont.append([])
            bfr = self._stmt(body, bodyfr)
            conts = self._cont.pop()
            brks = self._brk.pop()
            bfr = bfr + conts
            if inc.kind != 'Null':
                i = self._new('stmt', inc)
                self._link(bfr, i)
                bfr = [(i, None)]
            self._link(bfr, head)
            return exitfr + brks
        if k == 'WhileStmt':
            cond, body = s.kids[-2], s.kids[-1]
            head = self._new('label', None, tag=('loop', s))
            self._link(fr, head)
            b = self._new('branch', cond, tag=s)
            self._link([(head, None)], b)
            self._brk.append([])
            self._cont.append([])
            bfr = self._stmt(body, [(b, True)])
            conts = self._cont.pop()
            brks = self._brk.pop()
            self._link(bfr + conts, head)
            return [(b, False)] + brks
        if k == 'DoStmt':
            body, cond = s.kids[0], s.kids[1]
            head = self._new('label', None, tag=('loop', s))
            self._link(fr, head)
            self._brk.append([])
            self._cont.append([])
            bfr = self._stmt(body, [(head, None)])
            conts = self._cont.pop()
            brks = self._brk.pop()
            b = self._new('branch', cond, tag=s)
            self._link(bfr + conts, b)
            b.succs.append((True, head))
            head.preds.append((True, b))
            return [(b, False)] + brks
        if k == 'SwitchStmt':
            cond, body = s.kids[-2], s.kids[-1]
            sw = self._new('switch', cond, tag=s)
            self._link(fr, sw)
            self._sw.append([sw, False])
            self._brk.append([])
            # 'continue' inside a switch belongs to the enclosing loop: do not push _cont
            bfr = self._stmt(body, [])
            brks = self._brk.pop()
            swrec = self._sw.pop()
            out = bfr + brks
            if not swrec[1]:
                out = out + [(sw, 'nodefault')]
            return out
        if k == 'CaseStmt':
            if not self._sw:
                raise AnalysisBroken('case outside switch in %s' % self.func.name)
            lab = self._new('label', s, tag=('case', s))
            self._link(fr, lab)
            sw = self._sw[-1][0]
            v = int_value(s.kids[0])
            sw.succs.append((('case', v), lab))
            lab.preds.append((('case', v), sw))
            return self._stmt(s.kids[-1], [(lab, None)])
        if k == 'DefaultStmt':
            lab = self._new('label', s, tag=('default', s))
            self._link(fr, lab)
            sw = self._sw[-1][0]
            self._sw[-1][1] = True
            sw.succs.append(('default', lab))
            lab.preds.append(('default', sw))
            return self._stmt(s.kids[-1], [(lab, None)])
        if k == 'BreakStmt':
            if not self._brk:
                raise AnalysisBroken('break outside loop/switch in %s' % self.func.name)
            self._brk[-1].extend(fr)
            return []
        if k == 'ContinueStmt':
            if not self._cont:
                raise AnalysisBroken('continue outside loop in %s' % self.func.name)
            self._cont[-1].extend(fr)
            return []
        if k == 'GotoStmt':
            g = self._new('stmt', s)
            self._link(fr, g)
            self._gotos.append((g, s.refid, s))
            return []
        if k == 'LabelStmt':
            lab = self._new('label', s, tag=('goto-label', s))
            self._link(fr, lab)
            self._labels[s.refid] = lab
            return self._stmt(s.kids[-1], [(lab, None)])
        if k == 'AttributedStmt':
            return self._stmt(s.kids[-1], fr)
        if k.startswith(_OMP_PREFIX) and k.endswith('Directive'):
            body = _omp_body(s)
            self.omp_regions.append((s, body))
            if body is None:
                return fr
            marker = self._new('label', None, tag=('omp', s))
            self._link(fr, marker)
            return self._stmt(body, [(marker, None)])
        if k == 'CapturedStmt':
            b = _captured_body(s)
            return self._stmt(b, fr) if b is not None else fr
        # expression statement
        if self._is_noreturn_call(s):
            n = self._new('noreturn', s)
            self._link(fr, n)
            return []
        n = self._new('stmt', s)
        self._link(fr, n)
        return [(n, None)]

    # ------------------------------------------------------------------ utilities
    def reachable(self):
        seen = set()
        st = [self.entry]
        while st:
            n = st.pop()
            if n.id in seen:
                continue
            seen.add(n.id)
            for _, m in n.succs:
                st.append(m)
        return seen

    def dominators(self):
        """dom[n.id] = set of node ids dominating n (reachable nodes only)."""
        reach = self.reachable()
        ids = [n.id for n in self.nodes if n.id in reach]
        allset = set(ids)
        dom = {i: set(allset) for i in ids}
        dom[self.entry.id] = {self.entry.id}
        changed = True
        order = ids
        while changed:
            changed = False
            for i in order:
                if i == self.entry.id:
                    continue
                n = self.nodes[i]
                ps = [p.id for _, p in n.preds if p.id in reach]
                if not ps:
                    continue
                new = set.intersection(*[dom[p] for p in ps]) | {i}
                if new != dom[i]:
                    dom[i] = new
                    changed = True
        return dom

    def postdominators(self, exit_only=False):
        """pdom[n.id] = set of node ids post-dominating n, w.r.t. exit and noreturn sinks
        (a virtual sink joins exit and all noreturn nodes)."""
        reach = self.reachable()
        ids = [n.id for n in self.nodes if n.id in reach]
        SINK = -1
        allset = set(ids) | {SINK}
        succs = {}
        for i in ids:
            n = self.nodes[i]
            ss = [m.id for _, m in n.succs if m.id in reach]
            if n.kind == 'exit' or (not exit_only and (n.kind == 'noreturn' or not ss)):
                ss = ss + [SINK]
            succs[i] = ss
        pdom = {i: set(allset) for i in ids}
        pdom[SINK] = {SINK}
        changed = True
        while changed:
            changed = False
            for i in reversed(ids):
                if not succs[i]:
                    continue      # paths ending in m4ri_die: vacuously post-dominated (exit_only)
                new = set.intersection(*[pdom[s] for s in succs[i]]) | {i}
                if new != pdom[i]:
                    pdom[i] = new
                    changed = True
        return pdom

    def self_check(self):
        """Structural self-checks (trusted-base hygiene): every label node has an incoming edge,
        every statement-level AST node of the body is in exactly one CFG node."""
        problems = []
        for n in self.nodes:
            if n.kind == 'label' and n.tag and n.tag[0] in ('case', 'default') and not n.preds:
                problems.append('label without incoming edge: %r' % n)
        return problems


def _omp_body(d):
    for c in d.kids:
        if c.kind == 'CapturedStmt':
            return _captured_body(c)
    for c in d.kids:
        if c.kind in ('CompoundStmt', 'ForStmt'):
            return c
    return None


def _captured_body(cs):
    for c in cs.kids:
        if c.kind == 'CapturedDecl':
            for g in c.kids:
                if g.kind not in ('ImplicitParamDecl', 'VarDecl', 'Null') and not g.kind.endswith('Attr'):
                    return g
        elif c.kind in ('CompoundStmt', 'ForStmt'):
            return c
    return None


_cfg_cache = {}


def cfg_of(func):
    c = _cfg_cache.get(id(func))
    if c is None:
        c = CFG(func)
        _cfg_cache[id(func)] = c
    return c


class Edges(dict):
    """Per-successor-label result of a transfer function ({label: state}; '*' = default)."""


def forward(cfg, init, transfer, join, equal=None, max_iter=200000):
    """Generic forward worklist solver.
    transfer(cnode, state) -> dict label->state  or a single state (applied to all successors)
    join(a, b) -> state.  Returns IN states per node id."""
    IN = {cfg.entry.id: init}
    work = [cfg.entry]
    it = 0
    while work:
        it += 1
        if it > max_iter:
            raise AnalysisBroken('dataflow did not converge in %s' % cfg.func.name)
        n = work.pop()
        st = IN[n.id]
        out = transfer(n, st)
        for (label, m) in n.succs:
            s = out.get(label, out.get('*')) if isinstance(out, Edges) else out
            if s is None:
                continue
            old = IN.get(m.id)
            new = s if old is None else join(old, s)
            if old is None or (new != old if equal is None else not equal(new, old)):
                IN[m.id] = new
                work.append(m)
    return IN
