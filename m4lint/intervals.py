"""C7 - shift counts of the bit-range primitives stay inside 0..63.

Interval analysis (with branch refinement, including refinement through comparisons between two variables) of the
integer locals of mzd_read_bits / mzd_xor_bits / mzd_and_bits / mzd_clear_bits / mzd_read_bit / mzd_write_bit under the
documented preconditions (coordinates >= 0, 1 <= n <= 64): every shift of a 64-bit word has a count in [0, 63].
A count of 64 or a negative count is undefined behaviour - on x86 the count is taken modulo 64, so `values >> 64`
leaves the value unchanged instead of clearing it, which flips bits outside the addressed range."""
from .ast import strip, callee_name, int_value, pp
from .driver import Finding, RuleResult
from .frontend import AnalysisBroken

INF = 1 << 40
PRIMS = {
    'mzd_read_bits': {'n': (1, 64)},
    'mzd_xor_bits': {'n': (1, 64)},
    'mzd_and_bits': {'n': (1, 64)},
    'mzd_clear_bits': {'n': (1, 64)},
    'mzd_read_bit': {},
    'mzd_write_bit': {},
}


def _is_int_type(t):
    t = (t or '').replace('const', '').strip()
    return t in ('int', 'rci_t', 'wi_t', 'long', 'unsigned int', 'size_t')


def _is_word_type(t):
    t = (t or '').replace('const', '').strip()
    return t in ('word', 'unsigned long', 'uint64_t', 'unsigned long long', 'wordPtr')


class Interp(object):
    def __init__(self, f, hyp, on_shift):
        self.f = f
        self.on_shift = on_shift
        self.env0 = {}
        for p in f.params:
            if p.name in hyp:
                self.env0[p.id] = hyp[p.name]
            elif _is_int_type(p.type):
                self.env0[p.id] = (0, (1 << 31) - 1) if (p.type or '').replace('const', '').strip() in ('rci_t', 'wi_t') else (-INF, INF)

    # ---- expressions
    def ev(self, e, env):
        e0 = strip(e, casts=True)
        if e0 is None:
            return None
        v = int_value(e0)
        if v is not None:
            return (v, v)
        k = e0.kind
        if k == 'DeclRefExpr':
            if e0.ref == 'm4ri_radix':
                return (64, 64)
            return env.get(e0.refid)
        if k == 'UnaryOperator' and e0.op == '-':
            a = self.ev(e0.kids[0], env)
            return None if a is None else (-a[1], -a[0])
        if k == 'BinaryOperator' and e0.op in ('+', '-', '*', '/', '%'):
            a, b = self.ev(e0.kids[0], env), self.ev(e0.kids[1], env)
            if a is None or b is None:
                return None
            if e0.op == '+':
                return (a[0] + b[0], a[1] + b[1])
            if e0.op == '-':
                return (a[0] - b[1], a[1] - b[0])
            if e0.op == '*':
                c = [a[0] * b[0], a[0] * b[1], a[1] * b[0], a[1] * b[1]]
                return (min(c), max(c))
            if b[0] == b[1] and b[0] > 0:
                m = b[0]
                if e0.op == '%':
                    if a[0] >= 0:
                        return (0, min(a[1], m - 1)) if a[1] - a[0] >= m or a[0] % m > a[1] % m or a[1] - a[0] >= m else (a[0] % m, a[1] % m)
                    return (-(m - 1), m - 1)
                if a[0] >= 0:
                    return (a[0] // m, a[1] // m)
            return None
        return None

    def walk(self, e, env):
        """visit an expression: check shifts, refine inside ?: && ||"""
        if e is None:
            return
        k = e.kind
        if k == 'ConditionalOperator':
            self.walk(e.kids[0], env)
            self.walk(e.kids[1], self.refine(e.kids[0], env, True))
            self.walk(e.kids[2], self.refine(e.kids[0], env, False))
            return
        if k == 'BinaryOperator' and e.op in ('&&', '||'):
            self.walk(e.kids[0], env)
            self.walk(e.kids[1], self.refine(e.kids[0], env, e.op == '&&'))
            return
        if (k == 'BinaryOperator' and e.op in ('<<', '>>')) or (k == 'CompoundAssignOperator' and e.op in ('<<=', '>>=')):
            lt = (e.kids[0].type or '') if hasattr(e.kids[0], 'type') else ''
            if _is_word_type(e.type) or _is_word_type(strip(e.kids[0], casts=True).type):
                self.on_shift(e, self.ev(e.kids[1], env))
        for c in e.kids:
            self.walk(c, env)

    def refine(self, cond, env, truth):
        c = strip(cond, casts=True)
        if c is None:
            return env
        if c.kind == 'UnaryOperator' and c.op == '!':
            return self.refine(c.kids[0], env, not truth)
        if c.kind == 'CallExpr' and callee_name(c) == '__builtin_expect':
            return self.refine(c.kids[1], env, truth)
        if c.kind == 'BinaryOperator' and c.op in ('&&', '||'):
            if (c.op == '&&') == truth:
                return self.refine(c.kids[1], self.refine(c.kids[0], env, truth), truth)
            return env
        if c.kind == 'BinaryOperator' and c.op in ('<', '<=', '>', '>=', '==', '!='):
            op = c.op
            if not truth:
                op = {'<': '>=', '<=': '>', '>': '<=', '>=': '<', '==': '!=', '!=': '=='}[op]
            a, b = strip(c.kids[0], casts=True), strip(c.kids[1], casts=True)
            ia, ib = self.ev(a, env), self.ev(b, env)
            env = dict(env)
            if op in ('>', '>='):
                a, b, ia, ib = b, a, ib, ia
                op = '<' if op == '>' else '<='
            # now a (<|<=) b
            if op in ('<', '<='):
                d = 1 if op == '<' else 0
                if a.kind == 'DeclRefExpr' and ia is not None and ib is not None:
                    env[a.refid] = (ia[0], min(ia[1], ib[1] - d))
                if b.kind == 'DeclRefExpr' and ia is not None and ib is not None:
                    env[b.refid] = (max(ib[0], ia[0] + d), ib[1])
            elif op == '==':
                if ia is not None and ib is not None:
                    lo, hi = max(ia[0], ib[0]), min(ia[1], ib[1])
                    if a.kind == 'DeclRefExpr':
                        env[a.refid] = (lo, hi)
                    if b.kind == 'DeclRefExpr':
                        env[b.refid] = (lo, hi)
            return env
        return env

    # ---- statements
    def stmt(self, s, env):
        if s is None or env is None:
            return env
        k = s.kind
        if k == 'CompoundStmt':
            for c in s.kids:
                env = self.stmt(c, env)
            return env
        if k == 'DeclStmt':
            for v in s.kids:
                if v.kind == 'VarDecl' and v.kids and v.init:
                    self.walk(v.kids[-1], env)
                    if _is_int_type(v.type):
                        iv = self.ev(v.kids[-1], env)
                        env = dict(env)
                        if iv is not None:
                            env[v.id] = iv
                        else:
                            env.pop(v.id, None)
            return env
        if k == 'IfStmt':
            self.walk(s.kids[0], env)
            a = self.stmt(s.kids[1], self.refine(s.kids[0], env, True))
            b = self.stmt(s.kids[2], self.refine(s.kids[0], env, False)) if len(s.kids) > 2 else self.refine(s.kids[0], env, False)
            return self.join(a, b)
        if k == 'ReturnStmt':
            for c in s.kids:
                self.walk(c, env)
            return None
        if k in ('ForStmt', 'WhileStmt', 'DoStmt', 'SwitchStmt', 'GotoStmt', 'LabelStmt'):
            raise AnalysisBroken('C7: %s in %s - the interval interpreter handles straight-line code with branches only' % (k, self.f.name))
        # expression statement
        self.walk(s, env)
        e = strip(s)
        if e is not None and ((e.kind == 'BinaryOperator' and e.op == '=') or e.kind == 'CompoundAssignOperator' or (e.kind == 'UnaryOperator' and e.op in ('++', '--'))):
            l = strip(e.kids[0])
            if l.kind == 'DeclRefExpr' and l.refid in env:
                env = dict(env)
                iv = self.ev(e.kids[1], env) if (e.kind == 'BinaryOperator') else None
                if iv is not None:
                    env[l.refid] = iv
                else:
                    env.pop(l.refid, None)
        return env

    @staticmethod
    def join(a, b):
        if a is None:
            return b
        if b is None:
            return a
        out = {}
        for k in a:
            if k in b:
                out[k] = (min(a[k][0], b[k][0]), max(a[k][1], b[k][1]))
        return out


def rule_C7(ctx, prog, label, rule='C7'):
    rr = RuleResult(rule, 'bit-range primitives: every shift of a 64-bit word has a count inside [0, 63] for all coordinates >= 0 and all 1 <= n <= 64 '
                          '(interval analysis with branch refinement)')
    for name, hyp in sorted(PRIMS.items()):
        f = prog.funcs.get(name)
        if f is None or f.body is None:
            raise AnalysisBroken('C7: primitive %s is missing' % name)
        for h in hyp:
            if h not in [p.name for p in f.params]:
                raise AnalysisBroken('C7: %s has no parameter `%s` any more' % (name, h))

        def on_shift(e, iv, f=f):
            rr.instances += 1
            ok = iv is not None and iv[0] >= 0 and iv[1] <= 63
            rr.ob(ok, dict(function=f.name, shift=pp(e)[:60], count=list(iv) if iv else None),
                  Finding(rule, '%s|%s|%s' % (rule, f.name, pp(e.kids[1])[:24]), e.loc, f.name,
                          'shift `%s`: the count `%s` ranges over %s under 1 <= n <= 64, coordinates >= 0 - outside [0, 63] the shift is undefined '
                          '(x86 takes the count modulo 64: the operand comes back unchanged and bits outside the addressed range are touched)'
                          % (pp(e)[:60], pp(e.kids[1])[:30], ('[%d, %d]' % iv) if iv else 'an unknown interval'), {}, label))
        it = Interp(f, hyp, on_shift)
        it.stmt(f.body, dict(it.env0))
    rr.require_floor(12, 'shifts in the bit-range primitives')
    return rr
