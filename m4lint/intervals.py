"""C7 - shift counts of the bit-range primitives stay inside 0..63.

Interval analysis (with branch refinement, including refinement through comparisons between two variables) of the
integer locals of mzd_read_bits / mzd_xor_bits / mzd_and_bits / mzd_clear_bits / mzd_read_bit / mzd_write_bit under the
documented preconditions (coordinates >= 0, 1 <= n <= 64): every shift of a 64-bit word has a count in [0, 63].
A count of 64 or a negative count is undefined behaviour - on x86 the count is taken modulo 64, so `values >> 64`
leaves the value unchanged instead of clearing it, which flips bits outside the addressed range."""
from .ast import strip, callee_name, int_value, pp
from .driver import Finding, RuleResult
from .frontend import AnalysisBroken

INF = 1 << 40
# parameter index of the bit count n (1 <= n <= 64 by contract), by position
PRIMS = {
    'mzd_read_bits': {3: (1, 64)},
    'mzd_xor_bits': {3: (1, 64)},
    'mzd_and_bits': {3: (1, 64)},
    'mzd_clear_bits': {3: (1, 64)},
    'mzd_read_bit': {},
    'mzd_write_bit': {},
}


def _is_int_type(t):
    t = (t or '').replace('const', '').strip()
    return t in ('int', 'rci_t', 'wi_t', 'long', 'unsigned int', 'size_t')


def _is_word_type(t):
    t = (t or '').replace('const', '').strip()
    return t in ('word', 'unsigned long', 'uint64_t', 'unsigned long long', 'wordPtr')


class Interp(object):
    def __init__(self, f, hyp, on_shift, prog=None, allow_loops=False, on_expr=None):
        self.f = f
        self.on_shift = on_shift
        self.on_expr = on_expr
        self.prog = prog
        self.allow_loops = allow_loops
        self.bool_defs = {}
        self.unknown_guard = False
        self.guards_of_interest = ('closer',)
        self.env0 = {}
        for p in f.params:
            if p.name in hyp:
                self.env0[p.id] = hyp[p.name]
            elif _is_int_type(p.type):
                self.env0[p.id] = (0, (1 << 31) - 1) if (p.type or '').replace('const', '').strip() in ('rci_t', 'wi_t') else (-INF, INF)

    # ---- expressions
    def ev(self, e, env):
        e0 = strip(e, casts=True)
        if e0 is None:
            return None
        v = int_value(e0)
        if v is not None:
            return (v, v)
        k = e0.kind
        if k == 'DeclRefExpr':
            if e0.ref == 'm4ri_radix':
                return (64, 64)
            iv = env.get(e0.refid)
            if iv is None and self.allow_loops and e0.refkind in ('VarDecl', 'ParmVarDecl') and _is_int_type(e0.type):
                return (-INF, INF)
            return iv
        if k == 'MemberExpr' and e0.name in ('nrows', 'ncols', 'width', 'rowstride', 'length'):
            return env.get(('m', pp(e0)), (0, (1 << 31) - 1))
        if k == 'UnaryOperator' and e0.op == '-':
            a = self.ev(e0.kids[0], env)
            return None if a is None else (-a[1], -a[0])
        if k == 'ConditionalOperator':
            a = self.ev(e0.kids[1], self.refine(e0.kids[0], env, True))
            b = self.ev(e0.kids[2], self.refine(e0.kids[0], env, False))
            if a is None or b is None:
                return None
            return (min(a[0], b[0]), max(a[1], b[1]))
        if k == 'BinaryOperator' and e0.op in ('+', '-', '*', '/', '%'):
            a, b = self.ev(e0.kids[0], env), self.ev(e0.kids[1], env)
            if a is None or b is None:
                return None
            if e0.op == '+':
                return (a[0] + b[0], a[1] + b[1])
            if e0.op == '-':
                return (a[0] - b[1], a[1] - b[0])
            if e0.op == '*':
                c = [a[0] * b[0], a[0] * b[1], a[1] * b[0], a[1] * b[1]]
                return (min(c), max(c))
            if b[0] == b[1] and b[0] > 0:
                m = b[0]
                if e0.op == '%':
                    if a[0] >= 0:
                        return (0, min(a[1], m - 1)) if a[1] - a[0] >= m or a[0] % m > a[1] % m or a[1] - a[0] >= m else (a[0] % m, a[1] % m)
                    return (-(m - 1), m - 1)
                if a[0] >= 0:
                    return (a[0] // m, a[1] // m)
            return None
        return None

    def walk(self, e, env):
        """visit an expression: check shifts, refine inside ?: && ||"""
        if e is None:
            return
        k = e.kind
        if k == 'ConditionalOperator':
            self.walk(e.kids[0], env)
            self.walk(e.kids[1], self.refine(e.kids[0], env, True))
            self.walk(e.kids[2], self.refine(e.kids[0], env, False))
            return
        if k == 'BinaryOperator' and e.op in ('&&', '||'):
            self.walk(e.kids[0], env)
            self.walk(e.kids[1], self.refine(e.kids[0], env, e.op == '&&'))
            return
        if self.on_expr is not None:
            self.on_expr(e, env, self)
        if (k == 'BinaryOperator' and e.op in ('<<', '>>')) or (k == 'CompoundAssignOperator' and e.op in ('<<=', '>>=')):
            lt = (e.kids[0].type or '') if hasattr(e.kids[0], 'type') else ''
            if _is_word_type(e.type) or _is_word_type(strip(e.kids[0], casts=True).type):
                self.on_shift(e, self.ev(e.kids[1], env))
        for c in e.kids:
            self.walk(c, env)

    def refine(self, cond, env, truth):
        c = strip(cond, casts=True)
        if c is None:
            return env
        if c.kind == 'UnaryOperator' and c.op == '!':
            return self.refine(c.kids[0], env, not truth)
        if c.kind == 'DeclRefExpr' and c.refid in self.bool_defs:
            return self.refine(self.bool_defs[c.refid], env, truth)
        if c.kind == 'CallExpr' and callee_name(c) == '__builtin_expect':
            return self.refine(c.kids[1], env, truth)
        if c.kind == 'CallExpr' and self.prog is not None and callee_name(c):
            g = self.prog.resolve(callee_name(c), self.f)
            body = g.body if g is not None else None
            # a one-line predicate, possibly with its sub-conditions named in initialised locals first
            simple = body is not None and body.kids and body.kids[-1].kind == 'ReturnStmt' and body.kids[-1].kids and len(g.params) == len(c.kids) - 1 and \
                all(k_.kind == 'DeclStmt' and all(v.kind == 'VarDecl' and v.kids and v.init for v in k_.kids) for k_ in body.kids[:-1])
            if body is not None and not simple and g.name in getattr(self, 'guards_of_interest', ()):
                self.unknown_guard = True
            if simple:
                for k_ in body.kids[:-1]:
                    for v in k_.kids:
                        self.bool_defs[v.id] = v.kids[-1]
                body = type('B', (), {'kids': [body.kids[-1]]})()
            if simple:
                env2 = dict(env)
                for pa, a in zip(g.params, c.kids[1:]):
                    iv = self.ev(a, env)
                    if iv is not None:
                        env2[pa.id] = iv
                    else:
                        env2.pop(pa.id, None)
                env2 = self.refine(body.kids[0].kids[0], env2, truth)
                out = dict(env)
                for pa, a in zip(g.params, c.kids[1:]):
                    if pa.id in env2:
                        out = self._set(a, env2[pa.id], out)
                return out
            return env
        if c.kind == 'BinaryOperator' and c.op in ('&&', '||'):
            if (c.op == '&&') == truth:
                return self.refine(c.kids[1], self.refine(c.kids[0], env, truth), truth)
            return env
        if c.kind == 'BinaryOperator' and c.op in ('<', '<=', '>', '>=', '==', '!='):
            op = c.op
            if not truth:
                op = {'<': '>=', '<=': '>', '>': '<=', '>=': '<', '==': '!=', '!=': '=='}[op]
            a, b = strip(c.kids[0], casts=True), strip(c.kids[1], casts=True)
            ia, ib = self.ev(a, env), self.ev(b, env)
            env = dict(env)
            if op in ('>', '>='):
                a, b, ia, ib = b, a, ib, ia
                op = '<' if op == '>' else '<='
            # now a (<|<=) b
            if op in ('<', '<='):
                d = 1 if op == '<' else 0
                if ia is not None and ib is not None:
                    env = self._set(a, (ia[0], min(ia[1], ib[1] - d)), env)
                    env = self._set(b, (max(ib[0], ia[0] + d), ib[1]), env)
            elif op == '==':
                if ia is not None and ib is not None:
                    lo, hi = max(ia[0], ib[0]), min(ia[1], ib[1])
                    env = self._set(a, (lo, hi), env)
                    env = self._set(b, (lo, hi), env)
            return env
        return env

    def _set(self, e, iv, env):
        """narrow the storage behind expression e to iv (variables, dimension members, c*var), following aliases"""
        e0 = strip(e, casts=True)
        if e0 is None:
            return env
        env = dict(env)
        if e0.kind == 'DeclRefExpr':
            cur = env.get(e0.refid)
            env[e0.refid] = iv if cur is None else (max(cur[0], iv[0]), min(cur[1], iv[1]))
            key = env.get(('alias', e0.refid))
            if key is not None:
                cur = env.get(key, (0, (1 << 31) - 1))
                env[key] = (max(cur[0], iv[0]), min(cur[1], iv[1]))
        elif e0.kind == 'MemberExpr':
            key = ('m', pp(e0))
            cur = env.get(key, (0, (1 << 31) - 1))
            env[key] = (max(cur[0], iv[0]), min(cur[1], iv[1]))
            for k_, v_ in list(env.items()):
                if isinstance(k_, tuple) and k_[0] == 'alias' and v_ == key:
                    c2 = env.get(k_[1])
                    env[k_[1]] = env[key] if c2 is None else (max(c2[0], env[key][0]), min(c2[1], env[key][1]))
        elif e0.kind == 'BinaryOperator' and e0.op == '*':
            for cst, var in ((e0.kids[0], e0.kids[1]), (e0.kids[1], e0.kids[0])):
                cv = int_value(cst)
                if cv is not None and cv > 0:
                    lo = -((-iv[0]) // cv) if iv[0] > -INF else -INF      # ceil
                    hi = iv[1] // cv if iv[1] < INF else INF
                    return self._set(var, (lo, hi), env)
        return env

    # ---- statements
    def stmt(self, s, env):
        if s is None or env is None:
            return env
        k = s.kind
        if k == 'CompoundStmt':
            for c in s.kids:
                env = self.stmt(c, env)
            return env
        if k == 'DeclStmt':
            for v in s.kids:
                if v.kind == 'VarDecl' and v.kids and v.init:
                    self.walk(v.kids[-1], env)
                    if _is_int_type(v.type):
                        iv = self.ev(v.kids[-1], env)
                        env = dict(env)
                        if iv is not None:
                            env[v.id] = iv
                        else:
                            env.pop(v.id, None)
                        i0 = strip(v.kids[-1], casts=True)
                        if i0 is not None and i0.kind == 'MemberExpr':
                            env[('alias', v.id)] = ('m', pp(i0))
            return env
        if k == 'IfStmt':
            self.walk(s.kids[0], env)
            a = self.stmt(s.kids[1], self.refine(s.kids[0], env, True))
            b = self.stmt(s.kids[2], self.refine(s.kids[0], env, False)) if len(s.kids) > 2 else self.refine(s.kids[0], env, False)
            return self.join(a, b)
        if k == 'ReturnStmt':
            for c in s.kids:
                self.walk(c, env)
            return None
        if k in ('ForStmt', 'WhileStmt', 'DoStmt') and self.allow_loops:
            # havoc everything the loop assigns, visit the body once under the havocked state
            env = dict(env)
            for n in s.walk():
                if (n.kind == 'BinaryOperator' and n.op == '=') or n.kind == 'CompoundAssignOperator' or (n.kind == 'UnaryOperator' and n.op in ('++', '--')):
                    l = strip(n.kids[0])
                    if l.kind == 'DeclRefExpr':
                        env.pop(l.refid, None)
                        env.pop(('alias', l.refid), None)
                if n.kind == 'VarDecl':
                    env.pop(n.id, None)
            for c in s.kids:
                if c.kind in ('CompoundStmt', 'DeclStmt') or c is s.kids[-1]:
                    self.stmt(c, env)
                elif c.kind != 'Null':
                    self.walk(c, env)
            return env
        if k in ('ForStmt', 'WhileStmt', 'DoStmt', 'SwitchStmt', 'GotoStmt', 'LabelStmt'):
            raise AnalysisBroken('C7: %s in %s - the interval interpreter handles straight-line code with branches only' % (k, self.f.name))
        # expression statement
        self.walk(s, env)
        e = strip(s)
        if e is not None and e.kind == 'CallExpr' and callee_name(e) in ('m4ri_die', 'abort', 'exit'):
            return None
        if e is not None and ((e.kind == 'BinaryOperator' and e.op == '=') or e.kind == 'CompoundAssignOperator' or (e.kind == 'UnaryOperator' and e.op in ('++', '--'))):
            l = strip(e.kids[0])
            if l.kind == 'DeclRefExpr':
                env = dict(env)
                env.pop(('alias', l.refid), None)
                iv = self.ev(e.kids[1], env) if (e.kind == 'BinaryOperator') else None
                if iv is not None:
                    env[l.refid] = iv
                else:
                    env.pop(l.refid, None)
        return env

    @staticmethod
    def join(a, b):
        if a is None:
            return b
        if b is None:
            return a
        out = {}
        for k in a:
            if k in b:
                if isinstance(k, tuple) and k[0] == 'alias':
                    if a[k] == b[k]:
                        out[k] = a[k]
                    continue
                out[k] = (min(a[k][0], b[k][0]), max(a[k][1], b[k][1]))
        return out


def rule_C7(ctx, prog, label, rule='C7'):
    rr = RuleResult(rule, 'bit-range primitives: every shift of a 64-bit word has a count inside [0, 63] for all coordinates >= 0 and all 1 <= n <= 64 '
                          '(interval analysis with branch refinement)')
    for name, hyp in sorted(PRIMS.items()):
        f = prog.funcs.get(name)
        if f is None or f.body is None:
            raise AnalysisBroken('C7: primitive %s is missing' % name)
        for h in hyp:
            if h >= len(f.params):
                raise AnalysisBroken('C7: %s has no parameter %d any more' % (name, h))
        hyp = dict((f.params[i].name, v) for i, v in hyp.items())

        def on_shift(e, iv, f=f):
            rr.instances += 1
            ok = iv is not None and iv[0] >= 0 and iv[1] <= 63
            rr.ob(ok, dict(function=f.name, shift=pp(e)[:60], count=list(iv) if iv else None),
                  Finding(rule, '%s|%s|%s' % (rule, f.name, pp(e.kids[1])[:24]), e.loc, f.name,
                          'shift `%s`: the count `%s` ranges over %s under 1 <= n <= 64, coordinates >= 0 - outside [0, 63] the shift is undefined '
                          '(x86 takes the count modulo 64: the operand comes back unchanged and bits outside the addressed range are touched)'
                          % (pp(e)[:60], pp(e.kids[1])[:30], ('[%d, %d]' % iv) if iv else 'an unknown interval'), {}, label))
        it = Interp(f, hyp, on_shift)
        it.stmt(f.body, dict(it.env0))
    rr.require_floor(12, 'shifts in the bit-range primitives')
    return rr


# ---------------------------------------------------------------------------------------------- F9
SPLITTERS = ('_mzd_mul_even', '_mzd_sqr_even', '_mzd_addmul_even', '_mzd_addsqr_even', '_mzd_mul_mp4', '_mzd_addmul_mp4')
CUTOFF_WRAPPERS = ('mzd_mul', 'mzd_addmul', 'mzd_mul_mp', 'mzd_addmul_mp')


def rule_F9(ctx, prog, label, rule='F9'):
    """recursive splitters: a dimension that is cut into two word-aligned halves (`x - x % mult`, `x -= x % mult`, mult >= 64)
    is at least 2 * m4ri_radix there - otherwise the half is 0 words wide and the callee gets an empty operand (crash in
    mzd_copy / "Target matrix is too small").  Interval analysis with the base-case guard inlined; the cutoff is >= 64 at every
    call from the public wrappers (checked on the wrappers, same analysis)."""
    rr = RuleResult(rule, 'Strassen-Winograd / multi-core splitters: every dimension that is halved on word boundaries is >= 128 at the cut '
                          '(interval analysis through the inlined base-case guard), and the wrappers hand over a cutoff >= 64')
    for name in SPLITTERS:
        f = prog.funcs.get(name)
        if f is None or f.body is None:
            continue          # mp.c is compiled only with OpenMP
        cut = [p_ for p_ in f.params if (p_.type or '').replace('const', '').strip() == 'int'][-1:]
        if not cut:
            raise AnalysisBroken('F9: %s has no cutoff parameter' % name)
        cutname = cut[0].name
        seen = set()

        def on_expr(e, env, it, f=f):
            if e.kind in ('BinaryOperator', 'CompoundAssignOperator') and e.op in ('%', '%=') and e.uid not in seen:
                x, m_ = strip(e.kids[0], casts=True), strip(e.kids[1], casts=True)
                if x.kind == 'DeclRefExpr' and m_.kind == 'DeclRefExpr' and m_.refkind == 'VarDecl' and x.refkind in ('VarDecl', 'ParmVarDecl') and (x.type or '').replace('const', '').strip() == 'rci_t':
                    seen.add(e.uid)
                    iv = it.ev(x, env)
                    rr.instances += 1
                    ok = iv is not None and iv[0] >= 128
                    rr.ob(ok, dict(function=f.name, cut=pp(e)[:30], dimension=list(iv) if iv and iv[1] < INF else ([iv[0], 'inf'] if iv else None)),
                          Finding(rule, '%s|%s|%s' % (rule, f.name, x.ref), e.loc, f.name,
                                  '`%s` is cut into word-aligned halves although it may be as small as %s here: for %s in [%s, 127] the half is 0 words wide and '
                                  'the recursive call works on an empty block (the base-case guard does not cover it)'
                                  % (x.ref, iv[0] if iv else '?', x.ref, iv[0] if iv else '?'), {}, label))
        nbad = len(rr.findings)
        it = Interp(f, {cutname: (64, INF)}, lambda e, iv: None, prog=prog, allow_loops=True, on_expr=on_expr)
        it.stmt(f.body, dict(it.env0))
        if it.unknown_guard and len(rr.findings) > nbad:
            raise AnalysisBroken('F9: the base-case predicate called by %s is not a one-line condition (possibly with named sub-conditions): not modelled' % name)
    for name in CUTOFF_WRAPPERS:
        f = prog.funcs.get(name)
        if f is None or f.body is None:
            continue

        def on_expr(e, env, it, f=f):
            if e.kind == 'CallExpr' and callee_name(e) in SPLITTERS + ('_mzd_mul_even', '_mzd_addmul_even'):
                g = prog.resolve(callee_name(e), f)
                if g is None:
                    return
                idx = [i for i, p_ in enumerate(g.params) if (p_.type or '').replace('const', '').strip() == 'int'][-1:]
                if not idx or idx[0] + 1 >= len(e.kids):
                    return
                iv = it.ev(e.kids[1 + idx[0]], env)
                rr.instances += 1
                ok = iv is not None and iv[0] >= 64
                rr.ob(ok, dict(function=f.name, call=pp(e)[:40], cutoff=[iv[0], 'inf'] if iv else None),
                      Finding(rule, '%s|%s|cutoff' % (rule, f.name), e.loc, f.name,
                              '`%s` may hand over a cutoff below m4ri_radix (%s): the splitters assume cutoff >= 64' % (pp(e)[:50], iv), {}, label))
        it = Interp(f, {}, lambda e, iv: None, prog=prog, allow_loops=True, on_expr=on_expr)
        try:
            it.stmt(f.body, dict(it.env0))
        except AnalysisBroken:
            raise
    rr.require_floor(8, 'cuts and wrapper calls')
    return rr


# ====================================================================== SP1: a half split cuts the axis it was computed from

HALF_SPLITTERS = ('_mzd_trsm_upper_right', '_mzd_trsm_lower_right', '_mzd_trsm_lower_left', '_mzd_trsm_upper_left', '_mzd_ple')


def _half_split_of(d, fs):
    """d = ((E >> 1) * radix) or ((E / 2) * radix): the set of symbolic dimension values E is computed from, else None"""
    d = strip(d, casts=True)
    if d is None or d.kind != 'BinaryOperator' or d.op != '*':
        return None
    for (a, b) in ((d.kids[0], d.kids[1]), (d.kids[1], d.kids[0])):
        b0 = strip(b, casts=True)
        if not (int_value(b0) == 64 or pp(b0) == 'm4ri_radix'):
            continue
        a0 = strip(a, casts=True)
        if a0.kind == 'BinaryOperator' and ((a0.op == '>>' and int_value(a0.kids[1]) == 1) or (a0.op == '/' and int_value(a0.kids[1]) == 2)):
            dims = set()

            def collect(e_, depth=0):
                for x in e_.walk():
                    t = (x.type or '').replace('const', '').strip()
                    if x.kind == 'DeclRefExpr' and x.refkind == 'VarDecl' and t in ('rci_t', 'wi_t', 'int'):
                        d_ = fs.single_def(x.refid)
                        before = len(dims)
                        if d_ is not None and depth < 6 and strip(d_, casts=True).kind != 'CallExpr':
                            collect(d_, depth + 1)      # a named intermediate stands for its definition
                        if len(dims) == before and t == 'rci_t' and (d_ is None or int_value(d_) is None):
                            dims.add(repr(fs.sym(x)))
                    elif x.kind == 'DeclRefExpr' and x.refkind == 'ParmVarDecl' and t == 'rci_t':
                        dims.add(repr(fs.sym(x)))
                    elif x.kind == 'MemberExpr' and x.name in ('nrows', 'ncols'):
                        dims.add(repr(fs.sym(x)))
            collect(a0.kids[0])
            return dims
    return None


def rule_SP1(ctx, prog, label, rule='SP1', funcs=HALF_SPLITTERS):
    """recursive TRSM / PLE: the cut `s = half(E)` (half the words of E, on a word boundary) satisfies 0 <= s <= E and nothing
    else; every window that starts at s on an axis must therefore end at E on that axis - a cut computed from the other
    dimension can exceed the extent (negative-size window, access past the operand) or be 0 (the recursion never ends)."""
    from .symbolic import FuncSym
    rr = RuleResult(rule, 'recursive TRSM / PLE: a window that starts at the half-split point of an axis ends at the dimension the split point was computed from')
    nf = 0
    for name in funcs:
        f = prog.funcs.get(name)
        if f is None or f.body is None:
            raise AnalysisBroken('%s: recursive splitter %s no longer exists' % (rule, name))
        fs = FuncSym(f)
        cuts = {}
        for vid, ds in fs.defs.items():
            if len(ds) != 1 or vid in fs.mutated:
                continue
            dims = _half_split_of(ds[0], fs)
            if dims is not None:
                if len(dims) != 1:
                    raise AnalysisBroken('%s: split point in %s is computed from %d dimensions (%s); form not modelled' % (rule, name, len(dims), sorted(dims)))
                cuts[vid] = list(dims)[0]
        if not cuts:
            raise AnalysisBroken('%s: %s no longer computes a half-split point' % (rule, name))
        nf += 1
        for c in f.body.find('CallExpr'):
            if callee_name(c) not in ('mzd_init_window', 'mzd_init_window_const') or len(c.kids) < 6:
                continue
            for (axis, lo, hi) in (('row', c.kids[2], c.kids[4]), ('column', c.kids[3], c.kids[5])):
                l0 = strip(lo, casts=True)
                if l0.kind == 'DeclRefExpr' and l0.refid in cuts:
                    rr.instances += 1
                    h = repr(fs.sym(hi))
                    ok = (h == cuts[l0.refid])
                    rr.ob(ok, dict(function=name, window=pp(c)[:70], axis=axis, cut=l0.ref, extent=h),
                          Finding(rule, '%s|%s|%s|%s' % (rule, name, axis, pp(strip(c.kids[1], casts=True))), c.loc, name,
                                  'window `%s` runs on its %s axis from the split point `%s` to `%s`, but `%s` is half of %s: the split point is only '
                                  'known to lie in [0, %s], so the window can have negative size or start past the operand, and a split of 0 makes the '
                                  'recursion call itself with the same arguments' % (pp(c)[:70], axis, l0.ref, pp(strip(hi, casts=True)), l0.ref,
                                                                                   cuts[l0.refid], cuts[l0.refid]), {}, label))
    rr.require_floor(12, 'windows starting at a split point')
    return rr


# ====================================================================== WB1: windows of scratch matrices end inside them

def _small_range(e, fs, depth=0):
    """(lo, hi) of an expression built from bounded pieces only (alignment remainders, comparisons, shifts of positive
    constants, constants), else None"""
    e = strip(e, casts=True)
    if e is None or depth > 8:
        return None
    v = int_value(e)
    if v is not None:
        return (v, v)
    if e.kind == 'DeclRefExpr' and e.refkind == 'VarDecl':
        d = fs.single_def(e.refid)
        return _small_range(d, fs, depth + 1) if d is not None else None
    if e.kind == 'BinaryOperator':
        if e.op in ('==', '!=', '<', '<=', '>', '>=', '&&', '||'):
            return (0, 1)
        if e.op == '%':
            n = int_value(e.kids[1])
            if n is None or n <= 0:
                return None
            x = strip(e.kids[0], casts=True)
            t = (x.type or '')
            if n % 8 == 0 and t.rstrip().endswith('*') and ('word' in t or 'uint64_t' in t):
                return (0, n - 8)          # addresses of 64-bit words are multiples of 8
            return (0, n - 1)
        if e.op == '<<':
            c = int_value(e.kids[0])
            return (c, INF) if c is not None and c > 0 else None
        a, b = _small_range(e.kids[0], fs, depth + 1), _small_range(e.kids[1], fs, depth + 1)
        if a is None or b is None:
            return None
        if e.op == '+':
            return (a[0] + b[0], a[1] + b[1])
        if e.op == '-':
            return (a[0] - b[1], a[1] - b[0])
        if e.op == '*' and a[0] >= 0 and b[0] >= 0:
            return (a[0] * b[0], a[1] * b[1])
        if e.op == '/' and a[0] >= 0 and b[0] == b[1] and b[0] > 0:
            return (a[0] // b[0], a[1] // b[0])
    return None


def rule_WB1(ctx, prog, label, rule='WB1'):
    """A window into a matrix that the same function created with mzd_init(R, C) must end inside it: highr <= R, highc <= C.
    Decided where the difference is a combination of bounded terms (alignment remainders of row addresses, comparisons, table
    sizes 2^k); other sites are listed as not decided.  The scratch tables of the Four-Russians routines are shifted by the
    alignment of the operand - a table allocated without the spare word is overrun by one word per row."""
    from .symbolic import FuncSym, Lin
    rr = RuleResult(rule, 'windows into a matrix created in the same function end inside it (table windows shifted by the operand\'s alignment included)')
    undecided = 0
    for f in sorted(prog.all_funcs(), key=lambda f: (f.file, f.line)):
        fs = None
        for c in f.body.find('CallExpr'):
            if callee_name(c) not in ('mzd_init_window', 'mzd_init_window_const') or len(c.kids) < 6:
                continue
            x = strip(c.kids[1], casts=True)
            fs = fs or FuncSym(f)
            d0 = None
            if x.kind == 'DeclRefExpr' and x.refkind == 'VarDecl':
                d = fs.single_def(x.refid)
                d0 = strip(d, casts=True) if d is not None else None
            elif x.kind == 'ArraySubscriptExpr':
                # Talign[z] = mzd_init(..); window(Talign[z], ..) in the same block
                asg = [n for n in f.body.walk() if n.kind == 'BinaryOperator' and n.op == '=' and pp(strip(n.kids[0], casts=True)) == pp(x)]
                if len(asg) == 1:
                    d0 = strip(asg[0].kids[1], casts=True)
            if d0 is None or d0.kind != 'CallExpr' or callee_name(d0) != 'mzd_init':
                continue
            for (axis, hi, ext) in (('row', c.kids[4], d0.kids[1]), ('column', c.kids[5], d0.kids[2])):
                diff = fs.sym(hi) - fs.sym(ext)
                # bound every atom of the difference through a sub-expression that denotes it
                pool = {}
                stack = [hi, ext]
                seen = 0
                while stack and seen < 400:
                    n = stack.pop()
                    seen += 1
                    n0 = strip(n, casts=True)
                    if n0 is None:
                        continue
                    s = fs.sym(n0)
                    if len(s.t) == 1 and s.c == 0 and list(s.t.values())[0] == 1:
                        r = _small_range(n0, fs)
                        if r is not None:
                            pool.setdefault(list(s.t.keys())[0], r)
                    if n0.kind == 'DeclRefExpr' and n0.refkind == 'VarDecl' and fs.single_def(n0.refid) is not None:
                        stack.append(fs.single_def(n0.refid))
                    stack.extend(n0.kids)
                up = diff.c
                decided = True
                for a, k in diff.t.items():
                    r = pool.get(a)
                    if r is None or (k > 0 and r[1] >= INF) or (k < 0 and r[0] <= -INF):
                        decided = False
                        break
                    up += k * (r[1] if k > 0 else r[0])
                if not decided:
                    undecided += 1
                    continue
                rr.instances += 1
                rr.ob(up <= 0, dict(function=f.name, window=pp(c)[:60], axis=axis, excess_at_most=up),
                      Finding(rule, '%s|%s|%s|%s' % (rule, f.name, pp(x), axis), c.loc, f.name,
                              'window `%s` can end %d %ss past the end of `%s`, which this function created as `%s` (excess %r): the window\'s last '
                              'word lies outside the allocated block' % (pp(c)[:70], up, axis, pp(x), pp(d0)[:60], diff), {}, label))
    rr.extra['sites_not_decided'] = undecided
    rr.require_floor(8, 'decidable window axes into scratch matrices')
    return rr
