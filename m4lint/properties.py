"""Property -> rule sets.  Each entry: (meta, rules_for(ctx) -> [(cfg_label, RuleResult)])."""
from . import frontend
from .frontend import cfg_id

PROPS = {}


def prop(pid, **meta):
    def deco(fn):
        PROPS[pid] = (meta, fn)
        return fn
    return deco


def _label(cfg):
    return cfg_id(cfg)


# ------------------------------------------------------------------ C15
@prop('C15', level='other',
      explanation=('Sufficient condition for race freedom in the thread-safe configuration (MMC=0, MZD_CACHE=0, '
                   'OpenMP=0, SSE2 in {0,1}): G1 enumerates every static-storage object of the library (file-scope and '
                   'function-local static) from the type-checked AST, and proves with the interprocedural write-effect '
                   'analysis that none is written or aliased outside functions reachable solely from the load-time '
                   'constructor/destructor; the census is cross-checked against llvm-nm on the compiled objects. G2: no '
                   'call to an MT-Unsafe libc interface. G4: configure.ac really switches both caches off under '
                   '--enable-thread-safe.'),
      not_decided='equality of each thread\'s results with a sequential run follows from absence of shared mutable state; it is argued, not separately checked')
def c15(ctx):
    from . import globals_engine as G
    out = []
    cfgs = frontend.thread_safe_configs()
    if ctx.tier == 'thorough':
        cfgs = cfgs + [frontend.with_caches(c, frontend.SMALL) for c in cfgs]
    for cfg in cfgs:
        prog = ctx.program(cfg)
        if prog.errors:
            raise frontend.AnalysisBroken('configuration %s does not type-check: %s' % (cfg_id(cfg), list(prog.errors.items())[0]))
        lab = _label(cfg)
        ctx.add(out, lab, G.rule_G1, ctx, prog, lab)
        ctx.add(out, lab, G.rule_G2, ctx, prog, lab)
        ctx.add(out, lab, G.rule_G1nm, ctx, prog, lab)
    _selftest(ctx, out, ['G1'])
    ctx.add(out, 'configure.ac', G.rule_G4, ctx)
    return out


# ------------------------------------------------------------------ C20
@prop('C20', level='proof',
      explanation=('E3: forward must-be-tested dataflow on the CFG of every function that calls a raw libc allocator '
                   '(malloc/calloc/realloc/posix_memalign/_mm_malloc/...): on every path from the call, the first use of the '
                   'result other than a comparison or free is dominated by a NULL test whose failing edge ends in m4ri_die. '
                   'E3-census: every other allocation request in the library goes through a wrapper for which E3 holds on all '
                   'return paths. E3-3p: results of fopen/png_create_* are tested before use. E4: m4ri_die itself cannot return. E3 also covers fields of a returned object.'),
      not_decided='zero-size requests (wrappers may return NULL for size 0: stated assumption); failures inside libpng/libc themselves')
def c20(ctx):
    from . import nullcheck as NC
    out = []
    cfgs = [frontend.host_config()]
    if ctx.tier == 'thorough':
        cfgs = frontend.legal_configs()
    else:
        h = frontend.host_config()
        alt = dict(h)
        alt['sse2'] = 0   # selects the plain malloc/calloc branch of the wrappers
        cfgs.append(alt)
    for cfg in cfgs:
        prog = ctx.program(cfg)
        if prog.errors:
            raise frontend.AnalysisBroken('configuration %s does not type-check: %s' % (cfg_id(cfg), list(prog.errors.items())[0]))
        lab = _label(cfg)
        ctx.add(out, lab, NC.rule_E3, ctx, prog, lab)
        ctx.add(out, lab, NC.rule_E3_census, ctx, prog, lab)
        ctx.add(out, lab, NC.rule_E3_third_party, ctx, prog, lab)
        ctx.add(out, lab, NC.rule_E4, ctx, prog, lab)
    _selftest(ctx, out, ['E3'])
    return out


def _selftest(ctx, out, which, cfg=None):
    """positive controls for zero-expected-count rules (selftest/controls.c), on the host configuration"""
    from . import selftest as ST
    cfg = cfg or frontend.host_config()
    ctx.add(out, 'selftest', ST.rule_selftest, ctx, cfg, 'selftest', which=which)


def _configs(ctx, extra=()):
    """quick: the host configuration (+ property-specific extras); thorough: all legal configurations."""
    if ctx.tier == 'thorough':
        return frontend.legal_configs()
    out = [frontend.host_config()]
    for e in extra:
        if frontend.cfg_id(e) not in [frontend.cfg_id(c) for c in out]:
            out.append(e)
    return out


def _prog(ctx, cfg):
    prog = ctx.program(cfg)
    if prog.errors:
        raise frontend.AnalysisBroken('configuration %s does not type-check: %s' % (cfg_id(cfg), list(prog.errors.items())[0]))
    return prog


# ------------------------------------------------------------------ C11
@prop('C11', level='other',
      explanation=('Decided clauses of memory safety: E1 path-sensitive typestate over the CFG of every function that acquires or '
                   'releases a resource (owners, windows, permutations and their windows, wrapper and libc blocks, tables, heaps, '
                   'FILE/png handles): released/returned/stored on every path, no double release, no use after release, destructor '
                   'kind matches (a view never frees its parent). SP1: split-point windows stay inside the split dimension. WB1: windows into matrices created in the same function end inside them (alignment-shifted tables).'),
      not_decided='absence of out-of-bounds word accesses in general, signed overflow')
def c11(ctx):
    from . import resources as R, align as AL, contracts as CT, families as B, intervals as IVs
    out = []
    for cfg in _configs(ctx):
        prog = _prog(ctx, cfg)
        lab = _label(cfg)
        ctx.add(out, lab, R.rule_E1, ctx, prog, lab)
        ctx.add(out, lab, R.rule_E5, ctx, prog, lab)
        ctx.add(out, lab, B.rule_B2c, ctx, prog, lab)
        ctx.add(out, lab, CT.rule_F1, ctx, prog, lab)
        ctx.add(out, lab, AL.rule_D0, ctx, prog, lab)
        ctx.add(out, lab, AL.rule_D1, ctx, prog, lab)
        ctx.add(out, lab, AL.rule_D2, ctx, prog, lab)
        ctx.add(out, lab, IVs.rule_SP1, ctx, prog, lab)
        ctx.add(out, lab, IVs.rule_WB1, ctx, prog, lab)
    _selftest(ctx, out, ['E1', 'D0'])
    return out


# ------------------------------------------------------------------ engine C/A based properties
ROWOPS = {'_mzd_row_swap', 'mzd_row_add_offset', 'mzd_row_clear_offset', 'mzd_combine_even_in_place', 'mzd_combine_even',
          '_mzd_apply_p_right_even', 'mzd_write_col_to_rows_blockd', 'mzd_xor_bits', 'mzd_clear_bits', 'mzd_and_bits',
          'mzd_write_bit', 'mzd_col_swap_in_rows', 'mzd_col_swap'}
MOVERS = {'mzd_copy', 'mzd_copy_row', 'mzd_set_ui', 'mzd_submatrix', 'mzd_concat', 'mzd_stack', 'mzd_extract_u',
          'mzd_extract_l', '_mzd_add', 'mzd_combine_even', 'mzd_combine_even_in_place', 'mzd_randomize',
          'mzd_randomize_custom'}


@prop('C09', level='other',
      explanation=('C1: every store into the data words of a caller-visible matrix (every function, every configuration) is '
                   'classified by form (how the changed bits are confined) and position (symbolic, relative to the destination width) '
                   'and must be discharged by a mask that is the destination\'s valid-bit mask, by being provably interior, by a '
                   'well-formed unrolled tail family whose last member is masked, by a frozen kernel contract (counter and final masked '
                   'store re-checked structurally), by whole-word XOR from lookup tables that are only ever written by table builders '
                   '(C2 at every call site), or by a reasoned exception. C3/C3b: observers mask the last word. A1: no write effect on '
                   'const operands through casts and callees. A2: header fields written only by the two constructors. D0/D1/D2: '
                   'every function dereferencing __m128i* is a known phase-assuming kernel or tests operand phases itself; along every '
                   'call chain into such a kernel the tables are windows of local owners whose column offset, folded under both '
                   'hypotheses for the destination\'s 16-byte phase, matches it; every window starts on a word boundary.'),
      not_decided='that results equal those on standalone copies (value level); index arithmetic inside bit-range primitives')
def c09(ctx):
    from . import masks as M, const_rules as CR, align as AL
    out = []
    for cfg in _configs(ctx, extra=[dict(frontend.host_config(), sse2=0)]):
        prog = _prog(ctx, cfg)
        lab = _label(cfg)
        ctx.add(out, lab, M.rule_C1, ctx, prog, lab)
        ctx.add(out, lab, M.rule_C2_callers, ctx, prog, lab)
        ctx.add(out, lab, M.rule_C3, ctx, prog, lab)
        ctx.add(out, lab, M.rule_C3c, ctx, prog, lab)
        ctx.add(out, lab, M.rule_C4, ctx, prog, lab)
        ctx.add(out, lab, M.rule_S1, ctx, prog, lab)
        ctx.add(out, lab, CR.rule_A1, ctx, prog, lab)
        ctx.add(out, lab, CR.rule_A2, ctx, prog, lab)
        ctx.add(out, lab, AL.rule_D0, ctx, prog, lab)
        ctx.add(out, lab, AL.rule_D1, ctx, prog, lab)
        ctx.add(out, lab, AL.rule_D2, ctx, prog, lab)
    _selftest(ctx, out, ['C1', 'S1', 'A1'])
    return out


@prop('C17', level='other',
      explanation=('C3: in mzd_equal, mzd_cmp, mzd_is_zero, mzd_first_zero_row and mzd_find_pivot every loaded word whose position is not '
                   'provably interior is &-ed with the operand\'s valid-bit mask before it reaches the verdict (one-word rows included). '
                   'C3b: mzd_cmp is two-sided on each compared quantity; dimensions are compared before any word is read.'),
      not_decided='LSB-first ordering inside a word, transitivity, pivot choice (value level)')
def c17(ctx):
    from . import masks as M, pivot as PV
    out = []
    for cfg in _configs(ctx):
        prog = _prog(ctx, cfg)
        lab = _label(cfg)
        ctx.add(out, lab, M.rule_C3, ctx, prog, lab)
        ctx.add(out, lab, M.rule_C3b, ctx, prog, lab)
        ctx.add(out, lab, M.rule_S1, ctx, prog, lab)
        ctx.add(out, lab, PV.rule_FP1, ctx, prog, lab)
    _selftest(ctx, out, ['S1'])
    return out


@prop('C13', level='other',
      explanation=('C1 restricted to the row/column primitives and the column-permutation kernel: row swap, row add from offset, row clear '
                   'from offset, combine kernels, bit-range primitives, apply_p_right strips - no store can touch bits past the last column '
                   '(kernel contracts re-check the counter initialisation and the final masked/revert store). B1 on the 64-case column gather. '
                   'F4: direction and range of the four permutation applications. C7: interval analysis (branch refinement) of every shift '
                   'count in the bit-range primitives under coordinates >= 0, 1 <= n <= 64. W1: no 32-bit shift widened to a word. W2/W2b: a '
                   '(word index, bit) pair is built from one value of the column variable.'),
      not_decided='the swap arithmetic itself (which bits move where)')
def c13(ctx):
    from . import coords as CO, intervals as IV, bitrange as BR
    from . import masks as M, families as B, contracts as CT
    out = []
    for cfg in _configs(ctx, extra=[dict(frontend.host_config(), sse2=0)]):
        prog = _prog(ctx, cfg)
        lab = _label(cfg)
        ctx.add(out, lab, M.rule_C1, ctx, prog, lab, only=ROWOPS, rule='C1-rowops')
        ctx.add(out, lab, B.rule_B1, ctx, prog, lab, only_funcs={'mzd_write_col_to_rows_blockd', 'mzd_col_swap_in_rows'})
        ctx.add(out, lab, CT.rule_F4, ctx, prog, lab)
        ctx.add(out, lab, M.rule_W1, ctx, prog, lab)
        ctx.add(out, lab, CO.rule_W2, ctx, prog, lab)
        ctx.add(out, lab, CO.rule_W2b, ctx, prog, lab)
        ctx.add(out, lab, IV.rule_C7, ctx, prog, lab)
        ctx.add(out, lab, BR.rule_C7c, ctx, prog, lab)
    return out


@prop('C08', level='other',
      explanation=('C1 restricted to the data movers (copy, copy_row, set_ui, submatrix both paths, concat, stack, extract_u/l, the nine '
                   'routes of _mzd_add, combine_even): every store is masked or interior for its destination. A1: sources unchanged. MV1: the placers never accumulate into their destination without clearing the same bits first.'),
      not_decided='that any transpose kernel transposes; bit positions in general (value level)')
def c08(ctx):
    from . import masks as M, const_rules as CR, contracts as CT
    out = []
    for cfg in _configs(ctx, extra=[dict(frontend.host_config(), sse2=0)]):
        prog = _prog(ctx, cfg)
        lab = _label(cfg)
        ctx.add(out, lab, M.rule_C1, ctx, prog, lab, only=MOVERS, rule='C1-movers')
        ctx.add(out, lab, M.rule_MV1, ctx, prog, lab)
        ctx.add(out, lab, M.rule_S1, ctx, prog, lab)
        ctx.add(out, lab, M.rule_C4, ctx, prog, lab)
        ctx.add(out, lab, CR.rule_A2, ctx, prog, lab)
        ctx.add(out, lab, CT.rule_F2, ctx, prog, lab)
        ctx.add(out, lab, CR.rule_A1, ctx, prog, lab)
    _selftest(ctx, out, ['MV1', 'S1'])
    return out


@prop('C10', level='other',
      explanation=('C5: mzd_init takes its words only from m4ri_mmc_calloc, whose zeroing memset post-dominates the (possibly recycled) '
                   'allocation with the same length, m4ri_mmc_malloc has no other caller, m4ri_mm_calloc zeroes in the non-calloc variants: '
                   'a fresh matrix is zero whatever the heap or the block cache hands back. C6/C6b: product kernels are called with clear=TRUE '
                   'on caller-visible destinations in overwriting entry points, clear=FALSE only in the documented accumulate variants or into a '
                   'matrix created by mzd_init immediately before. C1 over all writers and A2: no store can set a bit past the last column of an '
                   'owned matrix. C4: raw kernels never see a source or destination with foreign excess bits. A2i: constructors assign every header field before reading it or returning. PI1: output permutations are identity-filled up to the dimension.'),
      not_decided='independence from uninitialised ple_table_t scratch arrays and from call history in general (value level)')
def c10(ctx):
    from . import masks as M, const_rules as CR, purity as P, contracts as CTp
    out = []
    cfgs = _configs(ctx, extra=[dict(frontend.host_config(), sse2=0), frontend.thread_safe_configs()[0]])
    for cfg in cfgs:
        prog = _prog(ctx, cfg)
        lab = _label(cfg)
        ctx.add(out, lab, P.rule_C5, ctx, prog, lab)
        ctx.add(out, lab, P.rule_C6, ctx, prog, lab)
        ctx.add(out, lab, P.rule_C6d, ctx, prog, lab)
        ctx.add(out, lab, P.rule_C6e, ctx, prog, lab)
        ctx.add(out, lab, M.rule_C1, ctx, prog, lab)
        ctx.add(out, lab, M.rule_C4, ctx, prog, lab)
        ctx.add(out, lab, CR.rule_A2, ctx, prog, lab)
        ctx.add(out, lab, CR.rule_A2i, ctx, prog, lab)
        ctx.add(out, lab, CTp.rule_PI1, ctx, prog, lab)
    return out


# ------------------------------------------------------------------ family-based properties
def _names(prefix, rng):
    return set('%s%d' % (prefix, i) for i in rng)


MUL_FUNCS = {'_mzd_combine', 'mzd_make_table', '_mzd_mul_m4rm', 'mzd_combine_even', 'mzd_combine_even_in_place', '_mzd_mul_naive',
             '_mzd_mul_va'} | _names('_mzd_combine_', range(2, 9))
ECH_FUNCS = {'mzd_process_rows', '_mzd_echelonize_m4ri', '_mzd_top_echelonize_m4ri', 'mzd_make_table'} | _names('mzd_process_rows', range(2, 7))
PLE_FUNCS = {'_mzd_ple_russian', '_kk_setup', 'mzd_make_table_ple', '_mzd_ple_a11_1', '_mzd_ple_submatrix', '_mzd_ple', 'mzd_ple', 'mzd_pluq', '_mzd_pluq',
             '_mzd_ple_a10', '_mzd_ple_to_e', '_mzd_compress_l'} | _names('_mzd_process_rows_ple_', range(2, 9)) | _names('_mzd_ple_a11_', range(2, 9))
TRSM_FUNCS = {'_mzd_trsm_pack', '_mzd_trsm_unpack', '_mzd_trsm_upper_left_russian', '_mzd_trsm_lower_left_russian',
              '_mzd_trsm_upper_left_submatrix', '_mzd_trsm_lower_left_submatrix', 'mzd_make_table_trtri', 'mzd_trtri_upper_russian'}
TRSM_ALL = TRSM_FUNCS | {'_mzd_trsm_upper_left', '_mzd_trsm_lower_left', '_mzd_trsm_upper_right', '_mzd_trsm_lower_right', '_mzd_trsm_upper_right_trtri',
                         'mzd_trsm_upper_left', 'mzd_trsm_lower_left', 'mzd_trsm_upper_right', 'mzd_trsm_lower_right', 'mzd_trtri_upper'}
IO_FUNCS = {'mzd_from_png', 'mzd_to_png', 'mzd_from_jcf', 'mzd_from_str'}
BIT_FUNCS = {'m4ri_spread_bits', 'm4ri_shrink_bits', 'm4ri_swap_bits'}


@prop('C01', level='other',
      explanation=('Structural clauses of multiplication: A1 (factors have no write effect on any route); B1/B2/B3 (Duff devices and N-table '
                   'combine kernels: complete label sets, affine literals and callee suffixes, case K reads exactly tables 0..K-1; NTABLES '
                   'dispatch calls the matching instantiation); F1 (all six front ends test the inner dimension and the shape of C before any '
                   'work); F2 (allocated result shape = demanded shape); C6/C6b (clear flags by role); C2 (tables written only by builders). C6d extended to the overwriting entry points (mzd_mul, mzd_mul_m4rm, mzd_mul_naive, mzd_mul_mp).'),
      not_decided='that the Bodrato sequence, the k-splitting and the parity kernel compute A*B (value level); the Strassen empty-quadrant abort needs arithmetic on mmm and is not found by these rules')
def c01(ctx):
    from . import intervals as IV
    from . import families as B, const_rules as CR, contracts as CT, purity as P, masks as M
    out = []
    for cfg in _configs(ctx, extra=[dict(frontend.host_config(), sse2=0)]):
        prog = _prog(ctx, cfg)
        lab = _label(cfg)
        ctx.add(out, lab, B.rule_B1, ctx, prog, lab, only_funcs=MUL_FUNCS)
        ctx.add(out, lab, B.rule_B2, ctx, prog, lab)
        ctx.add(out, lab, B.rule_B3, ctx, prog, lab)
        ctx.add(out, lab, CR.rule_A1, ctx, prog, lab)
        ctx.add(out, lab, CT.rule_F1, ctx, prog, lab)
        ctx.add(out, lab, CT.rule_F2, ctx, prog, lab)
        ctx.add(out, lab, CT.rule_F6, ctx, prog, lab)
        ctx.add(out, lab, CT.rule_F7, ctx, prog, lab)
        ctx.add(out, lab, CT.rule_F3a, ctx, prog, lab)
        ctx.add(out, lab, P.rule_C6, ctx, prog, lab)
        ctx.add(out, lab, M.rule_C2_callers, ctx, prog, lab)
        ctx.add(out, lab, IV.rule_F9, ctx, prog, lab)
        ctx.add(out, lab, P.rule_C6d, ctx, prog, lab)
        ctx.add(out, lab, P.rule_C6e, ctx, prog, lab)
        ctx.add(out, lab, P.rule_C6f, ctx, prog, lab)
        ctx.add(out, lab, M.rule_C3c, ctx, prog, lab)
    return out


@prop('C02', level='other',
      explanation=('Structural clauses of echelonisation: B1/B2 on the six mzd_process_rows Duff devices and the 2..6-table row processors '
                   '(complete label sets, affine members); B5 (for every k in 1..64 the width of table j at the mzd_make_table call equals the width '
                   'mzd_process_rowsN derives for table j, and the row offsets are the prefix sums - all 20 table/width pairs of both echelonisers, '
                   'including the 4-, 5- and 6-table branches with non-zero remainder); D1 (the echeloniser\'s tables are phase-matched to A); C2 (tables written only by '
                   'mzd_make_table); E1 on the echelonisation functions. B2r: Duff trip counters are refreshed inside the row loop. CL1 swap rows. W2k: no use of a k-derived local after k changed.'),
      not_decided='rank, RREF uniqueness, pivot search, density switch (value level)')
def c02(ctx):
    from . import pivot as PV, blockmove as BM2, coords as COk2
    from . import families as B, align as AL, masks as M, resources as R
    out = []
    for cfg in _configs(ctx, extra=[dict(frontend.host_config(), sse2=0)]):
        prog = _prog(ctx, cfg)
        lab = _label(cfg)
        ctx.add(out, lab, B.rule_B1, ctx, prog, lab, only_funcs=ECH_FUNCS)
        ctx.add(out, lab, B.rule_B2, ctx, prog, lab, only_funcs=ECH_FUNCS | {'_mzd_combine'}, rule='B2-ech') if False else B.rule_B2(ctx, prog, lab)
        ctx.add(out, lab, B.rule_B5, ctx, prog, lab)
        ctx.add(out, lab, B.rule_B2r, ctx, prog, lab)
        ctx.add(out, lab, BM2.rule_CL1, ctx, prog, lab)
        ctx.add(out, lab, COk2.rule_W2k, ctx, prog, lab)
        ctx.add(out, lab, AL.rule_D1, ctx, prog, lab, only_funcs=ECH_FUNCS)
        ctx.add(out, lab, M.rule_C2_callers, ctx, prog, lab)
        ctx.add(out, lab, R.rule_E1, ctx, prog, lab, only_funcs=ECH_FUNCS | {'mzd_echelonize_m4ri', 'mzd_echelonize_pluq', 'mzd_echelonize', 'mzd_top_echelonize_m4ri'}, rule='E1-ech')
        ctx.add(out, lab, PV.rule_FP1, ctx, prog, lab)
    return out


@prop('C03', level='other',
      explanation=('Structural clauses of PLE/PLUQ: B1 over both pseudo-templates (all seven instantiations of _mzd_process_rows_ple_N and '
                   '_mzd_ple_a11_N: affine table indices, prefix-sum chains sh[j] = k[0]+..+k[j-1]), the ntables dispatch and _kk_setup; '
                   'F1 (P, Q lengths validated before work); E1 on the PLE functions (ple_table_t, windows, permutation windows and their kinds); '
                   'B2c word-count guards; F4/F8 permutation loops; F6/F7 dimension and position typing of the Schur-complement step; W2/W2b '
                   '(word index and bit mask of a pivot test come from the same value of the column variable). SP1: windows starting at a half-split point end at the dimension the split was computed from. PI1: output permutations are identity-filled up to the matrix dimension.'),
      not_decided='P*L*U*Q = A, rank profile, zero storage outside L and U (value level)')
def c03(ctx):
    from . import coords as CO, pivot as PV, blockmove as BM, intervals as IVs
    from . import families as B, contracts as CT, resources as R
    out = []
    for cfg in _configs(ctx, extra=[dict(frontend.host_config(), sse2=0)]):
        prog = _prog(ctx, cfg)
        lab = _label(cfg)
        ctx.add(out, lab, B.rule_B1, ctx, prog, lab, only_funcs=PLE_FUNCS)
        ctx.add(out, lab, B.rule_B2c, ctx, prog, lab)
        ctx.add(out, lab, CT.rule_F8, ctx, prog, lab)
        ctx.add(out, lab, CT.rule_F4, ctx, prog, lab)
        ctx.add(out, lab, CT.rule_F6, ctx, prog, lab, only_funcs=PLE_FUNCS)
        ctx.add(out, lab, CT.rule_F7, ctx, prog, lab, only_funcs=PLE_FUNCS)
        ctx.add(out, lab, CT.rule_F1, ctx, prog, lab)
        ctx.add(out, lab, R.rule_E1, ctx, prog, lab, only_funcs=PLE_FUNCS | {'ple_table_init', 'ple_table_free'}, rule='E1-ple')
        ctx.add(out, lab, CO.rule_W2, ctx, prog, lab)
        ctx.add(out, lab, CO.rule_W2b, ctx, prog, lab)
        ctx.add(out, lab, PV.rule_FP1, ctx, prog, lab)
        ctx.add(out, lab, BM.rule_CL1, ctx, prog, lab)
        ctx.add(out, lab, CT.rule_F11, ctx, prog, lab)
        ctx.add(out, lab, IVs.rule_SP1, ctx, prog, lab)
        ctx.add(out, lab, CT.rule_PI1, ctx, prog, lab)
    return out


@prop('C04', level='other',
      explanation=('Structural clauses of TRSM: F1 on the four wrappers (T square, T vs B dimension, before any work); A1 (T unchanged); '
                   'B1 on the 2x64-statement pack/unpack runs and the NTABLES switches of both Four-Russians routines; D1 (their tables are '
                   'phase-matched to B); C1 on the word base cases. T1: the triangular operand is read only inside its named triangle '
                   '(diagonal windows stay triangular, in-triangle blocks are free, every bit read has its coordinate inequality proved '
                   'from the enclosing loops, any other consumer - a copy, a product, a word read - is a finding). SP1: windows starting at the half-split point end at the dimension the split was computed from.'),
      not_decided='T*X = B (value level)')
def c04(ctx):
    from . import families as B, contracts as CT, const_rules as CR, align as AL, masks as M, triangle as TR, intervals as IVs
    out = []
    for cfg in _configs(ctx, extra=[dict(frontend.host_config(), sse2=0)]):
        prog = _prog(ctx, cfg)
        lab = _label(cfg)
        ctx.add(out, lab, CT.rule_F1, ctx, prog, lab)
        ctx.add(out, lab, CT.rule_F6, ctx, prog, lab, only_funcs=TRSM_ALL)
        ctx.add(out, lab, CT.rule_F7, ctx, prog, lab, only_funcs=TRSM_ALL)
        ctx.add(out, lab, CR.rule_A1, ctx, prog, lab)
        ctx.add(out, lab, B.rule_B1, ctx, prog, lab, only_funcs=TRSM_FUNCS)
        ctx.add(out, lab, AL.rule_D1, ctx, prog, lab, only_funcs={'_mzd_trsm_upper_left_russian', '_mzd_trsm_lower_left_russian'})
        ctx.add(out, lab, M.rule_C1, ctx, prog, lab, only=TRSM_FUNCS | {'_mzd_trsm_lower_left', '_mzd_trsm_upper_left', '_mzd_trsm_upper_right_base', '_mzd_trsm_lower_right_base'}, rule='C1-trsm')
        ctx.add(out, lab, TR.rule_T1, ctx, prog, lab)
        ctx.add(out, lab, IVs.rule_SP1, ctx, prog, lab)
        ctx.add(out, lab, B.rule_B7p, ctx, prog, lab)
    _selftest(ctx, out, ['B7p'])
    return out


@prop('C18', level='other',
      explanation=('Structural clauses of the readers: I2 (bit depth, channels, colour type, interlacing of a PNG are each tested with a rejecting '
                   'edge that dominates png_read_row); I1 (row and column indices read from a JCF file are bounded below and above by a dying guard '
                   'that dominates mzd_write_bit); B1 (byte packing/unpacking families of writer and reader); E1 on all exits of the three '
                   'readers/writer (nothing leaks, nothing is freed twice); E3-3p (fopen/png_create_* results tested before use). W1: no int shift widened to a word in the readers.'),
      not_decided='round-trip equality, libpng behaviour on corrupted streams (it aborts through png_error: allowed by the property)')
def c18(ctx):
    from . import io_rules as I, families as B, resources as R, nullcheck as NC, masks as Mk
    out = []
    for cfg in _configs(ctx):
        prog = _prog(ctx, cfg)
        lab = _label(cfg)
        ctx.add(out, lab, I.rule_I1, ctx, prog, lab)
        ctx.add(out, lab, I.rule_I2, ctx, prog, lab)
        ctx.add(out, lab, I.rule_I3, ctx, prog, lab)
        ctx.add(out, lab, I.rule_I4, ctx, prog, lab)
        ctx.add(out, lab, Mk.rule_W1, ctx, prog, lab)
        ctx.add(out, lab, B.rule_B1, ctx, prog, lab, only_funcs=IO_FUNCS)
        ctx.add(out, lab, R.rule_E1, ctx, prog, lab, only_funcs=IO_FUNCS, rule='E1-io')
        ctx.add(out, lab, NC.rule_E3_third_party, ctx, prog, lab)
    return out


@prop('C19', level='other',
      explanation=('Finite, exhaustive clauses: C8 - 2209 C++17 static_assert witnesses (the macro text is taken from the repository header at '
                   'compile time) for LEFT/RIGHT/MIDDLE bit masks over every length and offset, with a liveness control that must fail to '
                   'compile; B7 - each butterfly stage of m4ri_swap_bits swaps adjacent s-bit groups with the matching period mask; B1 - the '
                   '16-member spread/shrink families are affine in their index; W1 - no shift is evaluated in 32 bits and then widened to a word.'),
      not_decided='m4ri_gray_code, m4ri_build_code, m4ri_parity64, m4ri_lesser_LSB: data-dependent code whose correctness is a statement about evaluated values')
def c19(ctx):
    from . import witness as W, families as B, masks as M
    out = []
    for cfg in _configs(ctx):
        prog = _prog(ctx, cfg)
        lab = _label(cfg)
        ctx.add(out, lab, W.rule_C8, ctx, prog, lab)
        ctx.add(out, lab, M.rule_W1, ctx, prog, lab)
        ctx.add(out, lab, B.rule_B7, ctx, prog, lab)
        ctx.add(out, lab, B.rule_B7p, ctx, prog, lab)
        ctx.add(out, lab, B.rule_B1, ctx, prog, lab, only_funcs=BIT_FUNCS)
    return out


@prop('C12', level='other',
      explanation=('J1: every legal (SSE2, OpenMP, MMC, MZD_CACHE) combination x cache triples type-checks, mp.c and the scalar kernels included. '
                   'J2: every function has the same effect summary (parameters written, non-cache globals written, origin of the result, parameters '
                   'freed) in every configuration; only the allocator/cache layer is exempt. J3: the store-discipline (C1), family (B1/B2), '
                   'validation (F1) and const-operand (A1) rules hold in every analysed configuration, i.e. the #if siblings the pinned suite never '
                   'compiles obey the same rules as the ones it does. J4: interval analysis of the automatic table-parameter selection: k stays in '
                   '[1, 16] for every cache triple.'),
      not_decided='equality of computed values across regimes (value level)')
def c12(ctx):
    from . import blockmove as BM
    from . import configs as J, masks as M, families as B, contracts as CT, const_rules as CR
    h = frontend.host_config()
    if ctx.tier == 'thorough':
        cfgs = frontend.legal_configs()
        # plus the fallback triple (0,0,0) -> misc.h defaults
        cfgs = cfgs + [frontend.with_caches(h, (0, 0, 0))]
    else:
        cfgs = [h, dict(h, sse2=0), frontend.thread_safe_configs()[0], frontend.openmp_configs()[0], frontend.with_caches(h, frontend.SMALL)]
    out = [('all', J.rule_J1(ctx, cfgs)), ('all', J.rule_J2(ctx, cfgs))]
    for cfg in cfgs:
        prog = ctx.program(cfg)
        if prog.errors:
            continue
        lab = _label(cfg)
        ctx.add(out, lab, J.rule_J4, ctx, prog, lab)
        ctx.add(out, lab, M.rule_C1, ctx, prog, lab, rule='J3-C1')
        ctx.add(out, lab, B.rule_B1, ctx, prog, lab, rule='J3-B1')
        ctx.add(out, lab, B.rule_B2, ctx, prog, lab, rule='J3-B2')
        ctx.add(out, lab, B.rule_B2c, ctx, prog, lab, rule='J3-B2c')
        ctx.add(out, lab, CT.rule_F1, ctx, prog, lab, rule='J3-F1')
        ctx.add(out, lab, CR.rule_A1, ctx, prog, lab, rule='J3-A1')
        ctx.add(out, lab, BM.rule_CL1, ctx, prog, lab, rule='J3-CL1')
        ctx.add(out, lab, CT.rule_F11, ctx, prog, lab, rule='J3-F11')
        if cfg['openmp']:
            from . import purity as PUR
            ctx.add(out, lab, CT.rule_F10, ctx, prog, lab, rule='J3-F10')
            ctx.add(out, lab, PUR.rule_C6e, ctx, prog, lab, rule='J3-C6e')
    return out


@prop('C14', level='other',
      explanation=('E5: must-pass-through / control-dependence obligations on the two caches, in the configurations that compile them: a cached block '
                   'that is handed out has its slot cleared on every path (no double hand-out), a slot is overwritten only when empty or after its '
                   'old block was released, every path of m4ri_mmc_free caches or releases the block, cleanup covers the same slot range and '
                   'm4ri_fini calls it, mzd_free releases data only for non-windows, an emptied header block is unlinked on both sides, is never '
                   'the static block and is released. C5: fresh matrices are zeroed after any recycling. E1 (kinds): a permutation or matrix view '
                   'is never released with the owner\'s destructor. A2i: a recycled header slot carries nothing over - every field is assigned before it is read or returned.'),
      not_decided='behaviour over histories (eviction order, free-entry search, the 64-header block boundary): value/history level; the optional hook is not needed by this technique')
def c14(ctx):
    from . import resources as R, purity as P, const_rules as CRu
    out = []
    h = frontend.host_config()
    cfgs = [dict(h, mmc=1, mzdcache=1, openmp=0), frontend.thread_safe_configs()[0], frontend.openmp_configs()[0]]
    if ctx.tier == 'thorough':
        cfgs = frontend.legal_configs()
    seen = set()
    for cfg in cfgs:
        if cfg_id(cfg) in seen:
            continue
        seen.add(cfg_id(cfg))
        prog = _prog(ctx, cfg)
        lab = _label(cfg)
        ctx.add(out, lab, R.rule_E5, ctx, prog, lab)
        ctx.add(out, lab, P.rule_C5, ctx, prog, lab)
        ctx.add(out, lab, CRu.rule_A2i, ctx, prog, lab)
        out.append((lab, R.rule_E1(ctx, prog, lab, only_funcs={'mzd_init', 'mzd_init_window', 'mzd_free', 'mzd_t_malloc', 'mzd_t_free', '_mzd_ple', '_mzd_pluq',
                                                                'mzd_ple', 'mzd_pluq', '_mzd_apply_p_right_even', 'mzp_init', 'mzp_free', 'mzp_init_window',
                                                                'mzp_free_window', 'mzp_copy', 'm4ri_mmc_malloc', 'm4ri_mmc_free', 'm4ri_mmc_cleanup'}, rule='E1-alloc')))
    return out


@prop('C16', level='other',
      explanation=('Race freedom of every OpenMP region, decided in the OpenMP configurations (which the pinned suite never compiles): H1 - in each of '
                   'the 7 `parallel for` loops everything written is private, body-local, the loop variable, or memory addressed injectively by the '
                   'loop variable (row r of M, T[z]/L[z]), using the callee write summaries; H2 - the four sections of both multi-core front ends '
                   'write pairwise disjoint quadrant windows, and each product multiplies blocks at matching positions (C_ij += A_ik * B_kj); A1 - '
                   'operands shared between sections are read-only; G3 - the block cache is only touched inside omp critical(mmc); G4 - configure '
                   'switches the header cache off with OpenMP. H3 - no private/firstprivate variable is read in an iteration before it is written '
                   'in that iteration (definite assignment), so no value travels between the iterations a thread happens to run; H4 - hand-rolled '
                   'work sharing strides by omp_get_num_threads() of the executing team; positive controls for H3/H4 on every run.'),
      not_decided='bit-equality with the sequential build follows for race-free, iteration-independent regions from determinism of each iteration, which is argued, not checked')
def c16(ctx):
    from . import intervals as IV, purity as PU
    from . import omp as H, const_rules as CR, globals_engine as G, contracts as CT
    out = []
    cfgs = frontend.openmp_configs()
    if ctx.tier == 'thorough':
        cfgs = [c for c in frontend.legal_configs() if c['openmp']]
    for cfg in cfgs:
        prog = _prog(ctx, cfg)
        lab = _label(cfg)
        ctx.add(out, lab, H.rule_H1, ctx, prog, lab)
        ctx.add(out, lab, H.rule_H3, ctx, prog, lab)
        ctx.add(out, lab, H.rule_H2, ctx, prog, lab)
        ctx.add(out, lab, H.rule_H4, ctx, prog, lab)
        ctx.add(out, lab, IV.rule_F9, ctx, prog, lab)
        ctx.add(out, lab, PU.rule_C6d, ctx, prog, lab)
        ctx.add(out, lab, PU.rule_C6e, ctx, prog, lab)
        ctx.add(out, lab, CT.rule_F10, ctx, prog, lab)
        ctx.add(out, lab, CT.rule_F6, ctx, prog, lab, only_funcs={'_mzd_mul_mp4', '_mzd_addmul_mp4', 'mzd_mul_mp', 'mzd_addmul_mp'})
        ctx.add(out, lab, CT.rule_F7, ctx, prog, lab, only_funcs={'_mzd_mul_mp4', '_mzd_addmul_mp4', 'mzd_mul_mp', 'mzd_addmul_mp'})
        if cfg['mmc']:      # without the block cache there is nothing to guard
            ctx.add(out, lab, H.rule_G3, ctx, prog, lab)
        ctx.add(out, lab, CR.rule_A1, ctx, prog, lab)
    _selftest(ctx, out, ['H3', 'H4'], cfg=frontend.openmp_configs()[0])
    ctx.add(out, 'configure.ac', G.rule_G4, ctx)
    return out


INV_FUNCS = {'mzd_inv_m4ri', 'mzd_invert_naive', 'mzd_trtri_upper', 'mzd_trtri_upper_russian', 'mzd_make_table_trtri', '_mzd_trtri_upper_submatrix'}


@prop('C05', level='other',
      explanation=('Structural clauses of the inversion routines. A1x: the input A of mzd_inv_m4ri and A, I of mzd_invert_naive have no write '
                   'effect (through casts and callees, whatever the declared qualifier). R1 - augmented-matrix recipe: A is the left block, the '
                   'identity a disjoint right block inside the augmented matrix, a *full* echelon form of the whole is computed, the result is '
                   'read from exactly the identity block, and build dominates reduce dominates extract on every path to a non-NULL return. '
                   'R2 - recursive triangular inversion: the two diagonal blocks tile the diagonal, the off-diagonal block is rows(U00) x cols(U11) '
                   'and is solved with both blocks before either is inverted in place. B8 - in the Four-Russians triangular inversion table j is '
                   'built from the diagonal block at r + j*k into U[j]/T[j] (affine periodic call groups). B1/B2 - the Duff device of the table '
                   'builder. F6/F7 - dimension and position typing of the calls in mzd_trtri_upper. E1 - every temporary is released once on all paths. '
                   'C1 on the data movers the recipe is built from (concat, submatrix, copy, set_ui). R1 also bounds the table parameter handed to the '
                   'elimination (0 or 1..10) by interval analysis. W2k (kk and k agree) and S1 (row pointers step by the rowstride).'),
      not_decided='A*B = B*A = I, equality of the naive and the Four-Russians result, that the triangular inverse is the inverse (value level)')
def c05(ctx):
    from . import masks as M, coords as COk
    from . import inverse as RI, const_rules as CR, families as B, contracts as CT, resources as R
    out = []
    for cfg in _configs(ctx):
        prog = _prog(ctx, cfg)
        lab = _label(cfg)
        ctx.add(out, lab, CR.rule_A1x, ctx, prog, lab, [('mzd_inv_m4ri', 1), ('mzd_invert_naive', 1), ('mzd_invert_naive', 2)])
        ctx.add(out, lab, RI.rule_R1, ctx, prog, lab)
        ctx.add(out, lab, RI.rule_R2, ctx, prog, lab)
        ctx.add(out, lab, COk.rule_W2k, ctx, prog, lab)
        ctx.add(out, lab, M.rule_S1, ctx, prog, lab)
        ctx.add(out, lab, B.rule_B8, ctx, prog, lab)
        ctx.add(out, lab, B.rule_B1, ctx, prog, lab, only_funcs=INV_FUNCS)
        ctx.add(out, lab, B.rule_B2, ctx, prog, lab, only_funcs=INV_FUNCS, rule='B2-inv')
        ctx.add(out, lab, CT.rule_F6, ctx, prog, lab, only_funcs=INV_FUNCS)
        ctx.add(out, lab, CT.rule_F7, ctx, prog, lab, only_funcs=INV_FUNCS)
        ctx.add(out, lab, R.rule_E1, ctx, prog, lab, only_funcs=INV_FUNCS, rule='E1-inv')
        ctx.add(out, lab, M.rule_C1, ctx, prog, lab, only={'mzd_concat', 'mzd_submatrix', 'mzd_copy', 'mzd_set_ui'} | INV_FUNCS, rule='C1-inv')
    return out


SOLVE_FUNCS = {'mzd_solve_left', '_mzd_solve_left', 'mzd_pluq_solve_left', '_mzd_pluq_solve_left', 'mzd_kernel_left_pluq'}


@prop('C06', level='other',
      explanation=('Structural clauses of solving: F1 (argument checks of both wrappers before work); F3a (window bounds are cut at dimensions / '
                   'split points, no off-by-one cuts - all windows of the library); F3c (both constructions of the padding rows of B use '
                   '[A.nrows, B.nrows) x [0, B.ncols)); F6/F7 (symbolic dimension and block-position typing of the forward solve, the '
                   'consistency update Y2 += H*Y1, the back solve and the permutation applications); E1 on the solve functions. F3c: both variants test the padding rows before clearing them. C3 on the zero test. C6f: addmul never overwrites.'),
      not_decided='that the verdict equals the rank test and that A*X = B (value level)')
def c06(ctx):
    from . import blockmove as BM, pivot as PV, masks as Mk6, purity as Pu6
    from . import contracts as CT, resources as R
    out = []
    for cfg in _configs(ctx):
        prog = _prog(ctx, cfg)
        lab = _label(cfg)
        ctx.add(out, lab, CT.rule_F1, ctx, prog, lab)
        ctx.add(out, lab, CT.rule_F3a, ctx, prog, lab)
        ctx.add(out, lab, CT.rule_F3c, ctx, prog, lab)
        ctx.add(out, lab, CT.rule_F6, ctx, prog, lab, only_funcs=SOLVE_FUNCS)
        ctx.add(out, lab, CT.rule_F7, ctx, prog, lab, only_funcs=SOLVE_FUNCS)
        ctx.add(out, lab, R.rule_E1, ctx, prog, lab, only_funcs=SOLVE_FUNCS, rule='E1-solve')
        ctx.add(out, lab, CT.rule_F4, ctx, prog, lab)
        ctx.add(out, lab, BM.rule_CL1, ctx, prog, lab)
        ctx.add(out, lab, CT.rule_F11, ctx, prog, lab)
        ctx.add(out, lab, Mk6.rule_C3, ctx, prog, lab)
        ctx.add(out, lab, Pu6.rule_C6f, ctx, prog, lab)
        ctx.add(out, lab, PV.rule_FP1, ctx, prog, lab)
    return out


@prop('C07', level='other',
      explanation=('Structural clauses of the kernel routine: F5 (the only NULL return is guarded by rank == ncols with the rank taken from mzd_pluq; '
                   'the basis is created as ncols x (ncols - rank); the identity block is written at (rank + i, i) over all its columns); F6/F7 '
                   '(the TRSM on the kernel block and the permutation application are dimension- and position-consistent); E1 (six handles released '
                   'on both exits). F5 is decided on the CFG (the rank == ncols branch is the only way round the creation of the result), so '
                   'goto-cleanup and early-return layouts are equivalent. W2/W2b on the factorisation the routine relies on.'),
      not_decided='A*K = 0, independence of the columns, rank correctness (value level)')
def c07(ctx):
    from . import coords as CO, pivot as PV, blockmove as BM
    from . import contracts as CT, resources as R
    out = []
    for cfg in _configs(ctx):
        prog = _prog(ctx, cfg)
        lab = _label(cfg)
        ctx.add(out, lab, CT.rule_F5, ctx, prog, lab)
        ctx.add(out, lab, CT.rule_F6, ctx, prog, lab, only_funcs={'mzd_kernel_left_pluq'})
        ctx.add(out, lab, CT.rule_F7, ctx, prog, lab, only_funcs={'mzd_kernel_left_pluq'})
        ctx.add(out, lab, R.rule_E1, ctx, prog, lab, only_funcs={'mzd_kernel_left_pluq'}, rule='E1-kernel')
        ctx.add(out, lab, CT.rule_F4, ctx, prog, lab)
        ctx.add(out, lab, PV.rule_FP1, ctx, prog, lab)
        ctx.add(out, lab, BM.rule_CL1, ctx, prog, lab)
        ctx.add(out, lab, CT.rule_F11, ctx, prog, lab)
        ctx.add(out, lab, CO.rule_W2, ctx, prog, lab)
        ctx.add(out, lab, CO.rule_W2b, ctx, prog, lab)
    return out
