"""Property -> rule sets.  Each entry: (meta, rules_for(ctx) -> [(cfg_label, RuleResult)])."""
from . import frontend
from .frontend import cfg_id

PROPS = {}


def prop(pid, **meta):
    def deco(fn):
        PROPS[pid] = (meta, fn)
        return fn
    return deco


def _label(cfg):
    return cfg_id(cfg)


# ------------------------------------------------------------------ C15
@prop('C15', level='other',
      explanation=('Sufficient condition for race freedom in the thread-safe configuration (MMC=0, MZD_CACHE=0, '
                   'OpenMP=0, SSE2 in {0,1}): G1 enumerates every static-storage object of the library (file-scope and '
                   'function-local static) from the type-checked AST, and proves with the interprocedural write-effect '
                   'analysis that none is written or aliased outside functions reachable solely from the load-time '
                   'constructor/destructor; the census is cross-checked against llvm-nm on the compiled objects. G2: no '
                   'call to an MT-Unsafe libc interface. G4: configure.ac really switches both caches off under '
                   '--enable-thread-safe.'),
      not_decided='equality of each thread\'s results with a sequential run follows from absence of shared mutable state; it is argued, not separately checked')
def c15(ctx):
    from . import globals_engine as G
    out = []
    cfgs = frontend.thread_safe_configs()
    if ctx.tier == 'thorough':
        cfgs = cfgs + [frontend.with_caches(c, frontend.SMALL) for c in cfgs]
    for cfg in cfgs:
        prog = ctx.program(cfg)
        if prog.errors:
            raise frontend.AnalysisBroken('configuration %s does not type-check: %s' % (cfg_id(cfg), list(prog.errors.items())[0]))
        lab = _label(cfg)
        out.append((lab, G.rule_G1(ctx, prog, lab)))
        out.append((lab, G.rule_G2(ctx, prog, lab)))
        out.append((lab, G.rule_G1nm(ctx, prog, lab)))
    out.append(('configure.ac', G.rule_G4(ctx)))
    return out
