"""Property -> rule sets.  Each entry: (meta, rules_for(ctx) -> [(cfg_label, RuleResult)])."""
from . import frontend
from .frontend import cfg_id

PROPS = {}


def prop(pid, **meta):
    def deco(fn):
        PROPS[pid] = (meta, fn)
        return fn
    return deco


def _label(cfg):
    return cfg_id(cfg)


# ------------------------------------------------------------------ C15
@prop('C15', level='other',
      explanation=('Sufficient condition for race freedom in the thread-safe configuration (MMC=0, MZD_CACHE=0, '
                   'OpenMP=0, SSE2 in {0,1}): G1 enumerates every static-storage object of the library (file-scope and '
                   'function-local static) from the type-checked AST, and proves with the interprocedural write-effect '
                   'analysis that none is written or aliased outside functions reachable solely from the load-time '
                   'constructor/destructor; the census is cross-checked against llvm-nm on the compiled objects. G2: no '
                   'call to an MT-Unsafe libc interface. G4: configure.ac really switches both caches off under '
                   '--enable-thread-safe.'),
      not_decided='equality of each thread\'s results with a sequential run follows from absence of shared mutable state; it is argued, not separately checked')
def c15(ctx):
    from . import globals_engine as G
    out = []
    cfgs = frontend.thread_safe_configs()
    if ctx.tier == 'thorough':
        cfgs = cfgs + [frontend.with_caches(c, frontend.SMALL) for c in cfgs]
    for cfg in cfgs:
        prog = ctx.program(cfg)
        if prog.errors:
            raise frontend.AnalysisBroken('configuration %s does not type-check: %s' % (cfg_id(cfg), list(prog.errors.items())[0]))
        lab = _label(cfg)
        out.append((lab, G.rule_G1(ctx, prog, lab)))
        out.append((lab, G.rule_G2(ctx, prog, lab)))
        out.append((lab, G.rule_G1nm(ctx, prog, lab)))
    out.append(('configure.ac', G.rule_G4(ctx)))
    return out


# ------------------------------------------------------------------ C20
@prop('C20', level='proof',
      explanation=('E3: forward must-be-tested dataflow on the CFG of every function that calls a raw libc allocator '
                   '(malloc/calloc/realloc/posix_memalign/_mm_malloc/...): on every path from the call, the first use of the '
                   'result other than a comparison or free is dominated by a NULL test whose failing edge ends in m4ri_die. '
                   'E3-census: every other allocation request in the library goes through a wrapper for which E3 holds on all '
                   'return paths. E3-3p: results of fopen/png_create_* are tested before use. E4: m4ri_die itself cannot return.'),
      not_decided='zero-size requests (wrappers may return NULL for size 0: stated assumption); failures inside libpng/libc themselves')
def c20(ctx):
    from . import nullcheck as NC
    out = []
    cfgs = [frontend.host_config()]
    if ctx.tier == 'thorough':
        cfgs = frontend.legal_configs()
    else:
        h = frontend.host_config()
        alt = dict(h)
        alt['sse2'] = 0   # selects the plain malloc/calloc branch of the wrappers
        cfgs.append(alt)
    for cfg in cfgs:
        prog = ctx.program(cfg)
        if prog.errors:
            raise frontend.AnalysisBroken('configuration %s does not type-check: %s' % (cfg_id(cfg), list(prog.errors.items())[0]))
        lab = _label(cfg)
        out.append((lab, NC.rule_E3(ctx, prog, lab)))
        out.append((lab, NC.rule_E3_census(ctx, prog, lab)))
        out.append((lab, NC.rule_E3_third_party(ctx, prog, lab)))
        out.append((lab, NC.rule_E4(ctx, prog, lab)))
    return out


def _configs(ctx, extra=()):
    """quick: the host configuration (+ property-specific extras); thorough: all legal configurations."""
    if ctx.tier == 'thorough':
        return frontend.legal_configs()
    out = [frontend.host_config()]
    for e in extra:
        if frontend.cfg_id(e) not in [frontend.cfg_id(c) for c in out]:
            out.append(e)
    return out


def _prog(ctx, cfg):
    prog = ctx.program(cfg)
    if prog.errors:
        raise frontend.AnalysisBroken('configuration %s does not type-check: %s' % (cfg_id(cfg), list(prog.errors.items())[0]))
    return prog


# ------------------------------------------------------------------ C11
@prop('C11', level='other',
      explanation=('Decided clauses of memory safety: E1 path-sensitive typestate over the CFG of every function that acquires or '
                   'releases a resource (owners, windows, permutations and their windows, wrapper and libc blocks, tables, heaps, '
                   'FILE/png handles): released/returned/stored on every path, no double release, no use after release, destructor '
                   'kind matches (a view never frees its parent).'),
      not_decided='absence of out-of-bounds word accesses in general, signed overflow')
def c11(ctx):
    from . import resources as R
    out = []
    for cfg in _configs(ctx):
        prog = _prog(ctx, cfg)
        lab = _label(cfg)
        out.append((lab, R.rule_E1(ctx, prog, lab)))
    return out
