"""Property -> rule sets.  Each entry: (meta, rules_for(ctx) -> [(cfg_label, RuleResult)])."""
from . import frontend
from .frontend import cfg_id

PROPS = {}


def prop(pid, **meta):
    def deco(fn):
        PROPS[pid] = (meta, fn)
        return fn
    return deco


def _label(cfg):
    return cfg_id(cfg)


# ------------------------------------------------------------------ C15
@prop('C15', level='other',
      explanation=('Sufficient condition for race freedom in the thread-safe configuration (MMC=0, MZD_CACHE=0, '
                   'OpenMP=0, SSE2 in {0,1}): G1 enumerates every static-storage object of the library (file-scope and '
                   'function-local static) from the type-checked AST, and proves with the interprocedural write-effect '
                   'analysis that none is written or aliased outside functions reachable solely from the load-time '
                   'constructor/destructor; the census is cross-checked against llvm-nm on the compiled objects. G2: no '
                   'call to an MT-Unsafe libc interface. G4: configure.ac really switches both caches off under '
                   '--enable-thread-safe.'),
      not_decided='equality of each thread\'s results with a sequential run follows from absence of shared mutable state; it is argued, not separately checked')
def c15(ctx):
    from . import globals_engine as G
    out = []
    cfgs = frontend.thread_safe_configs()
    if ctx.tier == 'thorough':
        cfgs = cfgs + [frontend.with_caches(c, frontend.SMALL) for c in cfgs]
    for cfg in cfgs:
        prog = ctx.program(cfg)
        if prog.errors:
            raise frontend.AnalysisBroken('configuration %s does not type-check: %s' % (cfg_id(cfg), list(prog.errors.items())[0]))
        lab = _label(cfg)
        out.append((lab, G.rule_G1(ctx, prog, lab)))
        out.append((lab, G.rule_G2(ctx, prog, lab)))
        out.append((lab, G.rule_G1nm(ctx, prog, lab)))
    out.append(('configure.ac', G.rule_G4(ctx)))
    return out


# ------------------------------------------------------------------ C20
@prop('C20', level='proof',
      explanation=('E3: forward must-be-tested dataflow on the CFG of every function that calls a raw libc allocator '
                   '(malloc/calloc/realloc/posix_memalign/_mm_malloc/...): on every path from the call, the first use of the '
                   'result other than a comparison or free is dominated by a NULL test whose failing edge ends in m4ri_die. '
                   'E3-census: every other allocation request in the library goes through a wrapper for which E3 holds on all '
                   'return paths. E3-3p: results of fopen/png_create_* are tested before use. E4: m4ri_die itself cannot return.'),
      not_decided='zero-size requests (wrappers may return NULL for size 0: stated assumption); failures inside libpng/libc themselves')
def c20(ctx):
    from . import nullcheck as NC
    out = []
    cfgs = [frontend.host_config()]
    if ctx.tier == 'thorough':
        cfgs = frontend.legal_configs()
    else:
        h = frontend.host_config()
        alt = dict(h)
        alt['sse2'] = 0   # selects the plain malloc/calloc branch of the wrappers
        cfgs.append(alt)
    for cfg in cfgs:
        prog = ctx.program(cfg)
        if prog.errors:
            raise frontend.AnalysisBroken('configuration %s does not type-check: %s' % (cfg_id(cfg), list(prog.errors.items())[0]))
        lab = _label(cfg)
        out.append((lab, NC.rule_E3(ctx, prog, lab)))
        out.append((lab, NC.rule_E3_census(ctx, prog, lab)))
        out.append((lab, NC.rule_E3_third_party(ctx, prog, lab)))
        out.append((lab, NC.rule_E4(ctx, prog, lab)))
    return out


def _configs(ctx, extra=()):
    """quick: the host configuration (+ property-specific extras); thorough: all legal configurations."""
    if ctx.tier == 'thorough':
        return frontend.legal_configs()
    out = [frontend.host_config()]
    for e in extra:
        if frontend.cfg_id(e) not in [frontend.cfg_id(c) for c in out]:
            out.append(e)
    return out


def _prog(ctx, cfg):
    prog = ctx.program(cfg)
    if prog.errors:
        raise frontend.AnalysisBroken('configuration %s does not type-check: %s' % (cfg_id(cfg), list(prog.errors.items())[0]))
    return prog


# ------------------------------------------------------------------ C11
@prop('C11', level='other',
      explanation=('Decided clauses of memory safety: E1 path-sensitive typestate over the CFG of every function that acquires or '
                   'releases a resource (owners, windows, permutations and their windows, wrapper and libc blocks, tables, heaps, '
                   'FILE/png handles): released/returned/stored on every path, no double release, no use after release, destructor '
                   'kind matches (a view never frees its parent).'),
      not_decided='absence of out-of-bounds word accesses in general, signed overflow')
def c11(ctx):
    from . import resources as R, align as AL, contracts as CT
    out = []
    for cfg in _configs(ctx):
        prog = _prog(ctx, cfg)
        lab = _label(cfg)
        out.append((lab, R.rule_E1(ctx, prog, lab)))
        out.append((lab, CT.rule_F1(ctx, prog, lab)))
        out.append((lab, AL.rule_D0(ctx, prog, lab)))
        out.append((lab, AL.rule_D1(ctx, prog, lab)))
        out.append((lab, AL.rule_D2(ctx, prog, lab)))
    return out


# ------------------------------------------------------------------ engine C/A based properties
ROWOPS = {'_mzd_row_swap', 'mzd_row_add_offset', 'mzd_row_clear_offset', 'mzd_combine_even_in_place', 'mzd_combine_even',
          '_mzd_apply_p_right_even', 'mzd_write_col_to_rows_blockd', 'mzd_xor_bits', 'mzd_clear_bits', 'mzd_and_bits',
          'mzd_write_bit', 'mzd_col_swap_in_rows', 'mzd_col_swap'}
MOVERS = {'mzd_copy', 'mzd_copy_row', 'mzd_set_ui', 'mzd_submatrix', 'mzd_concat', 'mzd_stack', 'mzd_extract_u',
          'mzd_extract_l', '_mzd_add', 'mzd_combine_even', 'mzd_combine_even_in_place', 'mzd_randomize',
          'mzd_randomize_custom'}


@prop('C09', level='other',
      explanation=('C1: every store into the data words of a caller-visible matrix (every function, every configuration) is '
                   'classified by form (how the changed bits are confined) and position (symbolic, relative to the destination width) '
                   'and must be discharged by a mask that is the destination\'s valid-bit mask, by being provably interior, by a '
                   'well-formed unrolled tail family whose last member is masked, by a frozen kernel contract (counter and final masked '
                   'store re-checked structurally), by whole-word XOR from lookup tables that are only ever written by table builders '
                   '(C2 at every call site), or by a reasoned exception. C3/C3b: observers mask the last word. A1: no write effect on '
                   'const operands through casts and callees. A2: header fields written only by the two constructors. D0/D1/D2: '
                   'every function dereferencing __m128i* is a known phase-assuming kernel or tests operand phases itself; along every '
                   'call chain into such a kernel the tables are windows of local owners whose column offset, folded under both '
                   'hypotheses for the destination\'s 16-byte phase, matches it; every window starts on a word boundary.'),
      not_decided='that results equal those on standalone copies (value level); index arithmetic inside bit-range primitives')
def c09(ctx):
    from . import masks as M, const_rules as CR, align as AL
    out = []
    for cfg in _configs(ctx, extra=[dict(frontend.host_config(), sse2=0)]):
        prog = _prog(ctx, cfg)
        lab = _label(cfg)
        out.append((lab, M.rule_C1(ctx, prog, lab)))
        out.append((lab, M.rule_C2_callers(ctx, prog, lab)))
        out.append((lab, M.rule_C3(ctx, prog, lab)))
        out.append((lab, M.rule_C4(ctx, prog, lab)))
        out.append((lab, CR.rule_A1(ctx, prog, lab)))
        out.append((lab, CR.rule_A2(ctx, prog, lab)))
        out.append((lab, AL.rule_D0(ctx, prog, lab)))
        out.append((lab, AL.rule_D1(ctx, prog, lab)))
        out.append((lab, AL.rule_D2(ctx, prog, lab)))
    return out


@prop('C17', level='other',
      explanation=('C3: in mzd_equal, mzd_cmp, mzd_is_zero, mzd_first_zero_row and mzd_find_pivot every loaded word whose position is not '
                   'provably interior is &-ed with the operand\'s valid-bit mask before it reaches the verdict (one-word rows included). '
                   'C3b: mzd_cmp is two-sided on each compared quantity; dimensions are compared before any word is read.'),
      not_decided='LSB-first ordering inside a word, transitivity, pivot choice (value level)')
def c17(ctx):
    from . import masks as M
    out = []
    for cfg in _configs(ctx):
        prog = _prog(ctx, cfg)
        lab = _label(cfg)
        out.append((lab, M.rule_C3(ctx, prog, lab)))
        out.append((lab, M.rule_C3b(ctx, prog, lab)))
    return out


@prop('C13', level='other',
      explanation=('C1 restricted to the row/column primitives and the column-permutation kernel: row swap, row add from offset, row clear '
                   'from offset, combine kernels, bit-range primitives, apply_p_right strips - no store can touch bits past the last column '
                   '(kernel contracts re-check the counter initialisation and the final masked/revert store).'),
      not_decided='the swap arithmetic itself and the permutation order (F4/B1 rules are added separately)')
def c13(ctx):
    from . import masks as M
    out = []
    for cfg in _configs(ctx, extra=[dict(frontend.host_config(), sse2=0)]):
        prog = _prog(ctx, cfg)
        lab = _label(cfg)
        out.append((lab, M.rule_C1(ctx, prog, lab, only=ROWOPS, rule='C1-rowops')))
    return out


@prop('C08', level='other',
      explanation=('C1 restricted to the data movers (copy, copy_row, set_ui, submatrix both paths, concat, stack, extract_u/l, the nine '
                   'routes of _mzd_add, combine_even): every store is masked or interior for its destination. A1: sources unchanged.'),
      not_decided='that any transpose kernel transposes; bit positions in general (value level)')
def c08(ctx):
    from . import masks as M, const_rules as CR, contracts as CT
    out = []
    for cfg in _configs(ctx, extra=[dict(frontend.host_config(), sse2=0)]):
        prog = _prog(ctx, cfg)
        lab = _label(cfg)
        out.append((lab, M.rule_C1(ctx, prog, lab, only=MOVERS, rule='C1-movers')))
        out.append((lab, M.rule_C4(ctx, prog, lab)))
        out.append((lab, CT.rule_F2(ctx, prog, lab)))
        out.append((lab, CR.rule_A1(ctx, prog, lab)))
    return out


@prop('C10', level='other',
      explanation=('C5: mzd_init takes its words only from m4ri_mmc_calloc, whose zeroing memset post-dominates the (possibly recycled) '
                   'allocation with the same length, m4ri_mmc_malloc has no other caller, m4ri_mm_calloc zeroes in the non-calloc variants: '
                   'a fresh matrix is zero whatever the heap or the block cache hands back. C6/C6b: product kernels are called with clear=TRUE '
                   'on caller-visible destinations in overwriting entry points, clear=FALSE only in the documented accumulate variants or into a '
                   'matrix created by mzd_init immediately before. C1 over all writers and A2: no store can set a bit past the last column of an '
                   'owned matrix. C4: raw kernels never see a source or destination with foreign excess bits.'),
      not_decided='independence from uninitialised ple_table_t scratch arrays and from call history in general (value level)')
def c10(ctx):
    from . import masks as M, const_rules as CR, purity as P
    out = []
    cfgs = _configs(ctx, extra=[dict(frontend.host_config(), sse2=0), frontend.thread_safe_configs()[0]])
    for cfg in cfgs:
        prog = _prog(ctx, cfg)
        lab = _label(cfg)
        out.append((lab, P.rule_C5(ctx, prog, lab)))
        out.append((lab, P.rule_C6(ctx, prog, lab)))
        out.append((lab, M.rule_C1(ctx, prog, lab)))
        out.append((lab, M.rule_C4(ctx, prog, lab)))
        out.append((lab, CR.rule_A2(ctx, prog, lab)))
    return out
