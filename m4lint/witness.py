"""Rule C8: compile-fail witnesses for the three bit-mask macros (C++17 static_assert over every length/offset,
the macro text being expanded from the repository's own misc.h at compile time), plus a liveness control."""
import os
import subprocess

from .ast import REPO
from .driver import RuleResult, Finding
from .frontend import AnalysisBroken, CACHE, cfg_id, write_cfg_header


def _ref_left(n):   # n leftmost (= lowest) bits set, n in 0..64; n == 0 means all 64 (documented)
    return (1 << 64) - 1 if n == 0 or n == 64 else (1 << n) - 1


def rule_C8(ctx, prog, label, rule='C8'):
    rr = RuleResult(rule, 'compile-time witnesses: LEFT/RIGHT/MIDDLE bit-mask macros select exactly the stated bits for every length and offset')
    os.makedirs(CACHE, exist_ok=True)
    hdr = os.path.join(CACHE, 'cfg_%s.h' % cfg_id(prog.cfg))
    write_cfg_header(prog.cfg, hdr)
    lines = ['#include <m4ri/misc.h>', 'typedef unsigned long long u64;']
    n_assert = 0
    for n in range(0, 65):
        want = _ref_left(n % 64 if n != 64 else 64) if n else _ref_left(0)
        # documented: __M4RI_LEFT_BITMASK(n) has the n lowest bits set for 1 <= n <= 64; for n == 0 all bits
        lines.append('static_assert((u64)(__M4RI_LEFT_BITMASK(%d)) == 0x%xULL, "LEFT_BITMASK(%d)");' % (n, want, n))
        n_assert += 1
    for n in range(1, 65):
        want = (((1 << 64) - 1) << (64 - n)) & ((1 << 64) - 1)
        lines.append('static_assert((u64)(__M4RI_RIGHT_BITMASK(%d)) == 0x%xULL, "RIGHT_BITMASK(%d)");' % (n, want, n))
        n_assert += 1
    for n in range(1, 65):
        for o in range(0, 65 - n):
            want = (_ref_left(n) << o) & ((1 << 64) - 1)
            lines.append('static_assert((u64)(__M4RI_MIDDLE_BITMASK(%d, %d)) == 0x%xULL, "MIDDLE_BITMASK(%d,%d)");' % (n, o, want, n, o))
            n_assert += 1
    src = os.path.join(CACHE, 'witness_masks_%s_%d.cc' % (cfg_id(prog.cfg), os.getpid()))
    open(src, 'w').write('\n'.join(lines) + '\n')
    cmd = ['clang++-14' if _have('clang++-14') else 'clang++', '-std=c++17', '-fsyntax-only', '-ferror-limit=0', '-Wno-everything',
           '-DHAVE_CONFIG_H', '-I' + REPO, '-I' + REPO + '/m4ri', '-include', hdr, src]
    if prog.cfg['sse2']:
        cmd.insert(3, '-msse2')
    p = subprocess.run(cmd, stdout=subprocess.PIPE, stderr=subprocess.PIPE)
    err = p.stderr.decode(errors='replace')
    failed = []
    other = []
    for l in err.splitlines():
        if 'static_assert failed' in l or 'static assertion failed' in l:
            failed.append(l.split('"')[1] if '"' in l else l)
        elif ' error: ' in l:
            other.append(l)
    if other and not failed:
        raise AnalysisBroken('C8: witness unit does not compile: %s' % other[0][:300])
    rr.instances = n_assert
    rr.obligations = n_assert
    rr.discharged = n_assert - len(failed)
    rr.samples.append(dict(witness='static_assert((u64)(__M4RI_MIDDLE_BITMASK(5, 7)) == 0xf80ULL)', assertions=n_assert))
    if failed:
        rr.findings.append(Finding(rule, '%s|%s' % (rule, failed[0].split('(')[0]), 'm4ri/misc.h', failed[0].split('(')[0],
                                   '%d bit-mask witness(es) fail to compile, first: %s' % (len(failed), failed[0]), dict(failed=failed[:20]), label))
    # liveness control: a deliberately false assertion must be rejected
    src2 = os.path.join(CACHE, 'witness_control_%d.cc' % os.getpid())
    open(src2, 'w').write('#include <m4ri/misc.h>\nstatic_assert((unsigned long long)(__M4RI_LEFT_BITMASK(3)) == 0x6ULL, "control");\n')
    cmd2 = cmd[:-1] + [src2]
    p2 = subprocess.run(cmd2, stdout=subprocess.PIPE, stderr=subprocess.PIPE)
    rr.instances += 1
    rr.ob(p2.returncode != 0 and 'control' in p2.stderr.decode(errors='replace'), dict(control='false assertion rejected by the compiler'),
          Finding(rule, '%s|control' % rule, 'm4ri/misc.h', '-', 'witness mechanism is dead: a false static_assert compiled', {}, label))
    for f_ in (src, src2):
        try:
            os.remove(f_)
        except OSError:
            pass
    if p2.returncode == 0:
        raise AnalysisBroken('C8: control witness compiled; the mechanism proves nothing')
    return rr


def _have(x):
    from shutil import which
    return which(x) is not None
