"""Rules for C10: C5 zero-on-creation chain, C6 accumulate-into-fresh-zero, C6b clear-flag roles."""
from .ast import strip, callee_name, pp, int_value, is_null
from .cfg import cfg_of
from .symbolic import FuncSym
from .driver import RuleResult, Finding
from .frontend import AnalysisBroken
from .contracts import table

CLEAR_PARAM = {'_mzd_mul_m4rm': 4, '_mzd_mul_naive': 3, '_mzd_mul_va': 3}


def _node_of(g, ast_node):
    for cn in g.nodes:
        if cn.ast is not None and any(x is ast_node for x in cn.ast.walk()):
            return cn
    return None


def _memset_zero_after(f, alloc_call, size_expr_text=None):
    """(ok, why): in f, a memset(p, 0, n) on the variable bound to alloc_call post-dominates the allocation."""
    g = cfg_of(f)
    fs = FuncSym(f)
    an = _node_of(g, alloc_call)
    if an is None:
        return False, 'allocation not in CFG'
    # variable bound
    var = None
    p = fs.parent.get(alloc_call.uid)
    while p is not None and p.kind in ('ImplicitCastExpr', 'CStyleCastExpr', 'ParenExpr'):
        p = fs.parent.get(p.uid)
    if p is not None and p.kind == 'VarDecl':
        var = p.name
    elif p is not None and p.kind == 'BinaryOperator' and p.op == '=':
        var = pp(strip(p.kids[0]))
    if var is None:
        return False, 'allocation result not bound to a variable'
    pdom = g.postdominators(exit_only=True)
    for cn in g.nodes:
        if cn.ast is None:
            continue
        for c in cn.ast.find('CallExpr'):
            if callee_name(c) != 'memset':
                continue
            a0 = strip(c.kids[1], casts=True)
            # through a local alias  char *b = (char *)newthing;
            name = pp(a0)
            if a0.kind == 'DeclRefExpr':
                d = fs.single_def(a0.refid)
                if d is not None:
                    name2 = pp(strip(d, casts=True))
                    if name2 == var:
                        name = var
            if name != var or int_value(c.kids[2]) != 0:
                continue
            if cn.id in pdom.get(an.id, ()):
                return True, 'memset(%s, 0, %s) post-dominates the allocation' % (var, pp(c.kids[3]))
    return False, 'no zeroing memset post-dominates the allocation of `%s`' % var


def rule_C5(ctx, prog, label, rule='C5'):
    rr = RuleResult(rule, 'every fresh matrix is zeroed whatever the allocator hands back: calloc chain with post-dominating memset')
    # (1) every assignment of an mzd_t data pointer takes it from m4ri_mmc_calloc (owners), from the parent's data
    #     (windows) or is NULL - wherever the constructor code lives
    f = prog.func('mzd_init')
    srcs = []
    for g_ in prog.all_funcs():
        for n in g_.body.walk():
            if n.kind == 'BinaryOperator' and n.op == '=':
                l = strip(n.kids[0], casts=True)
                if l.kind == 'MemberExpr' and l.name == 'data' and 'mzd_t' in ((l.kids[0].type or '') + (l.kids[0].dtype or '')) and 'cache' not in (l.kids[0].type or ''):
                    r = strip(n.kids[1], casts=True)
                    if r.kind == 'BinaryOperator' and r.op == '+' and '->data' in pp(r):
                        continue     # window: parent's data + offset
                    srcs.append((n, r))
    rr.instances += 1
    ok = bool(srcs) and all((r.kind == 'CallExpr' and callee_name(r) == 'm4ri_mmc_calloc') or is_null(r) for _n, r in srcs) and \
        any(r.kind == 'CallExpr' for _n, r in srcs)
    rr.ob(ok, dict(function='mzd_init', data_sources=[pp(r)[:50] for _n, r in srcs]),
          Finding(rule, '%s|mzd_init|source' % rule, f.loc, 'mzd_init', 'mzd_init takes its data words from something other than m4ri_mmc_calloc: %s' % [pp(r)[:40] for _n, r in srcs], {}, label))
    # (2) m4ri_mmc_calloc zeroes what m4ri_mmc_malloc returns
    f = prog.func('m4ri_mmc_calloc')
    calls = [c for c in f.body.find('CallExpr') if callee_name(c) == 'm4ri_mmc_malloc']
    rr.instances += 1
    if not calls:
        rr.ob(False, None, Finding(rule, '%s|m4ri_mmc_calloc|alloc' % rule, f.loc, f.name, 'm4ri_mmc_calloc no longer allocates through m4ri_mmc_malloc', {}, label))
    else:
        ok, why = _memset_zero_after(f, calls[0])
        # size agreement
        if ok:
            fs = FuncSym(f)
            ms = [c for c in f.body.find('CallExpr') if callee_name(c) == 'memset'][0]
            if fs.sym(ms.kids[3]) != fs.sym(calls[0].kids[1]):
                ok, why = False, 'memset length `%s` differs from the allocated size `%s`' % (pp(ms.kids[3]), pp(calls[0].kids[1]))
        rr.ob(ok, dict(function=f.name, verdict=why), Finding(rule, '%s|m4ri_mmc_calloc|memset' % rule, f.loc, f.name, 'recycled blocks are not zeroed: ' + why, {}, label))
    # (3) who calls m4ri_mmc_malloc
    callers = sorted(set(g.name for g in prog.all_funcs() for c in g.body.find('CallExpr') if callee_name(c) == 'm4ri_mmc_malloc'))
    rr.instances += 1
    rr.ob(callers == ['m4ri_mmc_calloc'], dict(callers_of_m4ri_mmc_malloc=callers),
          Finding(rule, '%s|m4ri_mmc_malloc|callers|%s' % (rule, ','.join(callers)), prog.func('m4ri_mmc_malloc').loc, 'm4ri_mmc_malloc',
                  'm4ri_mmc_malloc (uninitialised, possibly recycled memory) is called directly by %s' % [c for c in callers if c != 'm4ri_mmc_calloc'], {}, label))
    # (4) m4ri_mm_calloc
    f = prog.func('m4ri_mm_calloc')
    RAW = ('_mm_malloc', 'posix_memalign', 'malloc', 'calloc')

    def _allocates(name, depth=0):
        g_ = prog.funcs.get(name)
        if g_ is None or g_.body is None or depth > 4 or name == f.name:
            return False
        return any(callee_name(c) in RAW or _allocates(callee_name(c), depth + 1) for c in g_.body.find('CallExpr'))
    # a repo wrapper that allocates counts as an allocator returning unzeroed memory
    raw = [c for c in f.body.find('CallExpr') if callee_name(c) in RAW or _allocates(callee_name(c))]
    rr.instances += 1
    if not raw:
        raise AnalysisBroken('C5: no raw allocation in m4ri_mm_calloc')
    if all(callee_name(c) == 'calloc' for c in raw):
        rr.ob(True, dict(function=f.name, verdict='libc calloc'))
    else:
        c0 = [c for c in raw if callee_name(c) != 'calloc'][0]
        if callee_name(c0) == 'posix_memalign':
            g = cfg_of(f)
            ms = [c for c in f.body.find('CallExpr') if callee_name(c) == 'memset' and int_value(c.kids[2]) == 0]
            ok = bool(ms)
            why = 'memset present' if ok else 'no memset'
        else:
            ok, why = _memset_zero_after(f, c0)
        rr.ob(ok, dict(function=f.name, allocator=callee_name(c0), verdict=why),
              Finding(rule, '%s|m4ri_mm_calloc|memset' % rule, f.loc, f.name, 'm4ri_mm_calloc returns memory from %s() without zeroing it: %s' % (callee_name(c0), why), {}, label))
    return rr


def rule_C6(ctx, prog, label, rule='C6'):
    """clear-flag discipline of the product kernels (C6: clear == 0 only into a fresh zero matrix; C6b: roles)."""
    rr = RuleResult(rule, 'product kernels overwrite (clear=TRUE) caller-visible destinations in overwriting entry points, accumulate only where documented or into a fresh zero matrix')
    roles = table()['clear_roles']
    for f in sorted(prog.all_funcs(), key=lambda f: (f.file, f.line)):
        fs = None
        for c in f.body.find('CallExpr'):
            cn = callee_name(c)
            if cn not in CLEAR_PARAM:
                continue
            if fs is None:
                fs = FuncSym(f)
            rr.instances += 1
            flag = int_value(c.kids[1 + CLEAR_PARAM[cn]])
            dst = strip(c.kids[1], casts=True)
            fresh = False
            if dst.kind == 'DeclRefExpr' and dst.refkind == 'VarDecl':
                defs = fs.defs.get(dst.refid, [])
                # identity re-assignment X = kernel(X, ...) does not count as another definition
                defs = [d for d in defs if not (strip(d, casts=True).kind == 'CallExpr' and callee_name(strip(d, casts=True)) in CLEAR_PARAM)]
                if defs and all(strip(d, casts=True).kind == 'CallExpr' and callee_name(strip(d, casts=True)) == 'mzd_init' for d in defs):
                    # no write between creation and this call: the creating statement must be the nearest previous use
                    fresh = _no_write_between(f, fs, dst, c)
            role = 'overwriting' if f.name in roles['overwriting'] else 'accumulating' if f.name in roles['accumulating'] else 'other'
            if flag is None:
                # pass-through of the function's own flag (kernel wrappers)
                a = strip(c.kids[1 + CLEAR_PARAM[cn]], casts=True)
                ok = a.kind == 'DeclRefExpr' and a.refkind == 'ParmVarDecl'
                why = 'forwards its own clear parameter' if ok else 'non-literal clear flag `%s`' % pp(a)
            elif fresh:
                ok, why = True, 'destination is a fresh zero matrix (clear=%d)' % flag
            elif role == 'overwriting':
                ok, why = flag == 1, 'overwriting entry point, clear=%d' % flag
            elif role == 'accumulating':
                ok, why = flag == 0, 'accumulating entry point, clear=%d' % flag
            else:
                ok, why = False, '%s has no documented role and the destination `%s` is not a fresh matrix' % (f.name, pp(dst))
            rr.ob(ok, dict(function=f.name, call=pp(c)[:70], role=role, verdict=why),
                  Finding(rule, '%s|%s|%s|%s' % (rule, f.name, cn, pp(dst)), c.loc, f.name,
                          '`%s`: %s - prior contents of the destination %s' % (pp(c)[:70], why, 'leak into the product' if flag == 0 else 'are wiped although the entry point accumulates'), {}, label))
    # C6c: inside each kernel the clear parameter guards a complete zeroing of the destination that precedes all work
    from .cfg import cfg_of
    for kname, idx in sorted(CLEAR_PARAM.items()):
        f = prog.func(kname)
        rr.instances += 1
        cpar = f.params[idx]
        dpar = f.params[0]
        g = cfg_of(f)
        dom = g.dominators()
        ok, why = False, 'no `if (%s)` block that zeroes %s' % (cpar.name, dpar.name)
        for s_ in f.body.kids:
            if s_.kind != 'IfStmt':
                continue
            c = strip(s_.kids[0], casts=True)
            if c.kind == 'BinaryOperator' and c.op == '!=' and int_value(c.kids[1]) == 0:
                c = strip(c.kids[0], casts=True)
            if not (c.kind == 'DeclRefExpr' and c.refid == cpar.id):
                continue
            then = s_.kids[1]
            zero_call = any(callee_name(x) == 'mzd_set_ui' and strip(x.kids[1], casts=True).kind == 'DeclRefExpr' and strip(x.kids[1], casts=True).refid == dpar.id
                            and int_value(x.kids[2]) == 0 for x in then.find('CallExpr'))
            row_loop = False
            for lp in then.find('ForStmt'):
                cc = strip(lp.kids[2])
                if cc.kind == 'BinaryOperator' and pp(strip(cc.kids[1], casts=True)) == '%s->nrows' % dpar.name:
                    if any(x.kind == 'BinaryOperator' and x.op == '=' and int_value(x.kids[1]) == 0 for x in lp.walk()):
                        row_loop = True
            if not (zero_call or row_loop):
                why = 'the `if (%s)` block does not zero every row of %s' % (cpar.name, dpar.name)
                continue
            # it must precede every other statement that writes C: all later top-level statements come after it,
            # and no earlier top-level statement calls a writer of C
            ok, why = True, 'if (%s) zeroes %s before the accumulation' % (cpar.name, dpar.name)
            bnode = g.stmt_node.get(s_.kids[0].uid)
            for prev in f.body.kids:
                if prev is s_:
                    break
                for x in prev.find('CallExpr'):
                    if any(strip(a, casts=True).kind == 'DeclRefExpr' and strip(a, casts=True).refid == dpar.id for a in x.kids[1:]) and callee_name(x) not in ('mzd_row', 'mzd_row_const'):
                        # harmless if that statement never falls through to the clear test (dispatch that returns)
                        wn = _node_of(g, x)
                        reach = set()
                        stk = [wn] if wn is not None else []
                        while stk:
                            n_ = stk.pop()
                            if n_.id in reach:
                                continue
                            reach.add(n_.id)
                            for (_l, m_) in n_.succs:
                                stk.append(m_)
                        if bnode is None or bnode.id in reach:
                            ok, why = False, '%s is already written by `%s` before it is cleared' % (dpar.name, pp(x)[:50])
            # every return path passes the clear test or hands C to another routine
            blocked = {bnode.id} if bnode is not None else set()
            for cn_ in g.nodes:
                if cn_.ast is not None and cn_.kind in ('stmt', 'branch'):
                    for x in cn_.ast.find('CallExpr'):
                        if callee_name(x) not in ('mzd_row', 'mzd_row_const') and any(strip(a, casts=True).kind == 'DeclRefExpr' and strip(a, casts=True).refid == dpar.id for a in x.kids[1:]):
                            blocked.add(cn_.id)
            seen_ = set()
            stk = [g.entry]
            while stk:
                n_ = stk.pop()
                if n_.id in seen_ or n_.id in blocked:
                    continue
                seen_.add(n_.id)
                for (_l, m_) in n_.succs:
                    stk.append(m_)
            if ok and g.exit.id in seen_:
                # allowed only for the documented empty-result short cut  C->nrows == 0 || C->ncols == 0
                if not _only_empty_result_shortcut(g, seen_, dpar):
                    ok, why = False, 'a return is reachable without testing `%s` and without handing %s to an overwriting routine' % (cpar.name, dpar.name)
            break
        rr.ob(ok, dict(kernel=kname, verdict=why),
              Finding(rule, '%s|%s|clear-semantics' % (rule, kname), f.loc, kname,
                      'kernel %s: %s - with clear set, rows of %s that receive no contribution keep their previous contents' % (kname, why, dpar.name), {}, label))
    rr.require_floor(12, 'kernel calls with a clear flag')
    return rr


def _no_write_between(f, fs, dst, call):
    """dst (local owner) is not passed to any call nor stored through between its mzd_init and `call`
    (same compound statement, straight line)."""
    par = fs.parent.get(call.uid)
    stmt = call
    while par is not None and par.kind != 'CompoundStmt':
        stmt = par
        par = fs.parent.get(par.uid)
    if par is None:
        return False
    idx = [i for i, c in enumerate(par.kids) if c is stmt]
    if not idx:
        return False
    for c in reversed(par.kids[:idx[0]]):
        uses = [n for n in c.walk() if (n.kind == 'DeclRefExpr' and n.refid == dst.refid) or (n.kind == 'VarDecl' and n.id == dst.refid)]
        if not uses:
            continue
        # first earlier statement mentioning dst must be its creation
        for n in c.walk():
            if n.kind == 'VarDecl' and n.id == dst.refid and n.kids and callee_name(strip(n.kids[-1], casts=True)) == 'mzd_init':
                return True
            if n.kind == 'BinaryOperator' and n.op == '=' and strip(n.kids[0]).kind == 'DeclRefExpr' and strip(n.kids[0]).refid == dst.refid \
                    and callee_name(strip(n.kids[1], casts=True)) == 'mzd_init':
                return True
        return False
    return False


def _only_empty_result_shortcut(g, seen, dpar):
    """returns reachable early are all guarded by a test that the *destination* is empty"""
    for cn in g.nodes:
        if cn.id in seen and cn.kind == 'stmt' and cn.ast.kind == 'ReturnStmt':
            # its controlling branch must mention dpar->nrows == 0 / ncols == 0
            ok = False
            for (lab, pr) in cn.preds:
                x = pr
                hops = 0
                while x is not None and x.kind == 'label' and x.preds and hops < 3:
                    x = x.preds[0][1]
                    hops += 1
                if x is not None and x.kind == 'branch':
                    t = pp(x.ast)
                    if ('%s->nrows == 0' % dpar.name) in t or ('%s->ncols == 0' % dpar.name) in t:
                        ok = True
            if not ok:
                return False
    return True




def _escaping_windows(f, fs, dest_ids):
    """destination windows that are stored into an array / aggregate or another pointer: the block rules cannot follow them"""
    out = []
    for n in f.body.walk():
        if n.kind == 'DeclRefExpr' and n.refid in dest_ids:
            p = fs.parent.get(n.uid)
            while p is not None and p.kind in ('ImplicitCastExpr', 'ParenExpr', 'CStyleCastExpr'):
                p = fs.parent.get(p.uid)
            if p is None:
                continue
            if p.kind == 'InitListExpr':
                out.append(n)
            elif p.kind == 'VarDecl' and p.id not in dest_ids:
                out.append(n)
            elif p.kind == 'BinaryOperator' and p.op == '=' and any(x is n for x in p.kids[1].walk()):
                out.append(n)
    return out

# ---------------------------------------------------------------------------------------------- C6d
OVERWRITE_SPLITTERS = {'_mzd_mul_even': 0, '_mzd_sqr_even': 0, '_mzd_mul_mp4': 0}
# the overwriting public entry points C = A*B: the same must-write obligation (C6d only; they do not split)
OVERWRITE_ENTRIES = {'mzd_mul': 0, 'mzd_mul_m4rm': 0, 'mzd_mul_naive': 0, 'mzd_mul_mp': 0}


def rule_C6d(ctx, prog, label, rule='C6d'):
    """overwriting recursive products: every path to a return hands the destination C (or a window of C) to a call that
    writes it - except the path guarded by `C->nrows == 0 || C->ncols == 0`.  A shortcut that returns C untouched leaves the
    caller's previous contents (or the scratch values of an outer recursion level) in the result."""
    from .cfg import cfg_of
    from .symbolic import FuncSym
    rr = RuleResult(rule, 'overwriting recursive products: no return is reachable without the destination having been handed to a writing call (the empty-destination shortcut excepted)')
    eff = ctx.effects(prog)
    for name, di in sorted(dict(OVERWRITE_SPLITTERS, **OVERWRITE_ENTRIES).items()):
        f = prog.funcs.get(name)
        if f is None or f.body is None:
            continue
        rr.instances += 1
        fs = FuncSym(f)
        g = cfg_of(f)
        C = f.params[di]
        dests = {C.id}
        for vid, ds in fs.defs.items():
            for d in ds:
                d0 = strip(d, casts=True)
                if d0.kind == 'CallExpr' and callee_name(d0) in ('mzd_init_window',) and strip(d0.kids[1], casts=True).kind == 'DeclRefExpr' and strip(d0.kids[1], casts=True).refid in dests:
                    dests.add(vid)
        esc = _escaping_windows(f, fs, dests)
        if esc:
            raise AnalysisBroken('C6d: in %s the destination block `%s` is stored into an array or another variable (line %s); blocks reached through such copies are not modelled' % (name, esc[0].ref, esc[0].line))
        touch = set()
        empty_edges = set()
        for n in g.nodes:
            if n.ast is None:
                continue
            if n.kind in ('stmt',):
                for c in n.ast.find('CallExpr'):
                    cn = callee_name(c)
                    S = eff.summary(cn, f) if cn else None
                    if S is None:
                        continue
                    for i, a in enumerate(c.kids[1:]):
                        a0 = strip(a, casts=True)
                        if a0.kind == 'DeclRefExpr' and a0.refid in dests and any(r == ('p', i) and part == 'data' for (r, part) in S.writes):
                            touch.add(n.id)
            if n.kind == 'branch':
                txt = pp(n.ast)
                if ('%s->nrows == 0' % C.name) in txt or ('%s->ncols == 0' % C.name) in txt:
                    empty_edges.add((n.id, True))
                else:
                    # the same test through a local that holds the dimension (`rci_t const m = C->nrows; if (m == 0 ...`)
                    for x in n.ast.walk():
                        if x.kind == 'BinaryOperator' and x.op == '==' and int_value(x.kids[1]) == 0 and \
                                repr(fs.sym(x.kids[0])) in ('%s.nrows' % C.name, '%s.ncols' % C.name):
                            empty_edges.add((n.id, True))
        seen = set()
        st = [g.entry]
        bad = False
        while st:
            n = st.pop()
            if n.id in seen or n.id in touch:
                continue
            seen.add(n.id)
            if n is g.exit:
                bad = True
                break
            for lab_, m in n.succs:
                if (n.id, lab_) in empty_edges:
                    continue
                st.append(m)
        rr.ob(not bad, dict(function=name, writing_calls=len(touch)),
              Finding(rule, '%s|%s' % (rule, name), f.loc, name,
                      '%s can return without having written its destination `%s` (a shortcut path bypasses every product/addition into %s or its quadrants): '
                      'the previous contents stay in the result' % (name, C.name, C.name), {}, label))
    rr.require_floor(5, 'overwriting splitters and entry points')
    return rr


# ---------------------------------------------------------------------------------------------- C6e
_OVERWRITERS = {'_mzd_mul_even': None, '_mzd_sqr_even': None, 'mzd_mul_m4rm': None, 'mzd_mul': None, '_mzd_mul_m4rm': 4, '_mzd_mul_mp4': None,
                'mzd_mul_naive': None, '_mzd_mul_naive': None, 'mzd_copy': None, 'mzd_set_ui': None}
_ACCUMULATORS = {'_mzd_addmul_even': None, '_mzd_addsqr_even': None, 'mzd_addmul_m4rm': None, 'mzd_addmul': None, '_mzd_addmul': None, '_mzd_mul_m4rm': 4,
                 '_mzd_addmul_mp4': None, 'mzd_addmul_naive': None, '_mzd_add': None, 'mzd_add': None}


def rule_C6e(ctx, prog, label, rule='C6e'):
    """overwriting recursive products: a block of the destination is accumulated into (addmul / add in place) only after it
    has been overwritten - by a call on a window with the same coordinates, or by calls on windows that tile it.  A strip that
    only ever receives `+=` keeps the caller's previous contents in the product."""
    from .symbolic import FuncSym, Lin
    rr = RuleResult(rule, 'overwriting recursive products: every block of the destination is overwritten before anything is accumulated into it')
    for name, di in sorted(OVERWRITE_SPLITTERS.items()):
        f = prog.funcs.get(name)
        if f is None or f.body is None:
            continue
        fs = FuncSym(f)
        C = f.params[di]
        # top-level scalar updates  x *= c / x += c  (source order)
        ups = {}
        for n in f.body.walk():
            if n.kind == 'CompoundAssignOperator' and n.op in ('*=', '+=', '-=') and strip(n.kids[0]).kind == 'DeclRefExpr' and int_value(n.kids[1]) is not None:
                ups.setdefault(strip(n.kids[0]).refid, []).append(((n.line or 0, n.col or 0), n.op, int_value(n.kids[1])))

        def lin_at(e, at):
            e0 = strip(e, casts=True)
            v = int_value(e0)
            if v is not None:
                return Lin(v)
            if e0.kind == 'DeclRefExpr' and e0.refid not in ups and e0.refkind == 'VarDecl':
                d1 = fs.single_def(e0.refid)
                if d1 is not None:
                    return lin_at(d1, d1)         # a const local stands for its definition, evaluated where it is defined
            if e0.kind == 'DeclRefExpr' and e0.refid in ups:
                val = Lin.atom(e0.ref + '@0')
                dcl = fs.decl.get(e0.refid)
                if dcl is not None and dcl.kind == 'VarDecl' and dcl.kids and dcl.init and len(fs.defs.get(e0.refid, [])) == 1:
                    val = lin_at(dcl.kids[-1], dcl)          # a block-local copy (`rci_t nnn = <outer nnn>; nnn *= 2;`) starts from its initialiser
                for (pos, op, c) in sorted(ups[e0.refid]):
                    if pos < ((at.line or 0), (at.col or 0)):
                        val = val.scale(c) if op == '*=' else (val + Lin(c) if op == '+=' else val - Lin(c))
                return val
            if e0.kind == 'BinaryOperator' and e0.op in ('+', '-'):
                a, b = lin_at(e0.kids[0], at), lin_at(e0.kids[1], at)
                return a + b if e0.op == '+' else a - b
            if e0.kind == 'BinaryOperator' and e0.op == '*':
                a, b = lin_at(e0.kids[0], at), lin_at(e0.kids[1], at)
                if a.is_const():
                    return b.scale(a.c)
                if b.is_const():
                    return a.scale(b.c)
            if e0.kind == 'MemberExpr':
                return fs.sym(e0)
            if e0.kind == 'DeclRefExpr':
                return Lin.atom(e0.ref)
            return Lin.atom(pp(e0))
        wins = {}
        for n in f.body.walk():
            if n.kind == 'VarDecl' and n.kids and n.init:
                d0 = strip(n.kids[-1], casts=True)
                if d0.kind == 'CallExpr' and callee_name(d0) == 'mzd_init_window' and strip(d0.kids[1], casts=True).kind == 'DeclRefExpr' and strip(d0.kids[1], casts=True).refid == C.id:
                    wins[n.id] = tuple(lin_at(a, d0) for a in d0.kids[2:6])
        esc = _escaping_windows(f, fs, set(wins) | {C.id})
        if esc:
            raise AnalysisBroken('C6e: in %s the destination block `%s` is stored into an array or another variable (line %s); blocks reached through such copies are not modelled' % (name, esc[0].ref, esc[0].line))
        whole = (Lin(0), Lin(0), Lin.atom('%s.nrows' % C.name), Lin.atom('%s.ncols' % C.name))

        def rect_of(a):
            a0 = strip(a, casts=True)
            if a0.kind == 'DeclRefExpr':
                if a0.refid == C.id:
                    return whole
                return wins.get(a0.refid)
            return None

        def covered(w, done):
            if any(all(x == y for x, y in zip(w, d)) for d in done):
                return True
            inside = [d for d in done if True]
            # tiling: chain row cuts and column cuts through the rectangles
            def chains(lo, hi, starts_ends, depth=0):
                if lo == hi:
                    return [[lo]]
                if depth > 6:
                    return []
                out = []
                seen_e = []
                for (s_, e) in starts_ends:
                    if s_ == lo and not any(e == x for x in seen_e):
                        seen_e.append(e)
                        for rest in chains(e, hi, starts_ends, depth + 1):
                            out.append([lo] + rest)
                return out
            for rc in chains(w[0], w[2], [(d[0], d[2]) for d in inside]):
                for cc in chains(w[1], w[3], [(d[1], d[3]) for d in inside]):
                    good = True
                    for i in range(len(rc) - 1):
                        for j in range(len(cc) - 1):
                            cell = (rc[i], cc[j], rc[i + 1], cc[j + 1])
                            if not any(all(x == y for x, y in zip(cell, d)) for d in inside):
                                good = False
                    if good:
                        return True
            return False
        calls = sorted([c for c in f.body.find('CallExpr') if callee_name(c) in _OVERWRITERS or callee_name(c) in _ACCUMULATORS], key=lambda c: (c.line or 0, c.col or 0))
        from .cfg import cfg_of
        g = cfg_of(f)
        dom = g.dominators()
        owner = {}
        for cn_ in g.nodes:
            if cn_.ast is not None and cn_.kind in ('stmt', 'branch'):
                for x in cn_.ast.walk():
                    owner.setdefault(x.uid, cn_)
        done_all = []        # (rect, cfg node)
        for c in calls:
            me = owner.get(c.uid)
            # only overwrites that lie on every path to this call count
            done = [r_ for (r_, nd) in done_all if me is not None and nd is not None and (nd.id in dom.get(me.id, ()) )]
            cn = callee_name(c)
            r = rect_of(c.kids[1]) if len(c.kids) > 1 else None
            if r is None:
                continue
            mode = None
            if cn == '_mzd_mul_m4rm':
                fl = int_value(c.kids[5]) if len(c.kids) > 5 else None
                mode = 'over' if fl == 1 else 'acc' if fl == 0 else None
                if mode is None:
                    # forwards the function's own clear flag: both behaviours occur, the overwriting one is the one that matters here
                    mode = 'over'
            elif cn in _OVERWRITERS:
                mode = 'over'
            else:
                mode = 'acc'
            if cn in ('_mzd_add', 'mzd_add'):
                # C_x = C_x + C_y in place: both must be initialised; a plain sum into a fresh block overwrites
                a1, a2 = rect_of(c.kids[2]), rect_of(c.kids[3])
                if a1 is None and a2 is None:
                    mode = 'over'
            if mode == 'over':
                done_all.append((r, me))
                continue
            rr.instances += 1
            ok = covered(r, done)
            rr.ob(ok, dict(function=name, call=pp(c)[:60], block=[repr(x) for x in r]),
                  Finding(rule, '%s|%s|%s' % (rule, name, pp(strip(c.kids[1], casts=True))), c.loc, name,
                          '`%s` accumulates into rows [%r, %r) x columns [%r, %r) of the destination, which no earlier call has overwritten: with a caller-supplied, '
                          'non-zero destination its previous contents stay in the product' % (pp(c)[:60], r[0], r[2], r[1], r[3]), {}, label))
    rr.require_floor(4, 'accumulating calls into blocks of an overwritten destination')
    return rr


# ---------------------------------------------------------------------------------------------- C6f
ACCUMULATE_ENTRIES = ('mzd_addmul', '_mzd_addmul', 'mzd_addmul_m4rm', 'mzd_addmul_naive', 'mzd_addmul_mp', '_mzd_addmul_even',
                      '_mzd_addsqr_even', '_mzd_addmul_mp4', '_mzd_addmul_weird_weird', '_mzd_addmul_weird_even', '_mzd_addmul_even_weird')


def rule_C6f(ctx, prog, label, rule='C6f'):
    """accumulating products C += A*B never overwrite: the destination (or a window of it) is not handed as destination to
    an overwriting call - mzd_set_ui, mzd_copy, an overwriting product, or a product kernel with its clear flag TRUE.  The
    solver's consistency check adds H*Y1 to the lower rows of B with mzd_addmul; an addmul that clears them (for an empty
    inner dimension, say) turns every right-hand side into a consistent one."""
    from .symbolic import FuncSym
    rr = RuleResult(rule, 'accumulating products never hand their destination to an overwriting call')
    nf = 0
    for name in ACCUMULATE_ENTRIES:
        f = prog.funcs.get(name)
        if f is None or f.body is None:
            continue
        nf += 1
        fs = FuncSym(f)
        C = f.params[0]
        dests = {C.id}
        grew = True
        while grew:
            grew = False
            for vid, ds in fs.defs.items():
                if vid in dests:
                    continue
                for d in ds:
                    d0 = strip(d, casts=True)
                    if d0 is not None and d0.kind == 'CallExpr' and callee_name(d0) in ('mzd_init_window',) and len(d0.kids) > 1 and \
                            strip(d0.kids[1], casts=True).kind == 'DeclRefExpr' and strip(d0.kids[1], casts=True).refid in dests:
                        dests.add(vid)
                        grew = True
        for c in f.body.find('CallExpr'):
            cn = callee_name(c)
            if not cn or len(c.kids) < 2:
                continue
            a0 = strip(c.kids[1], casts=True)
            if not (a0.kind == 'DeclRefExpr' and a0.refid in dests):
                continue
            rr.instances += 1
            over = None
            if cn in ('mzd_set_ui', 'mzd_copy', 'mzd_randomize', 'mzd_submatrix', 'mzd_transpose'):
                over = '%s overwrites its first argument' % cn
                if cn == 'mzd_copy' and len(c.kids) > 2:
                    # copy-in / copy-out: `Cbar = mzd_copy(NULL, C); ...accumulate into Cbar...; mzd_copy(C, Cbar)`
                    src = strip(c.kids[2], casts=True)
                    if src.kind == 'DeclRefExpr' and src.refkind == 'VarDecl':
                        for d in fs.defs.get(src.refid, []):
                            d0 = strip(d, casts=True)
                            if d0 is not None and d0.kind == 'CallExpr' and callee_name(d0) == 'mzd_copy' and len(d0.kids) > 2 and \
                                    strip(d0.kids[2], casts=True).kind == 'DeclRefExpr' and strip(d0.kids[2], casts=True).refid in dests:
                                over = None
            elif cn in CLEAR_PARAM:
                idx = CLEAR_PARAM[cn]
                fl = int_value(c.kids[1 + idx]) if len(c.kids) > 1 + idx else None
                if fl == 1:
                    over = '%s is called with its clear flag TRUE' % cn
            elif cn in _OVERWRITERS and cn not in _ACCUMULATORS:
                over = '%s computes a product into its first argument, discarding what it held' % cn
            rr.ob(over is None, dict(function=name, call=pp(c)[:70]),
                  Finding(rule, '%s|%s|%s' % (rule, name, cn), c.loc, name,
                          '%s accumulates (C += A*B) but hands its destination to `%s`: %s - the previous contents of C are lost on this path'
                          % (name, pp(c)[:60], over), {}, label))
    rr.extra['functions'] = nf
    rr.require_floor(8, 'calls on the destination of accumulating products')
    return rr
