"""FP1 - discipline of the pivot search (mzd_find_pivot and static helpers it delegates its row scans to).

A row scan keeps, over the remaining rows, the word with the least significant set bit:
  (1) the candidate (`data`, and the row index stored with it) is replaced only under `m4ri_lesser_LSB(curr, data)`,
      where curr is the word just loaded;
  (2) a scan may stop early only when the *lowest bit the scan admits* is set in the candidate: the bit tested before
      `break` equals the low end of the mask applied to the loaded word (no mask: bit 0; `m4ri_ffff << s`: bit s).
      For a helper that receives mask and bit as parameters the equation is checked at every call site.
A scan that stops at the first non-zero row, or that tests the first word's bit in a later word, returns a column that is
not the leftmost non-zero one; the elimination then skips the columns in between for good."""
from .ast import strip, callee_name, int_value, pp
from .driver import Finding, RuleResult
from .frontend import AnalysisBroken
from .symbolic import FuncSym, Lin


def _expand(e, fs, depth=0):
    e0 = strip(e, casts=True)
    if e0 is not None and e0.kind == 'DeclRefExpr' and e0.refkind == 'VarDecl' and depth < 4:
        d = fs.single_def(e0.refid)
        if d is not None:
            return _expand(d, fs, depth + 1)
    return e0


def _mask_low(m, fs):
    """low end of the bit extent of a mask built from m4ri_ffff; ('param', idx) for a parameter; None if unknown"""
    if m is None:
        return Lin(0)
    m0 = _expand(m, fs)
    if m0.kind == 'DeclRefExpr':
        if m0.ref == 'm4ri_ffff':
            return Lin(0)
        if m0.refkind == 'ParmVarDecl':
            return ('param', m0.refid)
        if m0.refkind == 'VarDecl':
            # a mask that starts as all ones and is narrowed by `mask &= M` under conditions: on the path where no
            # condition holds it still admits bit 0
            ds = fs.defs.get(m0.refid, [])
            ands = [n for n in fs.f.body.walk() if n.kind == 'CompoundAssignOperator' and n.op == '&=' and strip(n.kids[0]).kind == 'DeclRefExpr' and strip(n.kids[0]).refid == m0.refid]
            if len(ds) == 1 and ands and all(fs.enclosing(n, ('IfStmt',)) is not None for n in ands):
                base = _mask_low(ds[0], fs)
                if isinstance(base, Lin) and base == Lin(0):
                    lows = [Lin(0)]
                    for n in ands:
                        l2 = _mask_low(n.kids[1], fs)
                        if l2 is None or isinstance(l2, tuple):
                            return None
                        lows.append(l2)
                    return ('set', lows)
        return None
    if m0.kind == 'BinaryOperator' and m0.op in ('<<', '>>'):
        b = _expand(m0.kids[0], fs)
        if b.kind == 'DeclRefExpr' and b.ref == 'm4ri_ffff':
            return fs.sym(m0.kids[1]) if m0.op == '<<' else Lin(0)
    return None


def _scan_loops(f, fs):
    """[(loop, curr VarDecl, mask expr or None, guarded If or None, unguarded updates, [(break, bit expr or None)])]"""
    out = []
    for lp in f.body.find('ForStmt'):
        body = lp.kids[4]
        curr = None
        for n in body.walk():
            if n.kind == 'ForStmt' and n is not lp:
                break
        decls = [n for n in (body.kids if body.kind == 'CompoundStmt' else [body]) if n.kind == 'DeclStmt']
        mask = None
        for ds in decls:
            for v in ds.kids:
                if v.kind == 'VarDecl' and v.kids and v.init and (v.type or '').replace('const', '').strip() == 'word':
                    i0 = strip(v.kids[-1], casts=True)
                    src = i0
                    mk = None
                    if i0.kind == 'BinaryOperator' and i0.op == '&':
                        for (x, y) in ((i0.kids[0], i0.kids[1]), (i0.kids[1], i0.kids[0])):
                            x0 = strip(x, casts=True)
                            if x0.kind == 'ArraySubscriptExpr':
                                src, mk = x0, y
                    if src.kind == 'ArraySubscriptExpr' or (src.kind == 'CallExpr' and callee_name(src) in ('mzd_read_bits',)):
                        curr, mask = v, mk
        if curr is None:
            continue
        guarded = None
        for n in body.walk():
            if n.kind == 'IfStmt':
                c = strip(n.kids[0], casts=True)
                while c is not None and c.kind == 'CallExpr' and callee_name(c) == '__builtin_expect':
                    c = strip(c.kids[1], casts=True)
                if c is not None and c.kind == 'BinaryOperator' and c.op == '!=' and int_value(c.kids[1]) == 0:
                    c = strip(c.kids[0], casts=True)
                if c is not None and c.kind == 'CallExpr' and callee_name(c) == 'm4ri_lesser_LSB':
                    a0 = strip(c.kids[1], casts=True)
                    if a0.kind == 'DeclRefExpr' and a0.refid == curr.id:
                        guarded = n
        # assignments `X = curr` anywhere in the loop body
        ups = [n for n in body.walk() if n.kind == 'BinaryOperator' and n.op == '=' and strip(n.kids[1], casts=True).kind == 'DeclRefExpr'
               and strip(n.kids[1], casts=True).refid == curr.id]
        ung = [n for n in ups if guarded is None or not any(x is n for x in guarded.kids[1].walk())]
        brks = []
        for n in body.walk():
            if n.kind == 'BreakStmt':
                # innermost enclosing loop must be lp
                p = fs.parent.get(n.uid)
                inner = None
                bit = None
                while p is not None and p is not lp:
                    if p.kind in ('ForStmt', 'WhileStmt', 'DoStmt', 'SwitchStmt') and inner is None:
                        inner = p
                    if p.kind == 'IfStmt' and bit is None and any(x is n for x in p.kids[1].walk()):
                        c = strip(p.kids[0], casts=True)
                        # ((data >> X) & 1)
                        for x in c.walk():
                            if x.kind == 'BinaryOperator' and x.op == '>>':
                                bit = x.kids[1]
                                break
                    p = fs.parent.get(p.uid)
                if inner is None:
                    brks.append((n, bit))
        out.append((lp, curr, mask, guarded, ups, ung, brks))
    return out


def rule_FP1(ctx, prog, label, rule='FP1'):
    rr = RuleResult(rule, 'pivot search: the candidate is replaced only under m4ri_lesser_LSB(curr, data); a row scan stops early only on the lowest bit its mask admits')
    f = prog.funcs.get('mzd_find_pivot')
    if f is None or f.body is None:
        raise AnalysisBroken('FP1: mzd_find_pivot vanished')
    todo = [(f, None)]
    helpers = {}
    for c in f.body.find('CallExpr'):
        g = prog.resolve(callee_name(c), f) if callee_name(c) else None
        if g is not None and g.body is not None and g.name not in ('m4ri_lesser_LSB', 'mzd_read_bits', 'mzd_row_const', 'mzd_row') and \
           any(callee_name(x) == 'm4ri_lesser_LSB' for x in g.body.find('CallExpr')):
            helpers.setdefault(g.name, (g, []))[1].append(c)
    nscans = 0
    fsf = FuncSym(f)
    for g, calls in [(f, None)] + [(h, cs) for (h, cs) in helpers.values()]:
        fs = FuncSym(g)
        for (lp, curr, mask, guarded, ups, ung, brks) in _scan_loops(g, fs):
            nscans += 1
            rr.instances += 1
            ok1 = guarded is not None and bool(ups) and not ung
            rr.ob(ok1, dict(function=g.name, scan_line=lp.line, obligation='candidate replaced only under m4ri_lesser_LSB'),
                  Finding(rule, '%s|%s|guard' % (rule, g.name), lp.loc, g.name,
                          'row scan at line %s replaces its candidate %s: the row with the least significant set bit is no longer the one kept' % (
                              lp.line, 'outside `if (m4ri_lesser_LSB(%s, ..))`' % curr.name if ung else 'without any m4ri_lesser_LSB test'), {}, label))
            for (b, bit) in brks:
                rr.instances += 1
                if bit is None:
                    rr.ob(False, None, Finding(rule, '%s|%s|break' % (rule, g.name), b.loc, g.name, 'row scan at line %s stops early without testing a bit of the candidate' % lp.line, {}, label))
                    continue
                low = _mask_low(mask, fs)
                b0 = strip(bit, casts=True)
                if isinstance(low, tuple) or (b0.kind == 'DeclRefExpr' and b0.refkind == 'ParmVarDecl' and g is not f):
                    # helper: check the equation at every call site
                    if calls is None:
                        raise AnalysisBroken('FP1: parameterised scan in %s without call sites' % g.name)
                    pidx = dict((p.id, i) for i, p in enumerate(g.params))
                    for c in calls:
                        rr.instances += 1
                        lw = _mask_low(c.kids[1 + pidx[low[1]]], fsf) if isinstance(low, tuple) else low
                        bv = fsf.sym(c.kids[1 + pidx[b0.refid]]) if (b0.kind == 'DeclRefExpr' and b0.refid in pidx) else fs.sym(bit)
                        if isinstance(lw, tuple) and lw[0] == 'set':
                            wrong = [x for x in lw[1] if not (x == bv)]
                            rr.ob(not wrong, dict(function=f.name, call=pp(c)[:60], lowest_admitted_bits=[repr(x) for x in lw[1]], bit_tested=repr(bv)),
                                  Finding(rule, '%s|%s|break-bit|%s' % (rule, f.name, g.name), c.loc, f.name,
                                          '`%s`: the scan stops early on bit %r, but on a path where the mask is not narrowed the lowest bit it admits is %r - a row further down may hold a set bit to the left'
                                          % (pp(c)[:60], bv, wrong[0] if wrong else ''), {}, label))
                            continue
                        if lw is None or isinstance(lw, tuple):
                            raise AnalysisBroken('FP1: mask argument of `%s` not understood' % pp(c)[:50])
                        okc = lw == bv
                        rr.ob(okc, dict(function=f.name, call=pp(c)[:60], lowest_admitted_bit=repr(lw), bit_tested=repr(bv)),
                              Finding(rule, '%s|%s|break-bit|%s' % (rule, f.name, g.name), c.loc, f.name,
                                      '`%s`: the scan stops early on bit %r, but the lowest bit its mask admits is %r - a row further down may hold a set bit to the left' % (pp(c)[:60], bv, lw), {}, label))
                    rr.ob(True, None)
                    continue
                if low is None:
                    raise AnalysisBroken('FP1: mask `%s` of the scan at line %s not understood' % (pp(mask)[:30], lp.line))
                bv = fs.sym(bit)
                okb = low == bv
                rr.ob(okb, dict(function=g.name, scan_line=lp.line, lowest_admitted_bit=repr(low), bit_tested=repr(bv)),
                      Finding(rule, '%s|%s|break-bit' % (rule, g.name), b.loc, g.name,
                              'row scan at line %s stops early on bit %r, but the lowest bit its mask admits is %r - a row further down may hold a set bit to the left' % (lp.line, bv, low), {}, label))
    if nscans < 2 and not rr.findings:
        raise AnalysisBroken('FP1: only %d row scans found in mzd_find_pivot and its helpers (4 confirmed by reading)' % nscans)
    return rr
