"""W2 - word/bit coordinate agreement.

Wherever one bit of a matrix row is addressed as a (word index, bit mask/shift) pair - `row[W] & (m4ri_one << S)`,
`(row[W] >> S) & 1`, `row[W] |= m4ri_one << S`, also through single-definition locals such as `wrd` / `bm` - with
W of the form X / 64 and S of the form Y % 64, X and Y must be the same column: the same expression over the same
*versions* of its variables (a variable updated in between, e.g. through `&j` handed to mzd_find_pivot, is a different
version).  A pair built from two versions addresses word(old column) with bit(new column)."""
from .ast import strip, callee_name, int_value, pp
from .driver import Finding, RuleResult
from .symbolic import Lin, FuncSym


class Versions(object):
    def __init__(self, f, fs):
        self.fs = fs
        self.mods = {}        # decl id -> sorted list of (line, col)
        for n in f.body.walk():
            tgt = None
            if (n.kind == 'BinaryOperator' and n.op == '=') or n.kind == 'CompoundAssignOperator' or (n.kind == 'UnaryOperator' and n.op in ('++', '--')):
                l = strip(n.kids[0])
                if l.kind == 'DeclRefExpr':
                    tgt = l.refid
            elif n.kind == 'UnaryOperator' and n.op == '&':
                l = strip(n.kids[0])
                if l.kind == 'DeclRefExpr':
                    tgt = l.refid
            if tgt is not None:
                self.mods.setdefault(tgt, []).append((n.line or 0, n.col or 0))

    def version(self, vid, at):
        pos = (at.line or 0, at.col or 0)
        return sum(1 for p in self.mods.get(vid, []) if p < pos)

    def vsym(self, e, at, depth=0):
        """Lin over atoms name@version; single-definition locals are expanded at their definition site"""
        fs = self.fs
        e = strip(e, casts=True)
        if e is None:
            return Lin.atom('?')
        v = int_value(e)
        if v is not None:
            return Lin(v)
        if e.kind == 'DeclRefExpr':
            if e.ref == 'm4ri_radix':
                return Lin(64)
            if e.refkind in ('VarDecl', 'ParmVarDecl'):
                d = fs.single_def(e.refid)
                if d is not None and depth < 6 and e.refid not in self.mods:
                    return self.vsym(d, d, depth + 1)
                return Lin.atom('%s@%d' % (e.ref, self.version(e.refid, at)))
            return Lin.atom(e.ref)
        if e.kind == 'BinaryOperator':
            a, b = e.kids
            if e.op in ('+', '-'):
                x, y = self.vsym(a, at, depth), self.vsym(b, at, depth)
                return x + y if e.op == '+' else x - y
            if e.op == '*':
                x, y = self.vsym(a, at, depth), self.vsym(b, at, depth)
                if x.is_const():
                    return y.scale(x.c)
                if y.is_const():
                    return x.scale(y.c)
            x, y = self.vsym(a, at, depth), self.vsym(b, at, depth)
            return Lin.atom('(%r)%s(%r)' % (x, e.op, y))
        if e.kind == 'MemberExpr':
            return Lin.atom('%s.%s' % (pp(e.kids[0]), e.name))
        return Lin.atom(pp(e))

    def expand(self, e, depth=0):
        """follow single-definition locals to the defining expression (and the site it is evaluated at)"""
        e0 = strip(e, casts=True)
        if e0 is not None and e0.kind == 'DeclRefExpr' and e0.refkind == 'VarDecl' and depth < 4 and e0.refid not in self.mods:
            d = self.fs.single_def(e0.refid)
            if d is not None:
                return self.expand(d, depth + 1)
        return e0


def _word_col(V, w):
    """W = X / 64  or  X >> 6  ->  (X, site)"""
    w0 = V.expand(w)
    if w0 is not None and w0.kind == 'BinaryOperator':
        if w0.op == '/' and (int_value(w0.kids[1]) == 64 or pp(strip(w0.kids[1], casts=True)) == 'm4ri_radix'):
            return w0.kids[0], w0
        if w0.op == '>>' and int_value(w0.kids[1]) == 6:
            return w0.kids[0], w0
    return None


def _bit_col(V, s):
    """S = Y % 64  or  Y & 63  ->  (Y, site)"""
    s0 = V.expand(s)
    if s0 is not None and s0.kind == 'BinaryOperator':
        if s0.op == '%' and (int_value(s0.kids[1]) == 64 or pp(strip(s0.kids[1], casts=True)) == 'm4ri_radix'):
            return s0.kids[0], s0
        if s0.op == '&' and int_value(s0.kids[1]) == 63:
            return s0.kids[0], s0
    return None


def _mask_shift(V, m):
    """m = m4ri_one << S (possibly negated, possibly through a local) -> S"""
    m0 = V.expand(m)
    if m0 is None:
        return None
    if m0.kind == 'UnaryOperator' and m0.op == '~':
        return _mask_shift(V, m0.kids[0])
    if m0.kind == 'BinaryOperator' and m0.op == '<<':
        b = strip(m0.kids[0], casts=True)
        if (b.kind == 'DeclRefExpr' and b.ref == 'm4ri_one') or int_value(b) == 1:
            return m0.kids[1]
    return None


def rule_W2(ctx, prog, label, only_funcs=None, rule='W2'):
    rr = RuleResult(rule, 'word/bit coordinate agreement: a (word index X/64, bit Y%64) pair addressing one matrix bit is built from the same '
                          'column expression over the same versions of its variables')
    for f in sorted(prog.all_funcs(), key=lambda f: (f.file, f.line)):
        if only_funcs is not None and f.name not in only_funcs:
            continue
        if not any(n.kind == 'ArraySubscriptExpr' for n in f.body.walk()):
            continue
        fs = FuncSym(f)
        V = Versions(f, fs)
        seen = set()
        for n in f.body.walk():
            pairs = []
            if n.kind in ('BinaryOperator', 'CompoundAssignOperator') and n.op in ('&', '|', '^', '&=', '|=', '^=', '>>'):
                a, b = n.kids
                for (x, y) in ((a, b), (b, a)):
                    x0 = strip(x, casts=True)
                    if x0 is not None and x0.kind == 'ArraySubscriptExpr':
                        if n.op == '>>':
                            if x is a:
                                pairs.append((x0, y))
                        else:
                            sh = _mask_shift(V, y)
                            if sh is not None:
                                pairs.append((x0, sh))
            for (sub, sh) in pairs:
                wc = _word_col(V, sub.kids[1])
                bc = _bit_col(V, sh)
                if wc is None or bc is None:
                    continue
                if n.uid in seen:
                    continue
                seen.add(n.uid)
                rr.instances += 1
                X = V.vsym(wc[0], wc[1])
                Y = V.vsym(bc[0], bc[1])
                ok = X == Y
                rr.ob(ok, dict(function=f.name, access=pp(n)[:60], column=repr(X)),
                      Finding(rule, '%s|%s|%s' % (rule, f.name, pp(wc[0])[:20]), n.loc, f.name,
                              '`%s`: the word index is computed from column %r but the bit position from column %r - they address different columns '
                              '(a variable was updated between the two computations)' % (pp(n)[:60], X, Y), {}, label))
    return rr


def _coord_base(V, e):
    """e (expanded) is a coordinate derivation X/64, X%64, X>>6, X&63 or m4ri_one << (X%64): returns X"""
    e0 = strip(e, casts=True)
    if e0 is None or e0.kind != 'BinaryOperator':
        return None
    c = int_value(e0.kids[1])
    r = pp(strip(e0.kids[1], casts=True))
    if e0.op in ('/', '%') and (c == 64 or r == 'm4ri_radix'):
        return e0.kids[0]
    if (e0.op == '>>' and c == 6) or (e0.op == '&' and c == 63):
        return e0.kids[0]
    if e0.op == '<<':
        b = strip(e0.kids[0], casts=True)
        if (b.kind == 'DeclRefExpr' and b.ref == 'm4ri_one') or int_value(b) == 1:
            return _coord_base(V, e0.kids[1])
    return None


def rule_W2b(ctx, prog, label, only_funcs=None, rule='W2b', base_of=None, what=None):
    """a local holding a word index / bit position / bit mask derived from a column variable is not used after that column
    variable has been given a new value (assignment, ++, or its address handed to a callee that writes through it)"""
    from .cfg import cfg_of
    rr = RuleResult(rule, what or 'derived coordinates (X/64, X%64, 1<<X%64 kept in a local) are never used after X changed on a path from the derivation to the use')
    eff = ctx.effects(prog)
    for f in sorted(prog.all_funcs(), key=lambda f: (f.file, f.line)):
        if only_funcs is not None and f.name not in only_funcs:
            continue
        fs = FuncSym(f)
        derived = []
        for vid, ds in fs.defs.items():
            d = fs.single_def(vid)
            if d is None or vid not in fs.decl or fs.decl[vid].kind != 'VarDecl':
                continue
            X = _coord_base(None, d) if base_of is None else base_of(f, d)
            if X is None:
                continue
            bases = set(x.refid for x in X.walk() if x.kind == 'DeclRefExpr' and x.refkind in ('VarDecl', 'ParmVarDecl') and (base_of is None or x.refkind == 'ParmVarDecl'))
            if bases:
                derived.append((vid, d, bases))
        if not derived:
            continue
        # modification sites of each base variable
        mods = {}
        for n in f.body.walk():
            tgt = None
            if (n.kind == 'BinaryOperator' and n.op == '=') or n.kind == 'CompoundAssignOperator' or (n.kind == 'UnaryOperator' and n.op in ('++', '--')):
                l = strip(n.kids[0])
                if l.kind == 'DeclRefExpr':
                    tgt = l.refid
            elif n.kind == 'CallExpr':
                cn = callee_name(n)
                S = eff.summary(cn, f) if cn else None
                for i, a in enumerate(n.kids[1:]):
                    a0 = strip(a, casts=True)
                    if a0.kind == 'UnaryOperator' and a0.op == '&':
                        l = strip(a0.kids[0])
                        if l.kind == 'DeclRefExpr':
                            if S is None or any(r == ('p', i) for (r, _part) in S.writes):
                                mods.setdefault(l.refid, []).append(n)
            if tgt is not None:
                mods.setdefault(tgt, []).append(n)
        g = cfg_of(f)
        owner = {}
        for cn_ in g.nodes:
            if cn_.ast is not None:
                for x in cn_.ast.walk():
                    owner.setdefault(x.uid, cn_)

        def reach(src):
            seen = set()
            st = [m for _, m in src.succs]
            while st:
                n = st.pop()
                if n.id in seen:
                    continue
                seen.add(n.id)
                for _, m in n.succs:
                    st.append(m)
            return seen
        rcache = {}

        def R(nd):
            if nd.id not in rcache:
                rcache[nd.id] = reach(nd)
            return rcache[nd.id]
        for (vid, d, bases) in derived:
            dn = owner.get(d.uid)
            uses = [n for n in f.body.walk() if n.kind == 'DeclRefExpr' and n.refid == vid]
            for u in uses:
                un = owner.get(u.uid)
                if dn is None or un is None:
                    continue
                rr.instances += 1
                bad = None
                for b in bases:
                    for m in mods.get(b, []):
                        mn = owner.get(m.uid)
                        if mn is None:
                            continue
                        # a path derivation -> modification -> use.  Same CFG node: fall back to source order.
                        after_def = (mn.id in R(dn)) or (mn is dn and (m.line, m.col or 0) > (d.line, d.col or 0))
                        before_use = (un.id in R(mn)) or (mn is un and (m.line, m.col or 0) < (u.line, u.col or 0))
                        # the loop that re-evaluates the derivation each iteration: modification reaches the use only through the derivation
                        if after_def and before_use:
                            # is there a path mod -> use that avoids the derivation node?
                            seen = set()
                            st = [x for _, x in mn.succs] if mn is not un else [un]
                            hit = mn is un
                            while st and not hit:
                                n = st.pop()
                                if n.id in seen or n is dn:
                                    continue
                                seen.add(n.id)
                                if n is un:
                                    hit = True
                                    break
                                for _, x in n.succs:
                                    st.append(x)
                            if hit:
                                bad = (b, m)
                    if bad:
                        break
                name = fs.decl[vid].name
                rr.ob(bad is None, dict(function=f.name, derived=name, definition=pp(d)[:40]) if rr.instances % 7 == 1 else None,
                      Finding(rule, '%s|%s|%s' % (rule, f.name, name), u.loc, f.name,
                              '`%s` (= %s) is used here although `%s` was given a new value at line %s after `%s` was computed: the derived value is stale'
                              % (name, pp(d)[:40], fs.decl[bad[0]].name if bad else '', bad[1].line if bad else '', name), {}, label))
    return rr


def rule_W2k(ctx, prog, label, rule='W2k'):
    """Four-Russians routines: a quantity computed from the table parameter (`kk = NTABLES * k`, per-table splits) is not used
    after the parameter itself was adjusted - the strip height and the table sizes would come from two different k."""
    def base_of(f, d):
        d0 = strip(d, casts=True)
        if d0 is None or d0.kind != 'BinaryOperator' or d0.op not in ('*', '+', '-', '/', '<<'):
            return None
        ps = [x for x in d0.walk() if x.kind == 'DeclRefExpr' and x.refkind == 'ParmVarDecl' and (x.type or '').replace('const', '').strip() == 'int']
        return d0 if ps else None
    rr = rule_W2b(ctx, prog, label, rule=rule, base_of=base_of,
                  what='a value computed from an int parameter (table parameter k, cutoff) is not used after that parameter was given a new value')
    rr.require_floor(20, 'uses of parameter-derived locals')
    return rr
