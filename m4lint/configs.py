"""Engine J: configuration independence.  J1 every legal configuration type-checks; J2 effect summaries are the
same in every configuration; J4 the automatically selected table parameter stays in [1, 16]."""
from .ast import strip, callee_name, pp, int_value
from .symbolic import FuncSym
from .driver import RuleResult, Finding
from .frontend import AnalysisBroken, cfg_id
from . import frontend

INF = 10 ** 9
TOP = (-INF, INF)


def _minmax_pattern(e):
    """(a) < (b) ? (a) : (b)  -> ('min', a, b);  with > -> ('max', a, b)"""
    e = strip(e, casts=True)
    if e is None or e.kind != 'ConditionalOperator':
        return None
    c = strip(e.kids[0], casts=True)
    if c.kind != 'BinaryOperator' or c.op not in ('<', '>', '<=', '>='):
        return None
    a, b = pp(strip(c.kids[0], casts=True)), pp(strip(c.kids[1], casts=True))
    t, f = pp(strip(e.kids[1], casts=True)), pp(strip(e.kids[2], casts=True))
    if (t, f) == (a, b):
        return ('min' if c.op in ('<', '<=') else 'max', e.kids[1], e.kids[2])
    if (t, f) == (b, a):
        return ('max' if c.op in ('<', '<=') else 'min', e.kids[1], e.kids[2])
    return None


class Intervals(object):
    def __init__(self, prog, f):
        self.prog, self.f = prog, f
        self.fs = FuncSym(f)

    def expr(self, e, env, depth=0):
        e = strip(e, casts=True)
        if e is None or depth > 12:
            return TOP
        v = int_value(e)
        if v is not None:
            return (v, v)
        mm = _minmax_pattern(e)
        if mm:
            a, b = self.expr(mm[1], env, depth + 1), self.expr(mm[2], env, depth + 1)
            if mm[0] == 'min':
                return (min(a[0], b[0]), min(a[1], b[1]))
            return (max(a[0], b[0]), max(a[1], b[1]))
        if e.kind == 'DeclRefExpr':
            if e.refid in env:
                return env[e.refid]
            d = self.fs.single_def(e.refid)
            if d is not None:
                return self.expr(d, env, depth + 1)
            return TOP
        if e.kind == 'CallExpr':
            cn = callee_name(e)
            g = self.prog.resolve(cn, self.f)
            if g is not None and g.body is not None and depth < 6:
                # interval of the returned expression (single return, locals by single definition)
                rets = g.body.find('ReturnStmt')
                if len(rets) == 1 and rets[0].kids:
                    return Intervals(self.prog, g).expr(rets[0].kids[0], {}, depth + 1)
            return TOP
        if e.kind == 'BinaryOperator' and e.op in ('+', '-'):
            a, b = self.expr(e.kids[0], env, depth + 1), self.expr(e.kids[1], env, depth + 1)
            if a == TOP or b == TOP:
                return TOP
            return (a[0] + b[0], a[1] + b[1]) if e.op == '+' else (a[0] - b[1], a[1] - b[0])
        return TOP

    def run(self, stmts, env, kid):
        """Execute a statement list abstractly for the single variable kid; returns interval of kid."""
        for s in stmts:
            env = self.stmt(s, env, kid)
        return env

    def stmt(self, s, env, kid):
        s0 = s
        if s.kind == 'CompoundStmt':
            return self.run(s.kids, env, kid)
        if s.kind == 'DeclStmt' or s.kind == 'NullStmt':
            return env
        if s.kind == 'IfStmt':
            cond = strip(s.kids[0], casts=True)
            te, fe = self.refine(cond, env, kid, True), self.refine(cond, env, kid, False)
            t_out = self.stmt(s.kids[1], te, kid) if te is not None else None
            if len(s.kids) > 2 and s.kids[2].kind != 'Null':
                f_out = self.stmt(s.kids[2], fe, kid) if fe is not None else None
            else:
                f_out = fe
            outs = [o for o in (t_out, f_out) if o is not None]
            if not outs:
                return env
            res = dict(outs[0])
            for o in outs[1:]:
                a, b = res.get(kid, TOP), o.get(kid, TOP)
                res[kid] = (min(a[0], b[0]), max(a[1], b[1]))
            return res
        e = strip(s)
        if e.kind == 'BinaryOperator' and e.op == '=':
            l = strip(e.kids[0])
            if l.kind == 'DeclRefExpr' and l.refid == kid:
                env = dict(env)
                env[kid] = self.expr(e.kids[1], env)
            return env
        if e.kind == 'CompoundAssignOperator' and e.op in ('+=', '-='):
            l = strip(e.kids[0])
            if l.kind == 'DeclRefExpr' and l.refid == kid:
                d = self.expr(e.kids[1], env)
                cur = env.get(kid, TOP)
                env = dict(env)
                if cur == TOP or d == TOP:
                    env[kid] = TOP
                else:
                    env[kid] = (cur[0] + d[0], cur[1] + d[1]) if e.op == '+=' else (cur[0] - d[1], cur[1] - d[0])
            return env
        if e.kind == 'UnaryOperator' and e.op in ('++', '--'):
            l = strip(e.kids[0])
            if l.kind == 'DeclRefExpr' and l.refid == kid:
                cur = env.get(kid, TOP)
                env = dict(env)
                env[kid] = TOP if cur == TOP else ((cur[0] + 1, cur[1] + 1) if e.op == '++' else (cur[0] - 1, cur[1] - 1))
            return env
        # anything else touching kid -> TOP
        for n in s0.walk():
            if n.kind in ('BinaryOperator', 'CompoundAssignOperator') and n.op in ('=', '*=', '/=', '<<=', '>>='):
                l = strip(n.kids[0])
                if l.kind == 'DeclRefExpr' and l.refid == kid:
                    env = dict(env)
                    env[kid] = TOP
        return env

    def refine(self, cond, env, kid, truth):
        """interval refinement for comparisons of kid with a constant; None if infeasible"""
        c = strip(cond, casts=True)
        if c.kind == 'BinaryOperator' and c.op in ('<', '>', '<=', '>=', '==', '!='):
            l, r = strip(c.kids[0], casts=True), strip(c.kids[1], casts=True)
            if l.kind == 'DeclRefExpr' and l.refid == kid:
                rv = self.expr(r, env)
                if rv[0] == rv[1] and rv != TOP:
                    v = rv[0]
                    lo, hi = env.get(kid, TOP)
                    op = c.op if truth else {'<': '>=', '>': '<=', '<=': '>', '>=': '<', '==': '!=', '!=': '=='}[c.op]
                    if op == '<':
                        hi = min(hi, v - 1)
                    elif op == '<=':
                        hi = min(hi, v)
                    elif op == '>':
                        lo = max(lo, v + 1)
                    elif op == '>=':
                        lo = max(lo, v)
                    elif op == '==':
                        lo, hi = max(lo, v), min(hi, v)
                    if lo > hi:
                        return None
                    e2 = dict(env)
                    e2[kid] = (lo, hi)
                    return e2
        return env


def rule_J4(ctx, prog, label, rule='J4'):
    rr = RuleResult(rule, 'automatically selected table parameter k stays within the code book range [1, 16] for every cache configuration')
    for f in sorted(prog.all_funcs(), key=lambda f: (f.file, f.line)):
        kparams = [p for p in f.params if p.name == 'k' and 'int' in (p.type or '')]
        if not kparams:
            continue
        kid = kparams[0].id
        for comp in [f.body]:
            for idx, s in enumerate(comp.kids):
                if s.kind != 'IfStmt':
                    continue
                c = strip(s.kids[0], casts=True)
                if not (c.kind == 'BinaryOperator' and c.op == '==' and strip(c.kids[0], casts=True).kind == 'DeclRefExpr' and
                        strip(c.kids[0], casts=True).refid == kid and int_value(c.kids[1]) == 0):
                    continue
                rr.instances += 1
                I = Intervals(prog, f)
                env = I.stmt(s.kids[1], {kid: (0, 0)}, kid)
                # following clamp statements that only assign k
                for t in comp.kids[idx + 1:]:
                    if t.kind == 'IfStmt' and _only_assigns(t, kid):
                        env = I.stmt(t, env, kid)
                    else:
                        break
                lo, hi = env.get(kid, TOP)
                ok = lo >= 1 and hi <= 16
                rr.ob(ok, dict(function=f.name, interval_of_k=[lo if lo > -INF else '-inf', hi if hi < INF else '+inf']),
                      Finding(rule, '%s|%s' % (rule, f.name), s.loc, f.name,
                              'after automatic selection k lies in [%s, %s]: k = 0 (reached when 0.75 * 2^k * ncols exceeds half the L3 size and m4ri_opt_k returned 1) makes the elimination loop stall, k outside [1,16] indexes outside the code book' % (
                                  lo if lo > -INF else '-inf', hi if hi < INF else '+inf'), {}, label))
    rr.require_floor(7, 'automatic k selections')
    return rr


def _only_assigns(ifs, kid):
    for n in ifs.walk():
        if n.kind == 'CallExpr':
            return False
        if n.kind in ('BinaryOperator',) and n.op == '=':
            l = strip(n.kids[0])
            if not (l.kind == 'DeclRefExpr' and l.refid == kid):
                return False
    return True


def rule_J1(ctx, cfgs, rule='J1'):
    rr = RuleResult(rule, 'every legal configuration of the library type-checks (all units, scalar and OpenMP variants included)')
    for cfg in cfgs:
        prog = ctx.program(cfg)
        rr.instances += len(prog.units)
        for u in prog.units:
            err = prog.errors.get(u)
            rr.ob(err is None, dict(configuration=cfg_id(cfg), unit=u) if u.endswith('mp.c') else None,
                  Finding(rule, '%s|%s|%s' % (rule, cfg_id(cfg), u), u, '-', 'unit %s does not compile in configuration %s: %s' % (u, cfg_id(cfg), (err or '')[-300:]), {}, cfg_id(cfg)))
    return rr


J2_EXEMPT = {'m4ri_mmc_malloc', 'm4ri_mmc_free', 'm4ri_mmc_cleanup', 'm4ri_mmc_calloc', 'mzd_t_malloc', 'mzd_t_free', 'm4ri_fini', 'm4ri_init'}
CACHE_GLOBALS = {'m4ri_mmc_cache', 'mzd_cache', 'current_cache'}


def _is_cache_global(name):
    """the allocator caches and any function-local static of the allocator functions (the eviction cursor), whatever it is called"""
    return name in CACHE_GLOBALS or name.split('.')[0] in J2_EXEMPT


def _norm_summary(S):
    w = set()
    for (r, part) in S.writes:
        if r[0] == 'p':
            w.add(('p', r[1], part))
        elif r[0] == 'g' and not _is_cache_global(r[1]):
            w.add(('g', r[1]))
    rets = set()
    for (r, part) in S.rets:
        if r[0] == 'p':
            rets.add(('p', r[1], part))
        elif r[0] in ('fresh',) or (r[0] == 'g' and _is_cache_global(r[1])):
            rets.add(('fresh',))
        else:
            rets.add((r[0], r[1]))
    fr = set(('p', r[1]) for (r, part) in S.frees if r[0] == 'p')
    return (frozenset(w), frozenset(rets), frozenset(fr))


def rule_J2(ctx, cfgs, rule='J2'):
    rr = RuleResult(rule, 'every function has the same effect summary (parameters written, globals written, origin of the result) in every configuration')
    base = None
    for cfg in cfgs:
        prog = ctx.program(cfg)
        if prog.errors:
            continue
        eff = ctx.effects(prog)
        sums = {}
        for f in prog.all_funcs():
            if f.name in J2_EXEMPT:
                continue
            sums[f.name] = _norm_summary(eff.of(f))
        if base is None:
            base = (cfg, sums)
            continue
        bcfg, bs = base
        for name, s in sorted(sums.items()):
            if name not in bs:
                continue
            rr.instances += 1
            ok = s == bs[name]
            rr.ob(ok, dict(function=name, configurations=[cfg_id(bcfg), cfg_id(cfg)]) if rr.instances % 60 == 1 else None,
                  Finding(rule, '%s|%s' % (rule, name), prog.funcs[name].loc if name in prog.funcs else '-', name,
                          '%s has different effects in %s and %s: %s vs %s' % (name, cfg_id(bcfg), cfg_id(cfg),
                                                                              sorted(map(str, bs[name][0] ^ s[0]))[:4], sorted(map(str, bs[name][1] ^ s[1]))[:4]), {}, cfg_id(cfg)))
    if rr.instances < 150:
        raise AnalysisBroken('J2: only %d function summaries compared' % rr.instances)
    return rr
