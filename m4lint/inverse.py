"""Engine R - structural clauses of the inversion routines (property C05).

R1 (augmented-matrix recipe).  Both general inversion routines work on [A | I]:
   build:    A is copied into / concatenated as the LEFT block, the identity is the RIGHT block, the two blocks do not overlap;
   reduce:   a *full* (reduced) echelon form of the whole augmented matrix is computed (the `full` argument is a non-zero constant);
   extract:  the result is taken from exactly the block the identity was placed in;
   order:    build dominates reduce dominates extract on the CFG, and all three lie on every path to a non-NULL return.
R2 (recursive triangular inversion).  In mzd_trtri_upper the two diagonal blocks tile the diagonal, the off-diagonal block is
   rows(U00) x cols(U11), it is solved from the left with U00 and from the right with U11 *before* either diagonal block is
   inverted in place (both solves dominate both recursive calls), and both diagonal blocks are recursed on.
These are necessary conditions of A*B = I; the products themselves are value level."""
from .ast import strip, callee_name, int_value, pp, is_null
from .cfg import cfg_of
from .driver import Finding, RuleResult
from .frontend import AnalysisBroken
from .symbolic import FuncSym, Lin

ECHELONIZERS = {'mzd_echelonize_m4ri': 1, 'mzd_echelonize_naive': 1, 'mzd_echelonize': 1, 'mzd_echelonize_pluq': 1,
                '_mzd_echelonize_m4ri': 1, 'mzd_gauss_delayed': 2}


def _node_of(g, ast):
    best = None
    for n in g.nodes:
        if n.ast is not None and n.kind in ('stmt', 'branch', 'switch', 'noreturn') and any(x is ast for x in n.ast.walk()):
            best = n
    return best


def _var(e):
    e0 = strip(e, casts=True)
    return e0.refid if (e0 is not None and e0.kind == 'DeclRefExpr') else None


def _square(l, A):
    """under the precondition `A square` identify A.ncols with A.nrows"""
    return l.subst('%s.ncols' % A, Lin.atom('%s.nrows' % A))


def _nonneg_with_width_axiom(d, A):
    """d >= 0 using 64*X.width >= X.ncols (constructor invariant of every matrix) and squareness of A"""
    d = _square(d, A)
    w = d.t.get('%s.width' % A, 0)
    n = d.t.get('%s.nrows' % A, 0)
    rest = dict((k, v) for k, v in d.t.items() if k not in ('%s.width' % A, '%s.nrows' % A))
    if rest:
        return False
    # d = w*width + n*nrows + c  with  64*width >= nrows >= 0
    if w >= 0 and n >= 0 and d.c >= 0:
        return True
    if w > 0 and n < 0 and w % 64 == 0 and (w // 64) + n >= 0 and d.c >= 0:
        return True
    return False


def rule_R1(ctx, prog, label, rule='R1'):
    rr = RuleResult(rule, 'augmented-matrix recipe of the inversion routines: A is the left block, the identity the disjoint right block, the whole is '
                          'fully reduced, the result is read from the identity block; build dominates reduce dominates extract')
    for fname in ('mzd_inv_m4ri', 'mzd_invert_naive'):
        f = prog.funcs.get(fname)
        if f is None or f.body is None:
            raise AnalysisBroken('R1: %s vanished' % fname)
        fs = FuncSym(f)
        g = cfg_of(f)
        dom = g.dominators()
        A = f.params[1].name
        Aid = f.params[1].id
        out_id = f.params[0].id
        calls = [c for c in f.body.find('CallExpr')]
        rr.instances += 1
        problems = []
        build_nodes, reduce_node, extract_node = [], None, None
        red = [c for c in calls if callee_name(c) in ECHELONIZERS]
        if len(red) != 1:
            raise AnalysisBroken('R1: %s has %d elimination calls - recipe not recognised' % (fname, len(red)))
        red = red[0]
        aug = _var(red.kids[1])
        fullarg = red.kids[1 + ECHELONIZERS[callee_name(red)]] if len(red.kids) > 1 + ECHELONIZERS[callee_name(red)] else None
        fv = int_value(fullarg) if fullarg is not None else None
        if fv is None or fv == 0:
            problems.append('the elimination `%s` is not asked for the reduced (full) echelon form' % pp(red)[:60])
        reduce_node = _node_of(g, red)
        # the table parameter handed to the elimination is admissible for it (0 = automatic, or 1..10 so that 6k <= 64)
        kpos = {'mzd_echelonize_m4ri': 3, '_mzd_echelonize_m4ri': 3}.get(callee_name(red))
        if kpos is not None and len(red.kids) > kpos:
            from .intervals import Interp, INF
            got = {}

            def on_expr(e, env, it):
                if e is red:
                    got['iv'] = it.ev(red.kids[kpos], env)
            it = Interp(f, {}, lambda e, iv: None, prog=prog, allow_loops=True, on_expr=on_expr)
            it.stmt(f.body, dict(it.env0))
            iv = got.get('iv')
            if iv is None or iv[0] < 0 or iv[1] > 10:
                problems.append('the table parameter `%s` handed to %s ranges over %s; the elimination reads strips of 6k columns with one 64-bit read, so only 0 (automatic) and 1..10 are admissible'
                                % (pp(red.kids[kpos])[:20], callee_name(red), ('[%s, %s]' % (iv[0] if iv[0] > -INF else '-inf', iv[1] if iv[1] < INF else 'inf')) if iv else 'an unknown interval'))
        augdef = fs.single_def(aug) if aug is not None else None
        augdef = strip(augdef, casts=True) if augdef is not None else None
        if augdef is None or augdef.kind != 'CallExpr':
            raise AnalysisBroken('R1: the augmented matrix of %s has no single creating call' % fname)
        n_rows = Lin.atom('%s.nrows' % A)
        if callee_name(augdef) == 'mzd_concat':
            # [A | I]: left operand is A, right operand is the identity parameter
            l, r_ = _var(augdef.kids[2]), _var(augdef.kids[3])
            if l != Aid:
                problems.append('the left block of the augmented matrix is `%s`, not %s' % (pp(augdef.kids[2])[:20], A))
            ident_name = pp(strip(augdef.kids[3], casts=True))
            build_nodes.append(_node_of(g, augdef))
            ex = [c for c in calls if callee_name(c) == 'mzd_submatrix' and _var(c.kids[2]) == aug]
            if len(ex) != 1:
                raise AnalysisBroken('R1: %s: extraction from the augmented matrix not recognised' % fname)
            ex = ex[0]
            lowr, lowc, highr, highc = [_square(fs.sym(x), A) for x in ex.kids[3:7]]
            want_c = _square(Lin.atom('%s.ncols' % A), A)
            if not (lowr == Lin(0) and highr == n_rows):
                problems.append('rows [%r, %r) are extracted, expected [0, %s.nrows)' % (lowr, highr, A))
            if not (lowc == want_c):
                problems.append('the extracted block starts at column %r, the identity was placed at column %s.ncols' % (lowc, A))
            if not (highc - lowc == want_c):
                problems.append('the extracted block is %r columns wide, expected %s.ncols' % (highc - lowc, A))
            extract_node = _node_of(g, ex)
        elif callee_name(augdef) == 'mzd_init':
            wins = {}
            for vid, ds in fs.defs.items():
                d = fs.single_def(vid)
                d0 = strip(d, casts=True) if d is not None else None
                if d0 is not None and d0.kind == 'CallExpr' and callee_name(d0) in ('mzd_init_window', 'mzd_init_window_const') and _var(d0.kids[1]) == aug:
                    wins[vid] = [fs.sym(x) for x in d0.kids[2:6]]
            cps = [c for c in calls if callee_name(c) == 'mzd_copy' and _var(c.kids[2]) == Aid and _var(c.kids[1]) in wins]
            ids_ = [c for c in calls if callee_name(c) == 'mzd_set_ui' and _var(c.kids[1]) in wins and int_value(c.kids[2]) == 1]
            if len(cps) != 1 or len(ids_) != 1:
                raise AnalysisBroken('R1: %s: placement of A / of the identity in the augmented matrix not recognised' % fname)
            aw, bw = wins[_var(cps[0].kids[1])], wins[_var(ids_[0].kids[1])]
            awq = [_square(x, A) for x in aw]
            bwq = [_square(x, A) for x in bw]
            if not (awq[0] == Lin(0) and awq[1] == Lin(0) and awq[2] == n_rows and awq[3] == n_rows):
                problems.append('A is copied into the block rows [%r, %r) x columns [%r, %r), expected the leading n x n block' % (awq[0], awq[2], awq[1], awq[3]))
            if not (bwq[0] == Lin(0) and bwq[2] == n_rows and (bwq[3] - bwq[1]) == n_rows):
                problems.append('the identity block is rows [%r, %r), %r columns wide; expected n rows and n columns' % (bwq[0], bwq[2], bwq[3] - bwq[1]))
            if not _nonneg_with_width_axiom(bw[1] - aw[3], A):
                problems.append('the identity block (from column %r) is not provably to the right of the block holding A (up to column %r)' % (bw[1], aw[3]))
            # the augmented matrix is wide enough
            shape_c = fs.sym(augdef.kids[2])
            if not _nonneg_with_width_axiom(shape_c - bw[3], A):
                problems.append('the augmented matrix (%r columns) does not provably contain the identity block (up to column %r)' % (shape_c, bw[3]))
            build_nodes += [_node_of(g, cps[0]), _node_of(g, ids_[0])]
            ex = [c for c in calls if callee_name(c) == 'mzd_copy' and _var(c.kids[1]) == out_id and _var(c.kids[2]) in wins]
            if len(ex) != 1:
                raise AnalysisBroken('R1: %s: extraction of the result not recognised' % fname)
            if _var(ex[0].kids[2]) != _var(ids_[0].kids[1]):
                problems.append('the result is copied from `%s`, but the identity was placed in `%s`' % (pp(ex[0].kids[2])[:20], pp(ids_[0].kids[1])[:20]))
            ex = ex[0]
            extract_node = _node_of(g, ex)
        else:
            raise AnalysisBroken('R1: %s builds its augmented matrix with %s - recipe not recognised' % (fname, callee_name(augdef)))
        # order
        if any(b is None for b in build_nodes) or reduce_node is None or extract_node is None:
            raise AnalysisBroken('R1: %s: recipe statements not found in the CFG' % fname)
        for b in build_nodes:
            if b.id not in dom.get(reduce_node.id, ()):
                problems.append('the elimination is reachable without `%s` having run' % pp(b.ast)[:50])
        if reduce_node.id not in dom.get(extract_node.id, ()):
            problems.append('the result is extracted on a path that did not run the elimination')
        # every return of a non-NULL value is dominated by the extraction
        # the variable the extraction assigns (`INV = mzd_submatrix(..)` / `result = ..`): elsewhere it only ever holds NULL
        ex_var = None
        if extract_node.ast is not None:
            for a_ in extract_node.ast.walk():
                if a_.kind == 'BinaryOperator' and a_.op == '=' and strip(a_.kids[0]).kind == 'DeclRefExpr' and any(x is ex for x in a_.kids[1].walk()):
                    ex_var = strip(a_.kids[0]).refid
                if a_.kind == 'VarDecl' and a_.kids and a_.init and any(x is ex for x in a_.kids[-1].walk()):
                    ex_var = a_.id
        for r in f.body.find('ReturnStmt'):
            if r.kids and not is_null(r.kids[0]):
                rn = g.stmt_node.get(r.uid)
                if rn is not None and extract_node.id not in dom.get(rn.id, ()):
                    rv = strip(r.kids[0], casts=True)
                    if rv.kind == 'DeclRefExpr' and ex_var is not None and rv.refid == ex_var and rv.refid not in [p_.id for p_ in f.params] and \
                       all(is_null(d_) or any(x is ex for x in d_.walk()) for d_ in fs.defs.get(rv.refid, [])):
                        continue      # single-exit layout: on the paths round the extraction the result variable is still NULL
                    problems.append('`%s` is reachable without the extraction' % pp(r)[:40])
        rr.ob(not problems, dict(function=fname, augmented=pp(augdef)[:60], reduce=pp(red)[:50]),
              Finding(rule, '%s|%s' % (rule, fname), f.loc, fname, 'inversion recipe broken: ' + '; '.join(problems[:3]), {}, label))
    return rr


def rule_R2(ctx, prog, label, rule='R2'):
    rr = RuleResult(rule, 'recursive triangular inversion: diagonal blocks tile the diagonal, the off-diagonal block is solved with both '
                          'before either is inverted in place, both are recursed on')
    f = prog.funcs.get('mzd_trtri_upper')
    if f is None or f.body is None:
        raise AnalysisBroken('R2: mzd_trtri_upper vanished')
    fs = FuncSym(f)
    g = cfg_of(f)
    dom = g.dominators()
    U = f.params[0]
    wins = {}
    for vid, ds in fs.defs.items():
        d = fs.single_def(vid)
        d0 = strip(d, casts=True) if d is not None else None
        if d0 is not None and d0.kind == 'CallExpr' and callee_name(d0) in ('mzd_init_window', 'mzd_init_window_const') and _var(d0.kids[1]) == U.id:
            wins[vid] = [fs.sym(x) for x in d0.kids[2:6]]
    calls = list(f.body.find('CallExpr'))
    rec = [c for c in calls if callee_name(c) == 'mzd_trtri_upper' and _var(c.kids[1]) in wins]
    left = [c for c in calls if callee_name(c) in ('_mzd_trsm_upper_left', 'mzd_trsm_upper_left')]
    right = [c for c in calls if callee_name(c) in ('_mzd_trsm_upper_right', 'mzd_trsm_upper_right')]
    rr.instances += 1
    if len(rec) != 2 or len(left) != 1 or len(right) != 1:
        raise AnalysisBroken('R2: recursion of mzd_trtri_upper not recognised (%d recursive calls, %d/%d solves)' % (len(rec), len(left), len(right)))
    problems = []
    n = Lin.atom('%s.nrows' % U.name)
    d0, d1 = sorted([wins[_var(c.kids[1])] for c in rec], key=lambda w: (0 if w[0] == Lin(0) else 1))
    if not (d0[0] == Lin(0) and d0[1] == Lin(0) and d0[2] == d0[3] and d1[0] == d0[2] and d1[1] == d0[3] and d1[2] == d1[3] and
            (d1[2] == n or d1[2] == Lin.atom('%s.ncols' % U.name))):
        problems.append('the blocks inverted recursively, rows/cols [%r,%r) and [%r,%r), do not tile the diagonal [0, n)' % (d0[0], d0[2], d1[0], d1[2]))
    lw, lo = _var(left[0].kids[1]), _var(left[0].kids[2])
    rw, ro = _var(right[0].kids[1]), _var(right[0].kids[2])
    if lo != ro or lo not in wins:
        problems.append('the two solves do not update the same off-diagonal block')
    else:
        o = wins[lo]
        if lw not in wins or wins[lw] != d0:
            problems.append('the left solve does not use the leading diagonal block')
        if rw not in wins or wins[rw] != d1:
            problems.append('the right solve does not use the trailing diagonal block')
        if not (o[0] == d0[0] and o[2] == d0[2] and o[1] == d1[1] and o[3] == d1[3]):
            problems.append('the off-diagonal block is rows [%r,%r) x columns [%r,%r), expected rows of the leading and columns of the trailing block' % (o[0], o[2], o[1], o[3]))
    for s_ in (left[0], right[0]):
        sn = _node_of(g, s_)
        for r_ in rec:
            rn = _node_of(g, r_)
            if sn is None or rn is None:
                raise AnalysisBroken('R2: statements not found in the CFG')
            if sn.id not in dom.get(rn.id, ()):
                problems.append('`%s` does not run before `%s`: the solve would use an already inverted block' % (pp(s_)[:40], pp(r_)[:30]))
    rr.ob(not problems, dict(function=f.name, diagonal=[repr(d0[2]), repr(d1[2])]),
          Finding(rule, '%s|mzd_trtri_upper' % rule, f.loc, f.name, 'recursive triangular inversion broken: ' + '; '.join(problems[:3]), {}, label))
    return rr
