"""Engine E: resource typestate on the CFG (E1 pairing, kinds, double release, use after release),
E2 constructor/destructor agreement, E5 cache typestate obligations.

Path-sensitive: the abstract state at a CFG node is a *set of stores*; a store maps handles (local
variables, access paths under them, summary handles for local arrays) to resource ids, resource ids
to states, flag variables (integer locals only ever assigned literals) to constants and parameters to
null/non-null facts. Branches on handles, flags and conjunctions of these prune stores.
"""
from .ast import strip, callee_name, pp, is_null, int_value, type_is_pointer
from .cfg import cfg_of, forward, Edges, NORETURN
from .driver import RuleResult, Finding
from .frontend import AnalysisBroken

ACQ = {
    'mzd_init': 'mzd', 'mzd_init_window': 'win', 'mzd_init_window_const': 'win',
    'mzp_init': 'mzp', 'mzp_init_window': 'mzpwin',
    'm4ri_mm_malloc': 'mm', 'm4ri_mm_calloc': 'mm', 'm4ri_mm_malloc_aligned': 'mm',
    'm4ri_mmc_malloc': 'mmc', 'm4ri_mmc_calloc': 'mmc',
    'malloc': 'libc', 'calloc': 'libc', '_mm_malloc': 'mmraw',
    'ple_table_init': 'pletab', 'heap_init': 'heap', 'djb_init': 'djb', 'djb_compile': 'djb',
    'fopen': 'FILE', 'png_create_read_struct': 'pngr', 'png_create_write_struct': 'pngw',
    'png_create_info_struct': 'pnginfo', 'mzd_t_malloc': 'mzdhdr',
}
REL = {
    'mzd_free': ({'mzd', 'win'}, 0), 'mzp_free': ({'mzp'}, 0), 'mzp_free_window': ({'mzpwin'}, 0),
    'm4ri_mm_free': ({'mm'}, 0), 'm4ri_mmc_free': ({'mmc'}, 0), 'free': ({'libc'}, 0), '_mm_free': ({'mmraw'}, 0),
    'ple_table_free': ({'pletab'}, 0), 'heap_free': ({'heap'}, 0), 'djb_free': ({'djb'}, 0),
    'fclose': ({'FILE'}, 0), 'mzd_t_free': ({'mzdhdr'}, 0),
}
# release by address: f(&a, &b, ...)
REL_ADDR = {'png_destroy_read_struct': {'pngr', 'pnginfo'}, 'png_destroy_write_struct': {'pngw', 'pnginfo'}}
RET_KIND = {'mzd_t *': 'mzd', 'mzp_t *': 'mzp', 'djb_t *': 'djb', 'ple_table_t *': 'pletab', 'heap_t *': 'heap'}

LIVE, RELEASED, ESCAPED = 'Live', 'Released', 'Escaped'
MAX_STORES = 4000


class Store(object):
    __slots__ = ('h', 'r', 'fl', '_fz')

    def __init__(self, h=None, r=None, fl=None):
        self.h = h or {}     # handle key -> rid | None (NULL)
        self.r = r or {}     # rid -> (state, kind)
        self.fl = fl or {}   # flag var id -> const ; 'null:<param id>' -> True/False
        self._fz = None

    def copy(self):
        return Store(dict(self.h), dict(self.r), dict(self.fl))

    def freeze(self):
        if self._fz is None:
            self._fz = (frozenset(self.h.items()), frozenset(self.r.items()), frozenset(self.fl.items()))
        return self._fz

    def __hash__(self):
        return hash(self.freeze())

    def __eq__(self, o):
        return self.freeze() == o.freeze()


class FuncTypestate(object):
    def __init__(self, eng, func):
        self.eng = eng
        self.prog = eng.prog
        self.f = func
        self.cfg = cfg_of(func)
        self.reports = {}      # (kind, key...) -> dict
        self.acquired = {}     # rid -> (call node, kind, handle text)
        self.local_ids = {}
        for p in func.params:
            self.local_ids[p.id] = ('p', p)
        for n in func.body.walk():
            if n.kind == 'VarDecl' and n.storage not in ('static', 'extern'):
                self.local_ids[n.id] = ('l', n)
        self.flags = self._find_flags()
        self.array_loops = self._find_array_loops()

    # ------------------------------------------------------------------ pre-scans
    def _find_flags(self):
        cand = {}
        for vid, (k, n) in self.local_ids.items():
            t = n.dtype or n.type or ''
            if k == 'l' and t.replace('const', '').strip() in ('int', 'unsigned int', '_Bool', 'long'):
                cand[vid] = True
        for n in self.f.body.walk():
            if n.kind == 'VarDecl' and n.id in cand:
                if n.kids and int_value(n.kids[-1]) is None:
                    cand[n.id] = False
            elif n.kind == 'BinaryOperator' and n.op == '=':
                l = strip(n.kids[0])
                if l.kind == 'DeclRefExpr' and l.refid in cand and int_value(n.kids[1]) is None:
                    cand[l.refid] = False
            elif n.kind in ('CompoundAssignOperator',) or (n.kind == 'UnaryOperator' and n.op in ('++', '--', '&')):
                l = strip(n.kids[0])
                if l.kind == 'DeclRefExpr' and l.refid in cand:
                    cand[l.refid] = False
        flags = set(v for v, ok in cand.items() if ok)
        # keep only flags that guard a resource operation (condition of an if/loop whose body acquires/releases)
        relevant = set()
        for n in self.f.body.walk():
            if n.kind in ('IfStmt', 'ConditionalOperator'):
                body_has = False
                for c in n.kids[1:]:
                    for x in c.walk():
                        if x.kind == 'CallExpr':
                            cn = callee_name(x)
                            if cn in ACQ or cn in REL or cn in REL_ADDR or cn in self.eng.derived or x.kind == 'ReturnStmt':
                                body_has = True
                                break
                        if x.kind in ('ReturnStmt', 'GotoStmt'):
                            body_has = True
                            break
                    if body_has:
                        break
                if body_has:
                    for x in n.kids[0].walk():
                        if x.kind == 'DeclRefExpr' and x.refid in flags:
                            relevant.add(x.refid)
        return relevant

    def _find_array_loops(self):
        """loops whose body acquires into / releases from a local array element indexed by the loop:
        map branch-cnode id -> list of (key, 'acq'|'rel', bound text)."""
        out = {}
        for n in self.f.body.walk():
            if n.kind != 'ForStmt':
                continue
            cond = n.kids[2]
            body = n.kids[4]
            items = []
            for c in body.walk():
                if c.kind == 'BinaryOperator' and c.op == '=':
                    k = self.hkey(c.kids[0])
                    if k and k.endswith('[]') and self._acquire_of(strip(c.kids[1], casts=True)) is not None:
                        items.append((k, 'acq'))
                elif c.kind == 'CallExpr' and (callee_name(c) in REL or self.eng.derived_release(callee_name(c), self.f) is not None):
                    idx = REL.get(callee_name(c), (None, self.eng.derived_release(callee_name(c), self.f)))[1]
                    if idx is not None and 1 + idx < len(c.kids):
                        k = self.hkey(c.kids[1 + idx])
                        if k and k.endswith('[]'):
                            items.append((k, 'rel'))
            if items and cond.kind != 'Null':
                kinds = {}
                for k, w in items:
                    kinds.setdefault(k, set()).add(w)
                b = self.cfg.stmt_node.get(cond.uid)
                if b is not None:
                    bound = pp(strip(cond).kids[1]) if strip(cond).kind == 'BinaryOperator' else pp(cond)
                    out[b.id] = [(k, list(ws)[0], bound) for k, ws in kinds.items() if len(ws) == 1]
        return out

    # ------------------------------------------------------------------ handles
    def hkey(self, e):
        e = strip(e, casts=True)
        if e is None:
            return None
        if e.kind == 'DeclRefExpr' and e.refid in self.local_ids:
            return 'v:%s:%s' % (e.ref, e.refid[-5:])
        if e.kind == 'MemberExpr':
            b = self.hkey(e.kids[0])
            return None if b is None else b + ('->' if e.arrow else '.') + (e.name or '?')
        if e.kind == 'ArraySubscriptExpr':
            b = self.hkey(e.kids[0])
            return None if b is None else (b if b.endswith('[]') else b + '[]')
        if e.kind == 'UnaryOperator' and e.op == '*':
            b = self.hkey(e.kids[0])
            return None if b is None else '*' + b
        return None

    def is_param_handle(self, key):
        if not key.startswith('v:'):
            return False
        vid = key.split(':')[2].split('-')[0].split('.')[0].split('[')[0]
        for i, (k, n) in self.local_ids.items():
            if i.endswith(vid) and key.startswith('v:%s:' % n.name):
                return k == 'p'
        return False

    def root_var(self, key):
        """('p'|'l', decl) of the variable an access-path key starts from."""
        k = key.lstrip('*')
        parts = k.split(':')
        name, suffix = parts[1], parts[2][:5]
        for i, (kind, n) in self.local_ids.items():
            if n.name == name and i.endswith(suffix):
                return kind, n
        return None, None

    # ------------------------------------------------------------------ acquire classification
    def _acquire_of(self, call):
        """kind if `call` acquires a fresh resource, else None.  ('alias', i) if result is arg i."""
        if call is None or call.kind != 'CallExpr':
            return None
        name = callee_name(call)
        if name is None:
            return None
        if name in ACQ:
            return ACQ[name]
        d = self.eng.derived.get(name)
        if d is None:
            return None
        kind, dest = d
        if dest is None:
            return kind
        if 1 + dest < len(call.kids) and is_null(call.kids[1 + dest]):
            return kind
        return ('alias', dest)

    # ------------------------------------------------------------------ reporting
    def report(self, what, node, rid=None, extra=None, key=None):
        acq = self.acquired.get(rid)
        sig = (what, key or (acq[2] if acq else pp(node)[:40]), acq[1] if acq else '')
        if sig in self.reports:
            return
        d = dict(what=what, node=node, rid=rid, acq=acq, extra=extra or {})
        self.reports[sig] = d

    # ------------------------------------------------------------------ transfer
    def run(self):
        init = frozenset([Store()])

        def join(a, b):
            u = a | b
            if len(u) > MAX_STORES:
                raise AnalysisBroken('typestate: more than %d stores at a node in %s' % (MAX_STORES, self.f.name))
            return u

        def transfer(node, stores):
            if node.kind in ('entry', 'label'):
                return stores
            if node.kind == 'exit':
                return stores
            if node.kind == 'noreturn':
                return frozenset()
            if node.kind == 'branch':
                t, f = set(), set()
                for s in stores:
                    s2 = self.exec_expr_stmt(node.ast, s)
                    for truth, acc in ((True, t), (False, f)):
                        r = self.refine(node.ast, truth, s2)
                        if r is not None:
                            acc.add(r)
                # array loops: the loop is assumed to run as often as its sibling (bounds compared separately)
                al = self.array_loops.get(node.id)
                if al:
                    f2 = set()
                    for s in f:
                        ok = True
                        for (k, w, _b) in al:
                            rid = s.h.get(k)
                            st = s.r.get(rid, (None,))[0] if rid else None
                            if w == 'acq' and st != LIVE and st != ESCAPED:
                                ok = False
                            if w == 'rel' and st == LIVE:
                                ok = False
                        if ok:
                            f2.add(s)
                    f = f2
                return Edges({True: frozenset(t), False: frozenset(f)})
            if node.kind == 'switch':
                return frozenset(self.exec_expr_stmt(node.ast, s) for s in stores)
            out = set()
            for s in stores:
                out.add(self.exec_stmt(node.ast, s, node))
            return frozenset(out)
        IN = forward(self.cfg, init, transfer, join)
        # leaks at exits: per predecessor edge of exit
        ex = self.cfg.exit
        for (label, pred) in ex.preds:
            if pred.id not in IN:
                continue
            stores = IN[pred.id]
            # state *after* pred: recompute
            outs = transfer(pred, stores)
            if isinstance(outs, Edges):
                outs = outs.get(label, frozenset())
            for s in outs:
                for rid, (st, kind) in s.r.items():
                    if st == LIVE:
                        if self._reachable_from_escaped(s, rid):
                            continue
                        self.report('leak', pred.ast if pred.ast is not None else self.f.node, rid,
                                    dict(exit=(pred.ast.loc if pred.ast is not None else 'end of function'),
                                         exit_stmt=pp(pred.ast)[:80] if pred.ast is not None else 'end'))
        return self

    def _reachable_from_escaped(self, s, rid):
        """A live resource stored under an access path rooted at an escaped/param container is owned by it."""
        for k, r in s.h.items():
            if r != rid:
                continue
            if '->' in k or '.' in k.split(':', 2)[-1] or k.startswith('*'):
                base = k.lstrip('*').split('->')[0].split('[')[0].split('.')[0]
                kind, _n = self.root_var(base)
                if kind == 'p':
                    return True
                brid = s.h.get(base)
                if brid and s.r.get(brid, (None,))[0] == ESCAPED:
                    return True
        return False

    # -- expression-statement execution ---------------------------------------------------
    def exec_expr_stmt(self, e, s):
        return self.exec_stmt(e, s, None)

    def exec_stmt(self, stmt, s, cnode):
        s = s.copy()
        if stmt is None:
            return s
        if stmt.kind == 'ReturnStmt':
            if stmt.kids:
                v = self.eval(stmt.kids[0], s)
                if v and v[0] == 'rid':
                    self.escape(s, v[1])
            s._fz = None
            return s
        if stmt.kind == 'DeclStmt':
            for d in stmt.kids:
                if d.kind == 'VarDecl':
                    key = 'v:%s:%s' % (d.name, d.id[-5:])
                    if d.kids and d.kids[-1].kind not in ('Null',) and d.init:
                        self._old_state = s.r.get(s.h.get(key), (None,))[0] if s.h.get(key) is not None else None
                        v = self.eval(d.kids[-1], s)
                        self.bind(s, key, v, d, d.kids[-1])
                        self._old_state = None
                        if d.id in self.flags:
                            iv = int_value(d.kids[-1])
                            if iv is not None:
                                s.fl[d.id] = iv
                    else:
                        # uninitialised declaration inside a loop body: forget
                        if key in s.h:
                            del s.h[key]
            s._fz = None
            return s
        if stmt.kind == 'GotoStmt':
            return s
        self.eval(stmt, s)
        s._fz = None
        return s

    def escape(self, s, rid):
        if rid in s.r and s.r[rid][0] == LIVE:
            s.r[rid] = (ESCAPED, s.r[rid][1])
            # members stored under it escape with it: handled lazily by _reachable_from_escaped

    def bind(self, s, key, v, node, rhs):
        """handle key := value v (None unknown, ('null',), ('rid', r))."""
        old = s.h.get(key)
        newrid = v[1] if v and v[0] == 'rid' else None
        if old is not None and old != newrid and s.r.get(old, (None,))[0] == LIVE:
            # overwriting the last handle of a live resource?
            others = [k for k, r in s.h.items() if r == old and k != key]
            if not others:
                self.report('overwrite-live', node, old, dict(at=node.loc))
        if old is not None and old == newrid and not key.endswith('[]') and (getattr(self, '_old_state', None) or s.r.get(old, (None,))[0]) == LIVE \
                and rhs is not None and self._acquire_of(strip(rhs, casts=True)) not in (None,) and not isinstance(self._acquire_of(strip(rhs, casts=True)), tuple):
            # same acquisition site executed again while the previous instance is still live (loop)
            self.report('overwrite-live', node, old, dict(at=node.loc, note='re-acquired in a loop while live'))
        if v is None:
            if key in s.h:
                del s.h[key]
            # unknown value assigned: drop sub-paths
        elif v[0] == 'null':
            s.h[key] = None
        else:
            s.h[key] = v[1]
        # drop access paths below a re-bound variable
        pref1, pref2 = key + '->', key + '.'
        for k in [k for k in s.h if k.startswith(pref1) or k.startswith(pref2) or k.startswith(key + '[]')]:
            if k != key:
                del s.h[k]

    def eval(self, e, s):
        """Evaluate expression for its resource effects. Returns None | ('null',) | ('rid', rid)."""
        if e is None:
            return None
        k = e.kind
        if k in ('ImplicitCastExpr', 'ParenExpr', 'CStyleCastExpr', 'ConstantExpr'):
            return self.eval(e.kids[0], s) if e.kids else None
        if k == 'IntegerLiteral':
            return ('null',) if e.val == '0' else None
        if k == 'GNUNullExpr':
            return ('null',)
        if k in ('DeclRefExpr', 'MemberExpr', 'ArraySubscriptExpr') or (k == 'UnaryOperator' and e.op == '*'):
            # evaluate sub-expressions with calls (indices)
            for c in e.kids:
                if k == 'ArraySubscriptExpr' or k == 'MemberExpr' or k == 'UnaryOperator':
                    self.use(c, s)
            key = self.hkey(e)
            if key is not None and key in s.h:
                rid = s.h[key]
                if rid is None:
                    return ('null',)
                return ('rid', rid)
            return None
        if k == 'BinaryOperator' and e.op == '=':
            k0 = self.hkey(e.kids[0])
            self._old_state = s.r.get(s.h.get(k0), (None,))[0] if (k0 is not None and s.h.get(k0) is not None) else None
            v = self.eval(e.kids[1], s)
            lhs = e.kids[0]
            for c in strip(lhs).kids:
                self.use(c, s)
            key = self.hkey(lhs)
            if key is not None:
                self.bind(s, key, v, e, e.kids[1])
                self._old_state = None
                l = strip(lhs)
                if l.kind == 'DeclRefExpr' and l.refid in self.flags:
                    iv = int_value(e.kids[1])
                    if iv is not None:
                        s.fl[l.refid] = iv
                    else:
                        s.fl.pop(l.refid, None)
                if l.kind == 'DeclRefExpr' and self.local_ids.get(l.refid, (None,))[0] == 'p':
                    s.fl.pop('null:' + l.refid, None)
                # storing into memory under a parameter => escapes
                kind, _n = self.root_var(key)
                if v and v[0] == 'rid' and kind == 'p' and ('->' in key or key.endswith('[]') or key.startswith('*')):
                    self.escape(s, v[1])
            else:
                # store to memory we do not model (global, call result ...): escapes
                if v and v[0] == 'rid':
                    self.escape(s, v[1])
            return v
        if k == 'CallExpr':
            return self.call(e, s)
        if k == 'ConditionalOperator':
            self.eval(e.kids[0], s)
            # only one arm is evaluated: run each arm on a copy and merge fresh acquisitions into ONE resource
            sa, sb = s.copy(), s.copy()
            a = self.eval(e.kids[1], sa)
            b = self.eval(e.kids[2], sb)
            fresh = [(r, st) for st_ in (sa, sb) for r, st in st_.r.items() if r not in s.r]
            if fresh:
                rid = 'r%d' % e.uid
                kind = fresh[0][1][1]
                s.r[rid] = (LIVE, kind)
                first = None
                for st_ in (sa, sb):
                    for r in st_.r:
                        if r not in s.r and r in self.acquired and first is None:
                            first = self.acquired[r]
                self.acquired.setdefault(rid, first or (e, kind, pp(e)[:60]))
                return ('rid', rid)
            return a if a and a[0] == 'rid' else b
        if k == 'BinaryOperator' and e.op == ',':
            self.eval(e.kids[0], s)
            return self.eval(e.kids[1], s)
        if k == 'CompoundLiteralExpr' or k == 'InitListExpr':
            r = None
            for c in e.kids:
                v = self.eval(c, s)
                if v and v[0] == 'rid':
                    r = v
            return r
        if k == 'UnaryOperator' and e.op == '&':
            self.eval(e.kids[0], s)
            return None
        for c in e.kids:
            self.use(c, s)
        return None

    def use(self, e, s):
        """Evaluate and flag use-after-release of any handle appearing inside e."""
        v = self.eval(e, s)
        if v and v[0] == 'rid':
            st = s.r.get(v[1], (None,))[0]
            if st == RELEASED:
                self.report('use-after-release', e, v[1], dict(at=e.loc, expr=pp(e)))
        return v

    def call(self, e, s):
        name = callee_name(e)
        args = e.kids[1:]
        vals = []
        for a in args:
            vals.append(self.eval(a, s))
        if name is None:
            return None
        # ---- releases
        rel = REL.get(name)
        idx = None
        kinds = None
        if rel is not None:
            kinds, idx = rel
        else:
            d = self.eng.derived_release(name, self.f)
            if d is not None:
                idx, kinds = d, None
            # a helper that releases several of its arguments (`free_both(P, Q)`)
            for mi in self.eng._rel_multi.get(name, []):
                if mi < len(vals):
                    vm = vals[mi]
                    if vm and vm[0] == 'rid':
                        stm, kindm = s.r.get(vm[1], (None, None))
                        if stm == RELEASED:
                            self.report('double-release', e, vm[1], dict(at=e.loc))
                        elif stm in (LIVE, ESCAPED):
                            s.r[vm[1]] = (RELEASED, kindm)
            if self.eng._rel_multi.get(name):
                return None
            # a helper that releases the elements of arrays handed to it
            for ei in self.eng.derived_release_elems(name, self.f):
                if ei < len(args):
                    ak = self.hkey(args[ei])
                    if ak is not None:
                        ak = ak if ak.endswith('[]') else ak + '[]'
                        rid_ = s.h.get(ak)
                        if rid_ is not None and s.r.get(rid_, (None,))[0] in (LIVE, ESCAPED):
                            s.r[rid_] = (RELEASED, s.r[rid_][1])
        if idx is not None and idx < len(vals):
            v = vals[idx]
            if v and v[0] == 'rid':
                rid = v[1]
                st, kind = s.r.get(rid, (None, None))
                akey = self.hkey(args[idx])
                if st == RELEASED:
                    if not (akey and akey.endswith('[]')):
                        self.report('double-release', e, rid, dict(at=e.loc))
                elif st in (LIVE, ESCAPED):
                    if kinds is not None and kind not in kinds:
                        self.report('kind-mismatch', e, rid, dict(at=e.loc, releaser=name, kind=kind))
                    s.r[rid] = (RELEASED, kind)
                    # members still live under the released container?
                    for k2, r2 in s.h.items():
                        if r2 and r2 != rid and s.r.get(r2, (None,))[0] == LIVE:
                            base = k2.split('->')[0].split('[')[0]
                            if '->' in k2 and s.h.get(base) == rid:
                                self.report('container-freed-with-live-member', e, r2, dict(at=e.loc, member=k2))
            elif v and v[0] == 'null':
                pass
            # other args: plain uses
            for i, v2 in enumerate(vals):
                if i != idx and v2 and v2[0] == 'rid' and s.r.get(v2[1], (None,))[0] == RELEASED:
                    self.report('use-after-release', e, v2[1], dict(at=e.loc, expr=pp(e)[:80]))
            return None
        if name in REL_ADDR:
            for a in args:
                a2 = strip(a, casts=True)
                if a2 is not None and a2.kind == 'UnaryOperator' and a2.op == '&':
                    key = self.hkey(a2.kids[0])
                    rid = s.h.get(key) if key else None
                    if rid:
                        st, kind = s.r.get(rid, (None, None))
                        if st == RELEASED:
                            self.report('double-release', e, rid, dict(at=e.loc))
                        elif st == LIVE:
                            if kind not in REL_ADDR[name]:
                                self.report('kind-mismatch', e, rid, dict(at=e.loc, releaser=name, kind=kind))
                            s.r[rid] = (RELEASED, kind)
            return None
        # ---- uses of released handles as arguments
        for v2 in vals:
            if v2 and v2[0] == 'rid' and s.r.get(v2[1], (None,))[0] == RELEASED:
                self.report('use-after-release', e, v2[1], dict(at=e.loc, expr=pp(e)[:80]))
        # ---- realloc: result replaces arg 0
        if name == 'realloc':
            v = vals[0] if vals else None
            if v and v[0] == 'rid':
                return v
            rid = 'r%d' % e.uid
            s.r[rid] = (LIVE, 'libc')
            self.acquired.setdefault(rid, (e, 'libc', pp(e)[:50]))
            return ('rid', rid)
        # ---- acquires
        acq = self._acquire_of(e)
        if acq is not None and not isinstance(acq, tuple):
            rid = 'r%d' % e.uid
            s.r[rid] = (LIVE, acq)
            self.acquired.setdefault(rid, (e, acq, pp(e)[:60]))
            self.eng.n_acquire_sites.add((self.f.name, e.uid))
            return ('rid', rid)
        if isinstance(acq, tuple):
            i = acq[1]
            return vals[i] if i < len(vals) else None
        # ---- callee stores an argument somewhere that outlives the call => escapes
        esc = self.eng.escaping_params(name, self.f)
        for i, v2 in enumerate(vals):
            if v2 and v2[0] == 'rid' and i in esc:
                self.escape(s, v2[1])
        return None

    # -- branch refinement -------------------------------------------------------------------
    def refine(self, cond, truth, s):
        """Return refined store, or None if the edge is infeasible in this store."""
        s = s.copy()
        ok = self._ref(cond, truth, s)
        if not ok:
            return None
        s._fz = None
        return s

    def _ref(self, c, truth, s):
        c = strip(c, casts=True)
        if c is None:
            return True
        if c.kind == 'CallExpr' and callee_name(c) in ('__builtin_expect',):
            return self._ref(c.kids[1], truth, s)
        if c.kind == 'UnaryOperator' and c.op == '!':
            return self._ref(c.kids[0], not truth, s)
        if c.kind == 'BinaryOperator' and c.op == '&&':
            if truth:
                return self._ref(c.kids[0], True, s) and self._ref(c.kids[1], True, s)
            # false: at least one false; infeasible only if both are definitely true
            a = self._definitely(c.kids[0], s)
            b = self._definitely(c.kids[1], s)
            if a is True and b is True:
                return False
            if a is True:
                return self._ref(c.kids[1], False, s)
            if b is True:
                return self._ref(c.kids[0], False, s)
            return True
        if c.kind == 'BinaryOperator' and c.op == '||':
            if not truth:
                return self._ref(c.kids[0], False, s) and self._ref(c.kids[1], False, s)
            a = self._definitely(c.kids[0], s)
            b = self._definitely(c.kids[1], s)
            if a is False and b is False:
                return False
            if a is False:
                return self._ref(c.kids[1], True, s)
            if b is False:
                return self._ref(c.kids[0], True, s)
            return True
        if c.kind == 'BinaryOperator' and c.op in ('==', '!='):
            a, b = c.kids
            eq = (c.op == '==') == truth
            # handle vs NULL
            for x, y in ((a, b), (b, a)):
                if is_null(y):
                    return self._null_fact(x, eq, s)
            # flag vs constant
            for x, y in ((a, b), (b, a)):
                xs = strip(x, casts=True)
                iv = int_value(y)
                if xs is not None and xs.kind == 'DeclRefExpr' and xs.refid in self.flags and iv is not None:
                    cur = s.fl.get(xs.refid)
                    if cur is not None:
                        return (cur == iv) == eq
                    if eq:
                        s.fl[xs.refid] = iv
                    return True
            return True
        # bare handle / flag as truth value
        xs = c
        if xs.kind == 'DeclRefExpr' and xs.refid in self.flags:
            cur = s.fl.get(xs.refid)
            if cur is not None:
                return bool(cur) == truth
            if not truth:
                s.fl[xs.refid] = 0
            return True
        if self.hkey(xs) is not None or xs.kind == 'DeclRefExpr':
            return self._null_fact(xs, not truth, s)
        return True

    def _definitely(self, c, s):
        t = self._ref(c, True, s.copy())
        f = self._ref(c, False, s.copy())
        if t and not f:
            return True
        if f and not t:
            return False
        return None

    def _null_fact(self, x, isnull, s):
        """Refine with `x is NULL` == isnull. False if infeasible."""
        key = self.hkey(x)
        if key is None:
            return True
        if key in s.h:
            rid = s.h[key]
            if rid is None:
                return isnull
            st = s.r.get(rid, (None,))[0]
            if st in (LIVE, ESCAPED):
                return not isnull
            return True
        xs = strip(x, casts=True)
        if xs.kind == 'DeclRefExpr' and self.local_ids.get(xs.refid, (None,))[0] == 'p':
            fk = 'null:' + xs.refid
            cur = s.fl.get(fk)
            if cur is not None:
                return cur == isnull
            s.fl[fk] = isnull
            return True
        return True


class ResourceEngine(object):
    def __init__(self, ctx, prog):
        self.prog = prog
        self.eff = ctx.effects(prog)
        self.derived = self._derive_allocators()
        self.n_acquire_sites = set()
        self._rel_cache = {}
        self._rel_multi = {}
        self._esc_cache = {}

    def _derive_allocators(self):
        """Functions returning mzd_t*/mzp_t*/...: pure allocators and destination-or-allocate functions,
        read off the effect summaries (origin of the return value)."""
        out = {}
        for f in self.prog.all_funcs():
            kind = RET_KIND.get(f.rettype.replace('const ', '').replace(' const', '').strip())
            if kind is None or f.name in ACQ:
                continue
            rets = self.eff.of(f).rets
            fresh = any(r[0] == 'fresh' or (r[0] == 'g' and r[1] in ('current_cache', 'mzd_cache')) for (r, p) in rets)
            params = sorted(set(r[1] for (r, p) in rets if r[0] == 'p' and p == 'hdr'))
            wins = [r for (r, p) in rets if p == 'win']
            if wins and not params and not fresh:
                out[f.name] = ('win', None)
            elif fresh and not params:
                out[f.name] = (kind, None)
            elif fresh and len(params) == 1:
                out[f.name] = (kind, params[0])
            elif not fresh and len(params) == 1:
                out[f.name] = (kind, params[0])   # pure identity: ('alias') unless NULL is passed
        return out

    def derived_release(self, name, caller):
        if name in REL or name is None:
            return None
        k = (name,)
        if k in self._rel_cache:
            return self._rel_cache[k]
        r = None
        S = self.eff.summary(name, caller)
        if S is not None:
            idx = sorted(set(rt[1] for (rt, p) in S.frees if rt[0] == 'p' and p == 'hdr'))
            if len(idx) == 1:
                r = idx[0]
            elif len(idx) > 1:
                self._rel_multi[name] = idx
        self._rel_cache[k] = r
        return r

    def derived_release_elems(self, name, caller):
        """parameter indices whose *elements* the callee releases: `for (...) release(P[i])` with P a pointer-to-pointer
        parameter (a helper that frees an array of tables).  Syntactic, one level."""
        k = ('elems', name)
        if k in self._rel_cache:
            return self._rel_cache[k]
        out = []
        g = self.prog.resolve(name, caller) if name else None
        if g is not None and g.body is not None and name not in REL:
            pidx = dict((p_.id, i) for i, p_ in enumerate(g.params))
            for c in g.body.find('CallExpr'):
                cn = callee_name(c)
                if cn is None:
                    continue
                ridx = None
                if cn in REL:
                    ridx = REL[cn][1]
                else:
                    ridx = self.derived_release(cn, g)
                if ridx is None or ridx + 1 >= len(c.kids):
                    continue
                a = strip(c.kids[1 + ridx], casts=True)
                if a.kind == 'ArraySubscriptExpr':
                    b = strip(a.kids[0], casts=True)
                    if b.kind == 'DeclRefExpr' and b.refid in pidx and pidx[b.refid] not in out:
                        out.append(pidx[b.refid])
        self._rel_cache[k] = out
        return out

    def escaping_params(self, name, caller):
        S = self.eff.summary(name, caller)
        if S is None:
            return set()
        return set(r[1] for (r, p) in S.escapes if r[0] == 'p')


_KIND_TEXT = {
    'leak': 'resource acquired here is still live at an exit of the function (never released, returned or stored)',
    'overwrite-live': 'handle is overwritten while it is the only reference to a live resource',
    'double-release': 'resource is released twice on some path',
    'use-after-release': 'handle is used after its resource was released',
    'kind-mismatch': 'resource is released with the wrong destructor',
    'container-freed-with-live-member': 'container is released while a member acquired in this function is still live',
}


def rule_E1(ctx, prog, label, only_funcs=None, rule='E1'):
    rr = RuleResult(rule, 'typestate: every acquired handle is released / returned / stored on every path; no double release, use after release, wrong destructor')
    eng = ResourceEngine(ctx, prog)
    rr.extra['derived_allocators'] = {k: list(v) for k, v in sorted(eng.derived.items())}
    nfunc = 0
    for f in prog.all_funcs():
        if only_funcs is not None and f.name not in only_funcs:
            continue
        has = False
        for c in f.body.find('CallExpr'):
            cn = callee_name(c)
            if cn in ACQ or cn in REL or cn in REL_ADDR or cn in eng.derived:
                has = True
                break
        if not has:
            continue
        nfunc += 1
        ts = FuncTypestate(eng, f).run()
        # obligations: one per acquisition site in f + one per release site
        sites = {}
        for rid, (call, kind, text) in ts.acquired.items():
            sites[rid] = (call, kind, text)
        bad_rids = {}
        for sig, d in ts.reports.items():
            bad_rids.setdefault(d['rid'], []).append(d)
        for rid, (call, kind, text) in sorted(sites.items(), key=lambda x: x[1][0].uid):
            ds = bad_rids.get(rid)
            fnd = None
            if ds:
                d = ds[0]
                fnd = Finding(rule, '%s|%s|%s|%s|%s' % (rule, f.name, d['what'], kind, _site_sig(call)), call.loc, f.name,
                              '%s: %s [%s acquired by `%s`%s]' % (d['what'], _KIND_TEXT[d['what']], kind, text,
                                                                   '; ' + ', '.join('%s=%s' % kv for kv in d['extra'].items()) if d['extra'] else ''),
                              dict(acquisition=pp(call), acquisition_loc=call.loc, **{k: str(v) for k, v in d['extra'].items()}), label)
            rr.ob(not ds, dict(function=f.name, kind=kind, acquired=text, site=call.loc, verdict='released/returned/stored on every path'), fnd)
        for sig, d in ts.reports.items():
            if d['rid'] is None or d['rid'] not in sites:
                n = d['node']
                rr.ob(False, None, Finding(rule, '%s|%s|%s|%s' % (rule, f.name, d['what'], pp(n)[:40]), n.loc, f.name,
                                           '%s: %s' % (d['what'], _KIND_TEXT[d['what']]), {k: str(v) for k, v in d['extra'].items()}, label))
        # array bound agreement
        bounds = {}
        for bid, items in ts.array_loops.items():
            for (k, w, b) in items:
                bounds.setdefault(k, {}).setdefault(w, set()).add(b)
        for k, d in bounds.items():
            if 'acq' in d and 'rel' in d:
                ok = d['acq'] == d['rel'] or (len(d['acq']) == 1 and d['acq'] <= d['rel'])
                rr.ob(ok, dict(function=f.name, array=k.split(':')[1], acquire_bound=sorted(d['acq']), release_bound=sorted(d['rel'])),
                      Finding(rule, '%s|%s|array-bound|%s' % (rule, f.name, k.split(':')[1]), f.loc, f.name,
                              'array of resources `%s` is filled over %s but released over %s' % (k.split(':')[1], sorted(d['acq']), sorted(d['rel'])), {}, label))
    rr.instances = len(eng.n_acquire_sites)
    rr.extra['functions_analysed'] = nfunc
    return rr


def _site_sig(call):
    """Signature of an acquisition site without line numbers: callee + pretty-printed arguments."""
    return pp(call)[:70]


# ====================================================================== E5 cache typestate (C14)

def _is_ptr(t):
    """pointer type, also when the pointer itself is qualified (`T *const p`)"""
    t = (t or '').rstrip()
    for _ in range(3):
        for q in ('const', 'restrict', '__restrict', 'volatile'):
            if t.endswith(q) and not (t[:-len(q)][-1:].isalnum() or t[:-len(q)][-1:] == '_'):
                t = t[:-len(q)].rstrip()
    return t.endswith('*')


def _npp(e, fs, depth=0):
    """pp with single-definition pointer locals replaced by their defining expression (alias-neutral matching)"""
    e = strip(e, casts=True)
    if e is None:
        return ''
    if e.kind == 'DeclRefExpr' and e.refkind == 'VarDecl' and depth < 4 and _is_ptr(e.type):
        d = fs.single_def(e.refid)
        if d is not None and strip(d, casts=True).kind in ('MemberExpr', 'DeclRefExpr', 'UnaryOperator'):
            return _npp(d, fs, depth + 1)
        d0 = strip(d, casts=True) if d is not None else None
        if d0 is not None and d0.kind == 'BinaryOperator' and d0.op == '+':
            # p = X + i  is  p = &X[i]
            for (pt, ix) in ((d0.kids[0], d0.kids[1]), (d0.kids[1], d0.kids[0])):
                if _is_ptr(strip(pt, casts=True).type or ''):
                    return '&' + _npp(pt, fs, depth + 1) + '[' + pp(strip(ix, casts=True)) + ']'
    if e.kind == 'MemberExpr':
        b0 = strip(e.kids[0], casts=True)
        if e.arrow and b0 is not None and b0.kind == 'BinaryOperator' and b0.op == '+':
            # (X + i)->f  is  X[i].f
            for (pt, ix) in ((b0.kids[0], b0.kids[1]), (b0.kids[1], b0.kids[0])):
                if _is_ptr(strip(pt, casts=True).type or ''):
                    return _npp(pt, fs, depth) + '[' + pp(strip(ix, casts=True)) + '].' + (e.name or '?')
        b = _npp(e.kids[0], fs, depth)
        if e.arrow and b.startswith('&'):
            return b[1:] + '.' + (e.name or '?')          # (&X[i])->f  is  X[i].f
        return b + ('->' if e.arrow else '.') + (e.name or '?')
    if e.kind == 'ArraySubscriptExpr':
        return _npp(e.kids[0], fs, depth) + '[' + pp(strip(e.kids[1], casts=True)) + ']'
    if e.kind == 'UnaryOperator' and e.op == '&':
        return '&' + _npp(e.kids[0], fs, depth)
    return pp(e)


def _stores(f, fs=None):
    """[(lhs text, rhs node, assignment node)] for all plain assignments in f"""
    out = []
    for n in f.body.walk():
        if n.kind == 'BinaryOperator' and n.op == '=':
            out.append(((_npp(n.kids[0], fs) if fs is not None else pp(strip(n.kids[0], casts=True))), n.kids[1], n))
    return out


def _cnode_of(g, node):
    for cn in g.nodes:
        if cn.ast is not None and any(x is node for x in cn.ast.walk()):
            return cn
    return None


def is_null_expr(e):
    from .ast import is_null
    return is_null(e)


def rule_E5(ctx, prog, label, rule='E5'):
    from .cfg import cfg_of
    rr = RuleResult(rule, 'allocator caches: a block handed out leaves its slot, an evicted block is released, cleanup empties every slot, views never free their parent')
    cfg = prog.cfg

    def ob(ok, name, what, f, why=''):
        rr.instances += 1
        rr.ob(ok, dict(obligation=name, function=f.name, verdict=what),
              Finding(rule, '%s|%s|%s' % (rule, f.name, name), f.loc, f.name, '%s: %s' % (what, why or 'obligation no longer holds'), {}, label))

    # ---- 5. mzd_free: data released only for non-windows; header always released
    f = prog.func('mzd_free')
    g = cfg_of(f)
    calls = [c for c in f.body.find('CallExpr') if callee_name(c) == 'm4ri_mmc_free']
    okc = bool(calls)
    for c in calls:
        cn = _cnode_of(g, c)
        # reachable without taking the non-window edge of a branch on mzd_is_windowed(A)?
        seen = set()
        st = [g.entry]
        while st:
            n = st.pop()
            if n.id in seen:
                continue
            seen.add(n.id)
            safe = _windowed_safe_edge(n) if n.kind == 'branch' else None
            for (lab, m) in n.succs:
                if safe is not None and lab is safe:
                    continue
                st.append(m)
        if cn is None or cn.id in seen:
            okc = False
    ob(okc, 'view-keeps-parent-data', 'the data block is released only on the branch !mzd_is_windowed(A)', f,
       'm4ri_mmc_free(A->data, ...) is reachable for a window: freeing a view would free its parent\'s storage')
    hdr = [c for c in f.body.find('CallExpr') if callee_name(c) == 'mzd_t_free']
    pd = g.postdominators(exit_only=True)
    ob(bool(hdr) and _cnode_of(g, hdr[0]).id in pd.get(g.entry.id, ()), 'header-always-released', 'mzd_t_free(A) is executed on every path', f)

    # ---- 4. m4ri_fini
    f = prog.func('m4ri_fini')
    names = set(callee_name(c) for c in f.body.find('CallExpr'))
    ob('m4ri_mmc_cleanup' in names and 'm4ri_destroy_all_codes' in names, 'fini-releases-everything',
       'm4ri_fini calls m4ri_mmc_cleanup and m4ri_destroy_all_codes', f, 'calls: %s' % sorted(names))

    if cfg['mmc']:
        # ---- 1. m4ri_mmc_malloc
        f = prog.func('m4ri_mmc_malloc')
        g = cfg_of(f)
        pd = g.postdominators(exit_only=True)
        from .symbolic import FuncSym as _FSm
        fsm = _FSm(f)
        st_ = _stores(f, fsm)
        hand = [(l, r, n) for (l, r, n) in st_ if _npp(r, fsm).endswith('.data') and not l.endswith('.data')]
        ok = bool(hand)
        why = 'no cached block is handed out any more' if not hand else ''
        for (l, r, n) in hand:
            slot = _npp(r, fsm)[:-5]
            cn = _cnode_of(g, n)
            need = {slot + '.data': False, slot + '.size': False}
            for (l2, r2, n2) in st_:
                if l2 in need and (int_value(r2) == 0 or pp(strip(r2, casts=True)) in ('0', '((void *)0)', '(void *)0')):
                    c2 = _cnode_of(g, n2)
                    if c2 is not None and c2.id in pd.get(cn.id, ()):
                        need[l2] = True
            if not all(need.values()):
                ok = False
                why = 'after `%s` the slot is not cleared (%s): the same block can be handed out twice' % (pp(n), ', '.join(k for k, v in need.items() if not v))
        ob(ok, 'handed-out-block-leaves-cache', 'a cached block that is returned has its slot\'s data and size cleared on every path', f, why)
        # ---- 2. m4ri_mmc_free
        f = prog.func('m4ri_mmc_free')
        g = cfg_of(f)
        dom = g.dominators()
        p0 = f.params[0].name
        from .symbolic import FuncSym
        fs = FuncSym(f)
        st_ = _stores(f, fs)
        keep = [(l, r, n) for (l, r, n) in st_ if l.endswith('.data') and pp(strip(r, casts=True)) == p0]
        ok = bool(keep)
        why = ''
        for (l, r, n) in keep:
            slot = l[:-5]
            cn = _cnode_of(g, n)
            # (a) under `slot.size == 0`
            under_free = False
            for ifs in fs.enclosing_all(n, ('IfStmt',)):
                c = strip(ifs.kids[0], casts=True)
                if c.kind == 'BinaryOperator' and c.op == '==' and _npp(c.kids[0], fs) == slot + '.size' and int_value(c.kids[1]) == 0 \
                        and any(x is n for x in ifs.kids[1].walk()):
                    under_free = True
            if not under_free and cn is not None:
                # the same test written as an early `continue` / `goto`: every path to the store leaves a branch on
                # `slot.size != 0` by its false edge (or on `slot.size == 0` by its true edge)
                for bn in g.nodes:
                    if bn.kind != 'branch' or bn.ast is None or bn.id not in dom.get(cn.id, ()):
                        continue
                    c = strip(bn.ast, casts=True)
                    if c.kind == 'BinaryOperator' and c.op in ('==', '!=') and _npp(c.kids[0], fs) == slot + '.size' and int_value(c.kids[1]) == 0:
                        good_lab = (c.op == '==')
                        # the store must be unreachable from the other edge without passing the branch again
                        other = [m for (lab_, m) in bn.succs if lab_ is not good_lab]
                        seen_ = set()
                        stk_ = list(other)
                        hit_ = False
                        while stk_:
                            x_ = stk_.pop()
                            if x_.id in seen_ or x_ is bn:
                                continue
                            seen_.add(x_.id)
                            if x_ is cn:
                                hit_ = True
                                break
                            stk_ += [m for (_l, m) in x_.succs]
                        if not hit_:
                            under_free = True
            freed = False
            for c in f.body.find('CallExpr'):
                if callee_name(c) == 'm4ri_mm_free' and _npp(c.kids[1], fs) == slot + '.data':
                    c2 = _cnode_of(g, c)
                    if c2 is not None and c2.id in dom.get(cn.id, ()):
                        freed = True
            if not (under_free or freed):
                # restructured form: the slot index is a variable; every definition of it must be justified
                idxs = [x for x in strip(n.kids[0], casts=True).walk() if x.kind == 'ArraySubscriptExpr']
                just = False
                if idxs:
                    iv_ = strip(idxs[0].kids[1], casts=True)
                    if iv_.kind == 'DeclRefExpr' and iv_.refkind == 'VarDecl' and len(fs.defs.get(iv_.refid, [])) > 1:
                        just = True
                        for d_ in fs.defs[iv_.refid]:
                            dv = int_value(d_)
                            if dv is not None and dv < 0:
                                continue          # sentinel
                            # under `mm[d].size == 0`
                            asg = fs.parent.get(d_.uid)
                            okd = False
                            for ifs in fs.enclosing_all(d_, ('IfStmt',)):
                                c_ = strip(ifs.kids[0], casts=True)
                                if c_.kind == 'BinaryOperator' and c_.op == '==' and _npp(c_.kids[0], fs).endswith('.size') and int_value(c_.kids[1]) == 0:
                                    okd = True
                            # followed in the same block by m4ri_mm_free(mm[v].data)
                            blk = fs.enclosing(d_, ('CompoundStmt',))
                            if blk is not None:
                                for c in blk.find('CallExpr'):
                                    if callee_name(c) == 'm4ri_mm_free' and _npp(c.kids[1], fs) == slot + '.data':
                                        okd = True
                            if not okd:
                                just = False
                if not just:
                    ok = False
                    why = '`%s` overwrites a slot that may hold a block without releasing it first' % pp(n)
        ob(ok, 'evicted-block-released', 'a slot is overwritten only when empty or after its old block went to m4ri_mm_free', f, why)
        # every path stores or frees the condemned block
        sinks = set()
        for (l, r, n) in keep:
            sinks.add(_cnode_of(g, n).id)
        for c in f.body.find('CallExpr'):
            if callee_name(c) == 'm4ri_mm_free' and pp(strip(c.kids[1], casts=True)) == p0:
                sinks.add(_cnode_of(g, c).id)
        seen = set()
        stk = [g.entry]
        while stk:
            n = stk.pop()
            if n.id in seen or n.id in sinks:
                continue
            seen.add(n.id)
            for (_l, m) in n.succs:
                stk.append(m)
        ob(g.exit.id not in seen, 'condemned-block-kept-or-freed', 'every path of m4ri_mmc_free stores the block in a slot or releases it', f,
           'a path reaches the end of m4ri_mmc_free with the block neither cached nor freed (leak)')
        # ... and never both: once released, the pointer must not be cached
        rel_nodes = [_cnode_of(g, c) for c in f.body.find('CallExpr') if callee_name(c) == 'm4ri_mm_free' and pp(strip(c.kids[1], casts=True)) == p0]
        keep_ids = set(_cnode_of(g, n).id for (l, r, n) in keep)
        both = False
        for rn in rel_nodes:
            seen2 = set()
            stk = [m for (_l, m) in rn.succs]
            while stk:
                n_ = stk.pop()
                if n_.id in seen2:
                    continue
                seen2.add(n_.id)
                if n_.id in keep_ids:
                    both = True
                for (_l, m) in n_.succs:
                    stk.append(m)
        ob(not both, 'released-block-not-cached', 'a block handed to m4ri_mm_free is never stored in a slot afterwards', f,
           'a path releases `%s` and then stores it into the cache: the slot holds a dangling pointer that is freed again later' % p0)
        # ---- 3. cleanup
        f = prog.func('m4ri_mmc_cleanup')
        loops = f.body.find('ForStmt')
        ok = False
        why = 'no loop over the slots'
        for lp in loops:
            body = lp.kids[4]
            frees = [c for c in body.find('CallExpr') if callee_name(c) == 'm4ri_mm_free' and pp(strip(c.kids[1], casts=True)).endswith('.data')]
            zero = [n for n in body.walk() if n.kind == 'BinaryOperator' and n.op == '=' and pp(strip(n.kids[0], casts=True)).endswith('.size') and int_value(n.kids[1]) == 0]
            bound = pp(strip(lp.kids[2]).kids[1]) if strip(lp.kids[2]).kind == 'BinaryOperator' else ''
            # the same bound as the slot search loops of malloc/free
            other = []
            for fn in ('m4ri_mmc_malloc', 'm4ri_mmc_free'):
                for l2 in prog.func(fn).body.find('ForStmt'):
                    if strip(l2.kids[2]).kind == 'BinaryOperator':
                        other.append(pp(strip(l2.kids[2]).kids[1]))
            # occupancy is decided by one field: the field that guards the release is the field that is reset,
            # otherwise a second cleanup (m4ri_fini is also a destructor) releases the same pointers again
            guard_ok = True
            gwhy = ''
            for c in frees:
                par = None
                for n_ in body.walk():
                    if n_.kind == 'IfStmt' and any(x is c for x in n_.kids[1].walk()):
                        par = n_
                if par is not None:
                    gf = [x.name for x in par.kids[0].walk() if x.kind == 'MemberExpr' and x.name in ('size', 'data')]
                    reset = set(pp(strip(n_.kids[0], casts=True)).rsplit('.', 1)[-1] for n_ in body.walk()
                                if n_.kind == 'BinaryOperator' and n_.op == '=' and (int_value(n_.kids[1]) == 0 or is_null_expr(n_.kids[1])))
                    if gf and not all(x in reset for x in gf):
                        guard_ok = False
                        gwhy = 'the release is guarded by `.%s` but the loop resets only %s: a second cleanup releases the same blocks again' % (gf[0], sorted('.' + r for r in reset))
            if frees and zero and all(b == bound for b in other) and guard_ok:
                ok = True
            elif frees and zero and not guard_ok:
                why = gwhy
            elif frees and zero:
                why = 'cleanup loop bound `%s` differs from the slot search bounds %s' % (bound, other)
        ob(ok, 'cleanup-empties-every-slot', 'the cleanup loop covers the same slot range as malloc/free, releases occupied slots and zeroes their size', f, why)
    if cfg['mzdcache']:
        # ---- 7. mzd_t_malloc takes entries only from a block with room (predicate abstraction, m4lint/slab.py)
        from .slab import Slab
        f = prog.func('mzd_t_malloc')
        S = Slab(f)
        if S.cursor is None or S.ret is None:
            raise AnalysisBroken('E5: mzd_t_malloc no longer has a block cursor / result variable')
        nstates = S.run()
        takes = [n for n in f.body.walk() if n.kind == 'CompoundAssignOperator' and n.op == '|=' and 'current_cache' in pp(n.kids[0])]
        if not takes:
            raise AnalysisBroken('E5: no entry is taken from current_cache in mzd_t_malloc any more')
        kinds = sorted(set(k for k, _e in S.problems))
        why = ''
        if 'take-from-full' in kinds:
            e = [e for k, e in S.problems if k == 'take-from-full'][0]
            why = ('an entry is taken at line %s while current_cache may still be a completely used block (the search left it on a full block): '
                   'log2_floor(~used) is then 0 and the live header in entry 0 is handed out a second time' % e.line)
        elif kinds:
            e = S.problems[0][1]
            why = 'the block cursor may be NULL where it is used at line %s (%s)' % (e.line, kinds[0])
        ob(not S.problems, 'header-from-block-with-room', 'mzd_t_malloc takes an entry only from a block that has a free one, in all %d reachable abstract states' % nstates, f, why)
        # ---- 6. mzd_t_free unlink
        f = prog.func('mzd_t_free')
        g = cfg_of(f)
        dom = g.dominators()
        from .symbolic import FuncSym as _FS
        fsu = _FS(f)
        # the block cursor: the local of type mzd_t_cache_t * that is handed to m4ri_mm_free (whatever its name)
        frees = []
        for c in f.body.find('CallExpr'):
            a_ = strip(c.kids[1], casts=True) if callee_name(c) == 'm4ri_mm_free' and len(c.kids) > 1 else None
            if a_ is not None and a_.kind == 'DeclRefExpr' and a_.refkind == 'VarDecl' and 'mzd_t_cache_t' in (a_.type or ''):
                frees.append(c)
        cur = pp(strip(frees[0].kids[1], casts=True)) if frees else 'cache'
        st_ = _stores(f, fsu)
        ok = bool(frees)
        why = 'an emptied secondary header block is never released' if not frees else ''
        for c in frees:
            cn = _cnode_of(g, c)
            relink_next = [n for (l, r, n) in st_ if l == cur + '->prev->next' and _npp(r, fsu) == cur + '->next']
            relink_prev = [n for (l, r, n) in st_ if l == cur + '->next->prev' and _npp(r, fsu) == cur + '->prev']
            if not relink_next or _cnode_of(g, relink_next[0]).id not in dom.get(cn.id, ()):
                ok, why = False, 'the block is freed without `%s->prev->next = %s->next`' % (cur, cur)
            if not relink_prev:
                ok, why = False, 'the block is freed without repairing `%s->next->prev`' % cur
            # never the static first block: the free must not be reachable through the edge cache == &mzd_cache
            seen = set()
            stk = [g.entry]
            while stk:
                n = stk.pop()
                if n.id in seen:
                    continue
                seen.add(n.id)
                for (lab, m) in n.succs:
                    if n.kind == 'branch':
                        cc = strip(n.ast, casts=True)
                        if cc.kind == 'BinaryOperator' and cc.op in ('==', '!=') and '&mzd_cache' in pp(cc) and cur in [pp(strip(k_, casts=True)) for k_ in cc.kids]:
                            # skip the edge on which the cursor != &mzd_cache
                            if lab is (cc.op == '!='):
                                continue
                    stk.append(m)
            if cn.id in seen:
                ok, why = False, 'm4ri_mm_free(%s) is reachable with %s == &mzd_cache (static storage)' % (cur, cur)
        ob(ok, 'header-block-unlinked-before-free', 'an emptied secondary header block is unlinked on both sides, is never the static block, and is released', f, why)
    rr.require_floor(3, 'cache obligations')
    return rr


def _windowed_safe_edge(cn):
    """branch on mzd_is_windowed(X): label of the edge on which X is NOT a window"""
    c = cn.ast
    neg = False
    while True:
        c = strip(c, casts=True)
        if c is None:
            return None
        if c.kind == 'UnaryOperator' and c.op == '!':
            neg = not neg
            c = c.kids[0]
            continue
        break
    if c.kind == 'CallExpr' and callee_name(c) == 'mzd_is_windowed':
        return True if neg else False
    return None
