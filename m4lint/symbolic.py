"""Symbolic integers: canonical linear forms over parameters' fields, locals and opaque atoms,
with inlining of single-definition locals; loop facts for induction variables."""
from .ast import strip, pp, int_value, callee_name


class Lin(object):
    """c + sum coeff[a] * a."""
    __slots__ = ('c', 't')

    def __init__(self, c=0, t=None):
        self.c = c
        self.t = dict((k, v) for k, v in (t or {}).items() if v != 0)

    @staticmethod
    def atom(a):
        return Lin(0, {a: 1})

    def __add__(self, o):
        t = dict(self.t)
        for k, v in o.t.items():
            t[k] = t.get(k, 0) + v
        return Lin(self.c + o.c, t)

    def __sub__(self, o):
        return self + o.scale(-1)

    def scale(self, k):
        return Lin(self.c * k, dict((a, v * k) for a, v in self.t.items()))

    def is_const(self):
        return not self.t

    def key(self):
        return (self.c, tuple(sorted(self.t.items())))

    def __eq__(self, o):
        return isinstance(o, Lin) and self.key() == o.key()

    def __hash__(self):
        return hash(self.key())

    def __repr__(self):
        parts = []
        for a, v in sorted(self.t.items()):
            parts.append(('%s' % a) if v == 1 else ('-%s' % a if v == -1 else '%d*%s' % (v, a)))
        if self.c or not parts:
            parts.append(str(self.c))
        return ' + '.join(parts).replace('+ -', '- ')

    def atoms(self):
        return set(self.t)

    def subst(self, atom, lin):
        if atom not in self.t:
            return self
        k = self.t[atom]
        t = dict(self.t)
        del t[atom]
        return Lin(self.c, t) + lin.scale(k)


class _Flipped(object):
    """a comparison with its operands exchanged: `hi > v` read as `v < hi`"""
    def __init__(self, c):
        self.kind = c.kind
        self.op = {'<': '>', '>': '<', '<=': '>=', '>=': '<=', '!=': '!='}[c.op]
        self.kids = [c.kids[1], c.kids[0]]


class FuncSym(object):
    """Per-function symbolic evaluator."""

    def __init__(self, func, max_depth=6):
        self.f = func
        self.max_depth = max_depth
        self.defs = {}      # decl id -> list of defining expression nodes (VarDecl init / assignments)
        self.decl = {}
        self.mutated = set()  # ids updated by ++/--/compound assignment
        self.params = {}
        for i, p in enumerate(func.params):
            self.params[p.id] = p
            self.decl[p.id] = p
        for n in func.body.walk():
            if n.kind == 'VarDecl':
                self.decl[n.id] = n
                if n.kids and n.init:
                    self.defs.setdefault(n.id, []).append(n.kids[-1])
            elif n.kind == 'BinaryOperator' and n.op == '=':
                l = strip(n.kids[0])
                if l.kind == 'DeclRefExpr':
                    self.defs.setdefault(l.refid, []).append(n.kids[1])
            elif n.kind == 'CompoundAssignOperator' or (n.kind == 'UnaryOperator' and n.op in ('++', '--')):
                l = strip(n.kids[0])
                if l.kind == 'DeclRefExpr':
                    self.mutated.add(l.refid)
            elif n.kind == 'UnaryOperator' and n.op == '&':
                l = strip(n.kids[0])
                if l.kind == 'DeclRefExpr':
                    self.mutated.add(l.refid)
        self.parent = {}
        for n in func.body.walk():
            for c in n.kids:
                self.parent[c.uid] = n

    def single_def(self, vid):
        """The unique defining expression of a local that is never otherwise modified, else None."""
        if vid in self.params or vid in self.mutated:
            return None
        d = self.defs.get(vid, [])
        if len(d) == 1:
            return d[0]
        return None

    def fullwords_idiom(self, vid):
        """`if (X->ncols % 64) v = X->width - 1; else v = X->width;`  ->  X  (v = number of full words)."""
        if vid in self.mutated or vid in self.params:
            return None
        ds = self.defs.get(vid, [])
        if len(ds) != 2:
            return None
        vals = []
        for d in ds:
            asg = self.parent.get(d.uid)
            while asg is not None and asg.kind not in ('IfStmt',):
                asg = self.parent.get(asg.uid)
            vals.append((d, asg))
        if vals[0][1] is None or vals[0][1] is not vals[1][1]:
            return None
        ifs = vals[0][1]
        c = strip(ifs.kids[0], casts=True)
        if not (c.kind == 'BinaryOperator' and c.op == '%' and int_value(c.kids[1]) == 64):
            return None
        m = strip(c.kids[0], casts=True)
        if not (m.kind == 'MemberExpr' and m.name == 'ncols'):
            return None
        X = self.base_name(m.kids[0])
        then_, else_ = ifs.kids[1], (ifs.kids[2] if len(ifs.kids) > 2 else None)
        if else_ is None:
            return None
        tv = ev = None
        for d in ds:
            if any(x is d for x in then_.walk()):
                tv = self.sym(d, 1)
            elif any(x is d for x in else_.walk()):
                ev = self.sym(d, 1)
        W = Lin.atom('%s.width' % X)
        if tv == W - Lin(1) and ev == W:
            return X
        return None

    def base_name(self, e):
        """Name for the object a pointer expression designates (param or local pointer alias)."""
        e = strip(e, casts=True)
        if e.kind == 'DeclRefExpr':
            d = self.single_def(e.refid)
            if d is not None:
                ds = strip(d, casts=True)
                if ds.kind == 'DeclRefExpr':
                    return self.base_name(ds)
            return e.ref
        return pp(e)

    def sym(self, e, depth=0):
        e = strip(e, casts=True)
        if e is None:
            return Lin.atom('?')
        v = int_value(e)
        if v is not None:
            return Lin(v)
        k = e.kind
        if k == 'DeclRefExpr':
            if e.ref == 'm4ri_radix':
                return Lin(64)
            d = self.single_def(e.refid)
            if d is not None and depth < self.max_depth:
                return self.sym(d, depth + 1)
            fw = self.fullwords_idiom(e.refid)
            if fw is not None:
                return Lin.atom('%s.fullwords' % fw)
            return Lin.atom(e.ref)
        if k == 'MemberExpr':
            return Lin.atom('%s.%s' % (self.base_name(e.kids[0]), e.name))
        if k == 'BinaryOperator':
            a, b = e.kids
            if e.op == '+':
                return self.sym(a, depth) + self.sym(b, depth)
            if e.op == '-':
                return self.sym(a, depth) - self.sym(b, depth)
            if e.op == '*':
                x, y = self.sym(a, depth), self.sym(b, depth)
                if x.is_const():
                    return y.scale(x.c)
                if y.is_const():
                    return x.scale(y.c)
                return Lin.atom('(%r)*(%r)' % (x, y))
            if e.op in ('/', '%', '<<', '>>', '&', '|', '^'):
                x, y = self.sym(a, depth), self.sym(b, depth)
                if e.op == '/' and y.is_const() and y.c > 0:
                    if all(v % y.c == 0 for v in x.t.values()) and x.c % y.c == 0:
                        return Lin(x.c // y.c, dict((a_, v // y.c) for a_, v in x.t.items()))
                if e.op == '<<' and y.is_const() and 0 <= y.c < 31:
                    return x.scale(1 << y.c)
                return Lin.atom('(%r)%s(%r)' % (x, e.op, y))
        if k == 'UnaryOperator' and e.op == '-':
            return self.sym(e.kids[0], depth).scale(-1)
        if k == 'ConditionalOperator':
            # MIN/MAX idioms: (a < b) ? a : b  ->  min(a,b)
            c = strip(e.kids[0], casts=True)
            if c.kind == 'BinaryOperator' and c.op in ('<', '>', '<=', '>='):
                a0, b0 = self.sym(c.kids[0], depth), self.sym(c.kids[1], depth)
                t0, f0 = self.sym(e.kids[1], depth), self.sym(e.kids[2], depth)
                if t0 == a0 and f0 == b0:
                    name = 'min' if c.op in ('<', '<=') else 'max'
                    return Lin.atom('%s(%r,%r)' % (name, a0, b0))
                if t0 == b0 and f0 == a0:
                    name = 'max' if c.op in ('<', '<=') else 'min'
                    return Lin.atom('%s(%r,%r)' % (name, a0, b0))
            return Lin.atom('(%s)' % pp(e))
        if k == 'CallExpr':
            return Lin.atom(pp(e))
        return Lin.atom(pp(e))

    # ------------------------------------------------------------------ loops
    def enclosing(self, n, kinds):
        p = self.parent.get(n.uid)
        while p is not None:
            if p.kind in kinds:
                return p
            p = self.parent.get(p.uid)
        return None

    def enclosing_all(self, n, kinds):
        out = []
        p = self.parent.get(n.uid)
        while p is not None:
            if p.kind in kinds:
                out.append(p)
            p = self.parent.get(p.uid)
        return out

    def loop_range(self, var_id, at):
        """If `var_id` is the induction variable of an enclosing `for (v = a; v < hi; ++v)` loop at node
        `at`, return (lo Lin, hi_exclusive Lin, step) ; also handles `<=`, and descending loops."""
        for loop in self.enclosing_all(at, ('ForStmt', 'WhileStmt')):
            iv = self._induction(loop) if loop.kind == 'ForStmt' else self._induction_while(loop)
            if iv is None or iv[0] != var_id:
                continue
            return iv[1], iv[2], iv[3]
        return None

    def _open_loop_start(self, vid, at):
        for loop in self.enclosing_all(at, ('ForStmt',)):
            init, _cv, cond, inc, body = loop.kids
            if cond.kind != 'Null':
                continue
            v0 = None
            if init.kind == 'DeclStmt' and init.kids and init.kids[0].kind == 'VarDecl' and init.kids[0].id == vid and init.kids[0].kids:
                v0 = self.sym(init.kids[0].kids[-1])
            i = strip(inc)
            up = i is not None and ((i.kind == 'UnaryOperator' and i.op == '++') or (i.kind == 'CompoundAssignOperator' and i.op == '+=' and (int_value(i.kids[1]) or 0) > 0)) \
                and strip(i.kids[0]).kind == 'DeclRefExpr' and strip(i.kids[0]).refid == vid
            if v0 is None or not up:
                continue
            if any(((n.kind == 'BinaryOperator' and n.op == '=') or n.kind == 'CompoundAssignOperator' or (n.kind == 'UnaryOperator' and n.op in ('++', '--', '&')))
                   and strip(n.kids[0]).kind == 'DeclRefExpr' and strip(n.kids[0]).refid == vid for n in body.walk()):
                continue
            return v0
        return None

    def guard_bound(self, vid, at, want_max):
        """bound on local `vid` implied at node `at` by the conditions of enclosing if statements (then-branch: the condition
        holds; else-branch: it does not), provided the variable is not modified between the test and the use (it is not
        modified inside that branch before `at`).  Returns a Lin (inclusive bound) or None."""
        child = at
        p = self.parent.get(at.uid)
        best = None
        while p is not None:
            if p.kind == 'IfStmt' and child is not p.kids[0]:
                in_then = child is p.kids[1]
                c = strip(p.kids[0], casts=True)
                conj = []
                st = [c]
                while st:
                    x = strip(st.pop(), casts=True)
                    if x is not None and x.kind == 'BinaryOperator' and x.op == '&&' and in_then:
                        st += [x.kids[0], x.kids[1]]
                    elif x is not None and x.kind == 'BinaryOperator' and x.op == '||' and not in_then:
                        st += [x.kids[0], x.kids[1]]
                    elif x is not None:
                        conj.append(x)
                for x in conj:
                    if x.kind != 'BinaryOperator' or x.op not in ('<', '<=', '>', '>='):
                        continue
                    l, r = strip(x.kids[0], casts=True), strip(x.kids[1], casts=True)
                    op = x.op
                    if r.kind == 'DeclRefExpr' and r.refid == vid and not (l.kind == 'DeclRefExpr' and l.refid == vid):
                        l, r, op = r, l, {'<': '>', '>': '<', '<=': '>=', '>=': '<='}[op]
                    if not (l.kind == 'DeclRefExpr' and l.refid == vid):
                        continue
                    if not in_then:
                        op = {'<': '>=', '>=': '<', '>': '<=', '<=': '>'}[op]
                    # the variable must not be modified inside the branch
                    branch = p.kids[1] if in_then else p.kids[2]
                    if any(((n.kind == 'BinaryOperator' and n.op == '=') or n.kind == 'CompoundAssignOperator' or (n.kind == 'UnaryOperator' and n.op in ('++', '--', '&')))
                           and strip(n.kids[0]).kind == 'DeclRefExpr' and strip(n.kids[0]).refid == vid for n in branch.walk()):
                        continue
                    e = self.sym(r)
                    if want_max and op in ('<', '<='):
                        b = e - Lin(1) if op == '<' else e
                        best = b if best is None else best
                    if not want_max and op in ('>', '>='):
                        b = e + Lin(1) if op == '>' else e
                        best = b if best is None else best
            if p.kind in ('ForStmt', 'WhileStmt', 'DoStmt'):
                # guards outside the loop that modifies the variable say nothing about later iterations
                if any(((n.kind == 'CompoundAssignOperator') or (n.kind == 'UnaryOperator' and n.op in ('++', '--')) or (n.kind == 'BinaryOperator' and n.op == '='))
                       and strip(n.kids[0]).kind == 'DeclRefExpr' and strip(n.kids[0]).refid == vid for n in p.walk()):
                    break
            child = p
            p = self.parent.get(p.uid)
        return best

    def _induction_while(self, loop):
        """`v = E; while (v >= c) { ...; --v; }` (and the ascending mirror): the counter is declared/assigned once before the
        loop, tested in the condition, and stepped by the LAST statement of the body and nowhere else."""
        cond, body = loop.kids[0], loop.kids[-1]
        if loop.kind != 'WhileStmt' or body.kind != 'CompoundStmt' or not body.kids:
            return None
        c = strip(cond)
        if c is None or c.kind != 'BinaryOperator' or c.op not in ('<', '<=', '>', '>='):
            return None
        l = strip(c.kids[0], casts=True)
        if l.kind != 'DeclRefExpr' or l.refid not in self.decl:
            return None
        vid = l.refid
        last = strip(body.kids[-1])
        step = None
        if last is not None and last.kind == 'UnaryOperator' and last.op in ('++', '--') and strip(last.kids[0]).kind == 'DeclRefExpr' and strip(last.kids[0]).refid == vid:
            step = 1 if last.op == '++' else -1
        elif last is not None and last.kind == 'CompoundAssignOperator' and last.op in ('+=', '-=') and strip(last.kids[0]).kind == 'DeclRefExpr' and strip(last.kids[0]).refid == vid \
                and int_value(last.kids[1]) is not None:
            step = int_value(last.kids[1]) if last.op == '+=' else -int_value(last.kids[1])
        if step is None:
            return None
        # no other modification of the counter anywhere in the function except its single definition
        nmods = 0
        for n in self.f.body.walk():
            if (n.kind == 'BinaryOperator' and n.op == '=') or n.kind == 'CompoundAssignOperator' or (n.kind == 'UnaryOperator' and n.op in ('++', '--', '&')):
                t = strip(n.kids[0])
                if t.kind == 'DeclRefExpr' and t.refid == vid:
                    nmods += 1
        d = self.decl[vid]
        if nmods != 1 or d.kind != 'VarDecl' or not d.kids or not d.init:
            return None
        # `continue` inside the body would skip the step
        if any(n.kind == 'ContinueStmt' for n in body.walk()):
            return None
        start = self.sym(d.kids[-1])
        bound = self.sym(c.kids[1])
        if step < 0 and c.op in ('>', '>='):
            low = bound + Lin(1) if c.op == '>' else bound
            return vid, low, start + Lin(1), step
        if step > 0 and c.op in ('<', '<='):
            hi = bound + Lin(1) if c.op == '<=' else bound
            if step > 1:
                return None
            return vid, start, hi, step
        return None

    def _induction(self, loop):
        init, _cv, cond, inc, body = loop.kids
        vid = None
        lo = None
        if init.kind == 'DeclStmt' and init.kids and init.kids[0].kind == 'VarDecl' and init.kids[0].kids:
            vid = init.kids[0].id
            lo = self.sym(init.kids[0].kids[-1])
        elif init.kind == 'BinaryOperator' and init.op == '=':
            l = strip(init.kids[0])
            if l.kind == 'DeclRefExpr':
                vid = l.refid
                lo = self.sym(init.kids[1])
        if vid is None and init.kind == 'Null' and cond.kind != 'Null':
            c0 = strip(cond)
            if c0.kind == 'BinaryOperator':
                l0 = strip(c0.kids[0], casts=True)
                if l0.kind == 'DeclRefExpr' and l0.refid in self.decl:
                    d0 = self.decl[l0.refid]
                    if d0.kind == 'VarDecl' and d0.kids and d0.init and len(self.defs.get(l0.refid, [])) == 1:
                        vid = l0.refid
                        lo = self.sym(d0.kids[-1])
        if vid is None or cond.kind == 'Null' or inc.kind == 'Null':
            return None
        c = strip(cond)
        if c.kind != 'BinaryOperator' or c.op not in ('<', '<=', '>', '>=', '!='):
            return None
        l = strip(c.kids[0], casts=True)
        if not (l.kind == 'DeclRefExpr' and l.refid == vid):
            # `hi > v` is `v < hi`
            r_ = strip(c.kids[1], casts=True)
            if r_.kind == 'DeclRefExpr' and r_.refid == vid:
                c = _Flipped(c)
            else:
                return None
        i = strip(inc)
        step = None
        if i.kind == 'UnaryOperator' and i.op in ('++', '--') and strip(i.kids[0]).refid == vid:
            step = 1 if i.op == '++' else -1
        elif i.kind == 'CompoundAssignOperator' and i.op in ('+=', '-=') and strip(i.kids[0]).refid == vid:
            sv = int_value(i.kids[1])
            if sv is not None:
                step = sv if i.op == '+=' else -sv
        if step is None:
            return None
        # the induction variable must not be modified in the body
        for n in body.walk():
            if (n.kind == 'BinaryOperator' and n.op == '=') or n.kind == 'CompoundAssignOperator' or (n.kind == 'UnaryOperator' and n.op in ('++', '--')):
                t = strip(n.kids[0])
                if t.kind == 'DeclRefExpr' and t.refid == vid:
                    return None
        bound = self.sym(c.kids[1])
        if step > 0 and c.op in ('<', '<=', '!='):
            hi = bound + Lin(1) if c.op == '<=' else bound
            if step > 1:
                span = hi - lo
                if all(v % step == 0 for v in span.t.values()) and span.c % step == 0:
                    hi = hi - Lin(step) + Lin(1)     # last value taken is hi - step
                else:
                    return None
            return vid, lo, hi, step
        if step < 0 and c.op in ('>', '>='):
            # descending: v from lo down to bound(+1): range [bound(+1), lo]
            low = bound + Lin(1) if c.op == '>' else bound
            return vid, low, lo + Lin(1), step
        return None

    def bound_expr(self, e, at, upper, depth=0):
        """Recursive bound: handles +, -, * const, / const structurally, leaves via sym + induction ranges."""
        e = strip(e, casts=True)
        if e is None:
            return None
        if e.kind == 'BinaryOperator' and e.op in ('+', '-', '*', '/') and depth < 8:
            a, b = e.kids
            if e.op in ('+', '-'):
                x = self.bound_expr(a, at, upper, depth + 1)
                y = self.bound_expr(b, at, upper if e.op == '+' else not upper, depth + 1)
                if x is None or y is None:
                    return None
                return x + y if e.op == '+' else x - y
            cb = int_value(b)
            if cb is not None and cb > 0:
                x = self.bound_expr(a, at, upper, depth + 1)
                if x is None:
                    return None
                if e.op == '*':
                    return x.scale(cb)
                if all(v % cb == 0 for v in x.t.values()):
                    return Lin(x.c // cb, dict((k, v // cb) for k, v in x.t.items()))
                return Lin.atom('(%r)/(%d)' % (x, cb))
        if e.kind == 'DeclRefExpr' and e.refkind in ('VarDecl', 'ParmVarDecl'):
            d = self.single_def(e.refid)
            if d is not None and depth < 8 and e.ref != 'm4ri_radix':
                return self.bound_expr(d, at, upper, depth + 1)
        s = self.sym(e)
        return self._bound(s, e, at, upper)

    def sym_max(self, e, at):
        return self.bound_expr(e, at, True)

    def sym_min(self, e, at):
        return self.bound_expr(e, at, False)

    def _old_sym_max(self, e, at):
        """Upper bound (inclusive) of expression e at node `at`, substituting induction variables
        of enclosing for-loops by their maximum; None if e mentions a mutated non-induction local."""
        s = self.sym(e)
        return self._bound(s, e, at, True)


    def _bound(self, s, e, at, upper):
        # map atom name -> decl ids of locals with that name referenced in e
        ids = {}
        for n in e.walk():
            if n.kind == 'DeclRefExpr' and n.refkind in ('VarDecl', 'ParmVarDecl'):
                ids.setdefault(n.ref, n.refid)
        for a in list(s.atoms()):
            vid = ids.get(a)
            if vid is None:
                continue
            k = s.t[a]
            want_max = (k > 0) == upper
            # a guard that encloses the use tightens the loop range: `if (v < E) { ... use ... }`
            gb = self.guard_bound(vid, at, want_max)
            r = self.loop_range(vid, at)
            if gb is not None and (r is None or want_max):
                # for an upper bound the guard wins when it is at most the loop bound (the usual `i < width - 1` inside `i < width`)
                if r is None or not want_max:
                    s = s.subst(a, gb)
                    continue
                d = (r[1] - Lin(1)) - gb
                if d.is_const() and d.c >= 0:
                    s = s.subst(a, gb)
                    continue
            if r is None and not want_max:
                # `for (v = lo;; ++v)`: no loop condition, but the counter only grows from its initial value
                lo0 = self._open_loop_start(vid, at)
                if lo0 is not None:
                    s = s.subst(a, lo0)
                    continue
            if r is not None:
                lo, hi, step = r
                ext = (hi - Lin(1)) if want_max else lo
                s = s.subst(a, ext)
            elif vid in self.mutated or len(self.defs.get(vid, [])) > 1:
                return None
        return s
