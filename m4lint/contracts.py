"""Engine F (part 1): validation wrappers.
F1  every guarded m4ri_die of a public wrapper is passed (on its non-dying edge) on every path to the
    calls that receive the operands, unless the operand was created by the wrapper itself; sibling wrappers
    test the same relations (frozen role tables).
F2  the dimensions given to mzd_init when the destination is NULL equal the dimensions demanded of a
    supplied destination."""
import json
import os

from .ast import strip, callee_name, pp, int_value, is_null
from .cfg import cfg_of
from .symbolic import FuncSym, Lin
from .driver import RuleResult, Finding
from .frontend import AnalysisBroken, VERIF

GETTERS = {'mzd_row', 'mzd_row_const', 'mzd_read_bit', 'mzd_is_windowed', 'mzd_is_dangerous_window', 'printf',
           '__builtin_expect', 'm4ri_die', 'mzd_first_zero_row'}


def table():
    return json.load(open(os.path.join(VERIF, 'rules', 'contracts.json')))


def _disjuncts(c):
    c = strip(c, casts=True)
    if c is not None and c.kind == 'BinaryOperator' and c.op in ('||', '|'):
        return _disjuncts(c.kids[0]) + _disjuncts(c.kids[1])
    if c is not None and c.kind == 'CallExpr' and callee_name(c) == '__builtin_expect':
        return _disjuncts(c.kids[1])
    # (cond) != 0   and   !!(cond)
    if c is not None and c.kind == 'BinaryOperator' and c.op == '!=' and int_value(c.kids[1]) == 0:
        inner = strip(c.kids[0], casts=True)
        if inner is not None and inner.kind == 'BinaryOperator' and inner.op in ('||', '|', '&&', '!=', '==', '<', '>', '<=', '>='):
            return _disjuncts(inner)
    if c is not None and c.kind == 'UnaryOperator' and c.op == '!':
        i2 = strip(c.kids[0], casts=True)
        if i2 is not None and i2.kind == 'UnaryOperator' and i2.op == '!':
            return _disjuncts(i2.kids[0])
    return [c]


def _conj(c):
    c = strip(c, casts=True)
    if c is not None and c.kind == 'BinaryOperator' and c.op == '&&':
        return _conj(c.kids[0]) + _conj(c.kids[1])
    return [c]


_NEG = {'==': '!=', '!=': '==', '<': '>=', '>=': '<', '>': '<=', '<=': '>'}


def _fatal_atoms(c, want):
    """(op, lhs node, rhs node, node) relations whose disjunction equals `c == want` (negation normal form: !, De Morgan,
    `(x) != 0`, __builtin_expect); a part that is not a comparison is returned as (None, None, None, node)."""
    c = strip(c, casts=True)
    if c is None:
        return []
    if c.kind == 'CallExpr' and callee_name(c) == '__builtin_expect':
        return _fatal_atoms(c.kids[1], want)
    if c.kind == 'UnaryOperator' and c.op == '!':
        return _fatal_atoms(c.kids[0], not want)
    if c.kind == 'BinaryOperator' and c.op in ('!=', '==') and int_value(c.kids[1]) == 0:
        inner = strip(c.kids[0], casts=True)
        if inner is not None and ((inner.kind == 'BinaryOperator' and inner.op in ('||', '|', '&&', '&', '!=', '==', '<', '>', '<=', '>=')) or
                                  (inner.kind == 'UnaryOperator' and inner.op == '!') or (inner.kind == 'CallExpr' and callee_name(inner) == '__builtin_expect')):
            return _fatal_atoms(inner, want if c.op == '!=' else not want)
    if c.kind == 'BinaryOperator' and c.op in ('||', '|') and want:
        return _fatal_atoms(c.kids[0], True) + _fatal_atoms(c.kids[1], True)
    if c.kind == 'BinaryOperator' and c.op in ('&&',) and not want:
        return _fatal_atoms(c.kids[0], False) + _fatal_atoms(c.kids[1], False)
    if c.kind == 'BinaryOperator' and c.op in _NEG:
        return [(c.op if want else _NEG[c.op], c.kids[0], c.kids[1], c)]
    return [(None, None, None, c)]


class Guard(object):
    """One `if (cond) m4ri_die(...)`: the branch CFG node, its relation atoms, the parameters mentioned."""

    def __init__(self, f, fs, cnode, die_on):
        self.f, self.cnode, self.die_on = f, cnode, die_on
        self.cond = cnode.ast
        self.atoms = []
        self.params = set()
        names = dict((p.name, i) for i, p in enumerate(f.params))
        # only the *full* condition kills; with die_on == True the disjuncts are the individually fatal relations
        for (op, ln, rn, a) in _fatal_atoms(self.cond, bool(die_on)):
            for n in a.walk():
                if n.kind == 'DeclRefExpr' and n.refkind == 'ParmVarDecl':
                    self.params.add(n.ref)
            if op is not None:
                self.atoms.append((op, fs.sym(ln), fs.sym(rn), a))

    def canon(self, rename):
        out = []
        for (op, l, r, a) in self.atoms:
            ls, rs = _rename(repr(l), rename), _rename(repr(r), rename)
            if op in ('!=', '=='):
                ls, rs = sorted([ls, rs])
            elif op in ('>', '>='):
                ls, rs, op = rs, ls, {'>': '<', '>=': '<='}[op]
            out.append('%s %s %s' % (ls, op, rs))
        return out


def _rename(s, rename):
    import re
    def rep(m):
        return rename.get(m.group(0), m.group(0))
    return re.sub(r'[A-Za-z_][A-Za-z_0-9]*', rep, s)


def guards_of(f):
    """All die-guards of f: branch nodes one of whose edges leads (through labels only) to a noreturn node."""
    g = cfg_of(f)
    fs = FuncSym(f)
    out = []
    for n in g.nodes:
        if n.kind != 'branch':
            continue
        for (lab, m) in n.succs:
            x = m
            hops = 0
            while x.kind == 'label' and len(x.succs) == 1 and hops < 4:
                x = x.succs[0][1]
                hops += 1
            if x.kind == 'noreturn' and callee_name(strip(x.ast)) == 'm4ri_die':
                out.append(Guard(f, fs, n, lab is True))
    return out, g, fs


def rule_F1(ctx, prog, label, rule='F1'):
    rr = RuleResult(rule, 'argument validation precedes all work on the operands; sibling wrappers test the same relations')
    T = table()
    nwrappers = 0
    facts = {}
    for f in sorted(prog.all_funcs(), key=lambda f: (f.file, f.line)):
        gs, g, fs = guards_of(f)
        gs = [x for x in gs if x.atoms and any('.' in repr(a[1]) or '.' in repr(a[2]) or a[3] is not None for a in x.atoms) and x.params]
        dims = [x for x in gs if any(('.nrows' in repr(a[1]) + repr(a[2])) or ('.ncols' in repr(a[1]) + repr(a[2])) or ('.length' in repr(a[1]) + repr(a[2])) or a[0] in ('<',) for a in x.atoms)]
        if not dims:
            continue
        nwrappers += 1
        facts[f.name] = dims
        # (a) no path from entry to a work node avoids the guard, except through an assignment of the operand
        pnames = dict((p.name, p) for p in f.params)
        work = []
        for cn in g.nodes:
            if cn.kind not in ('stmt', 'branch') or cn.ast is None:
                continue
            for c in cn.ast.find('CallExpr'):
                name = callee_name(c)
                if name in GETTERS or name is None:
                    continue
                args = set()
                for a in c.kids[1:]:
                    a2 = strip(a, casts=True)
                    if a2 is not None and a2.kind == 'DeclRefExpr' and a2.refkind == 'ParmVarDecl':
                        args.add(a2.ref)
                if args:
                    work.append((cn, c, args))
        for gd in dims:
            rr.instances += 1
            mparams = set(p for p in gd.params if 'mz' in (pnames[p].type or ''))
            assigners = set()
            for cn in g.nodes:
                if cn.kind == 'stmt' and cn.ast is not None:
                    for n in cn.ast.walk():
                        if n.kind == 'BinaryOperator' and n.op == '=':
                            l = strip(n.kids[0])
                            if l.kind == 'DeclRefExpr' and l.ref in mparams:
                                assigners.add(cn.id)
            # forward reachability from entry avoiding the guard node and assigner nodes
            # identity short-cuts (`if (N == P) return N`, `if (ret != left)`) are allowed to bypass
            seen = set()
            st = [g.entry]
            blocked = {gd.cnode.id} | assigners
            while st:
                x = st.pop()
                if x.id in seen or x.id in blocked:
                    continue
                seen.add(x.id)
                ident = _identity_edge(x, mparams) if x.kind == 'branch' else None
                for (lab, m) in x.succs:
                    if ident is not None and lab is ident:
                        continue      # operands are the same object on this edge: nothing to validate
                    st.append(m)
            bad = None
            for (cn, c, args) in work:
                if cn.id in seen and (args & mparams):
                    if _bypass_is_identity(g, gd, cn, f):
                        continue
                    bad = (cn, c)
                    break
            rr.ob(bad is None, dict(function=f.name, guard=pp(gd.cond)[:90], verdict='precedes every call that receives the operands'),
                  Finding(rule, '%s|%s|order|%s' % (rule, f.name, '/'.join(sorted(mparams))), gd.cond.loc, f.name,
                          'the check `%s` can be bypassed: `%s` at %s receives the operands on a path that does not pass it' % (
                              pp(gd.cond)[:80], pp(bad[1])[:60] if bad else '', bad[1].loc if bad else ''), {}, label))
    # (b) families
    for fam in T['validator_families']:
        want = fam['relations']
        for member in fam['members']:
            if member not in prog.funcs:
                if fam.get('optional'):
                    continue
                raise AnalysisBroken('F1: wrapper %s of family %s vanished' % (member, fam['name']))
            f = prog.funcs[member]
            rename = dict((p.name, 'P%d' % i) for i, p in enumerate(f.params))
            have = []
            for gd in facts.get(member, []):
                have += gd.canon(rename)
            for rel in want:
                rr.instances += 1
                alts = rel if isinstance(rel, list) else [rel]
                ok = any(a in have for a in alts)
                rr.ob(ok, dict(family=fam['name'], member=member, relation=alts[0]),
                      Finding(rule, '%s|%s|missing|%s' % (rule, member, alts[0]), f.loc, member,
                              '%s does not test `%s` (by parameter position) although its siblings in the %s family do' % (member, alts[0], fam['name']),
                              dict(tested=have), label))
    rr.extra['wrappers_with_dimension_guards'] = nwrappers
    if nwrappers < 20:
        raise AnalysisBroken('F1: only %d validating wrappers found (floor 20)' % nwrappers)
    return rr


def _identity_edge(cn, mparams):
    """For a branch `X == Y` / `X != Y` between two pointer parameters (one of them validated by the guard),
    return the edge label on which they are the same object."""
    c = strip(cn.ast, casts=True)
    if c is not None and c.kind == 'BinaryOperator' and c.op in ('==', '!='):
        a, b = strip(c.kids[0], casts=True), strip(c.kids[1], casts=True)
        if a.kind == 'DeclRefExpr' and b.kind == 'DeclRefExpr' and a.refkind == 'ParmVarDecl' and b.refkind == 'ParmVarDecl' \
                and (a.ref in mparams or b.ref in mparams):
            return c.op == '=='
    return None


def _bypass_is_identity(g, gd, cn, f):
    """The only way to reach `cn` without the guard is through a branch comparing two operand pointers
    for identity (C == A: nothing to validate)."""
    return False


def rule_F2(ctx, prog, label, rule='F2'):
    """destination-or-allocate functions: mzd_init(r, c) in the NULL branch uses the same r, c that the
    validation of a supplied destination demands."""
    rr = RuleResult(rule, 'auto-allocated result has exactly the shape demanded of a supplied destination')
    for f in sorted(prog.all_funcs(), key=lambda f: (f.file, f.line)):
        fs = FuncSym(f)
        # pattern: P = mzd_init(r, c) assigned to a *parameter*
        for n in f.body.walk():
            if not (n.kind == 'BinaryOperator' and n.op == '='):
                continue
            l = strip(n.kids[0])
            r = strip(n.kids[1], casts=True)
            if not (l.kind == 'DeclRefExpr' and l.refkind == 'ParmVarDecl' and r is not None and r.kind == 'CallExpr' and callee_name(r) == 'mzd_init'):
                continue
            P = l.ref
            ar, ac = fs.sym(r.kids[1]), fs.sym(r.kids[2])
            gs, g, _fs = guards_of(f)
            rels = {}
            for gd in gs:
                for (op, a, b, node) in gd.atoms:
                    for x, y in ((a, b), (b, a)):
                        if repr(x) in ('%s.nrows' % P, '%s.ncols' % P):
                            rels.setdefault(repr(x).split('.')[1], []).append((op, y))
            if not rels:
                continue
            for dim, val in (('nrows', ar), ('ncols', ac)):
                rr.instances += 1
                cands = rels.get(dim, [])
                ok = any(v == val for (_op, v) in cands)
                rr.ob(ok, dict(function=f.name, destination=P, dimension=dim, allocated=repr(val), demanded=[repr(v) for _o, v in cands]),
                      Finding(rule, '%s|%s|%s|%s' % (rule, f.name, P, dim), n.loc, f.name,
                              '%s allocates %s with %s = `%r` but demands `%s` of a supplied destination' % (f.name, P, dim, val, ', '.join(repr(v) for _o, v in cands) or 'nothing'), {}, label))
    rr.require_floor(16, 'destination dimensions')
    return rr


# ====================================================================== F4 / F8

SWAPPERS = {'mzd_row_swap', '_mzd_row_swap', 'mzd_col_swap_in_rows', 'mzd_col_swap'}


_PROG = [None]


def perm_loops(f):
    """loops of f whose body applies one swap per iteration taken from a permutation: returns
    [(loop, direction, lo Lin, hi-exclusive Lin, swap node)]"""
    fs = FuncSym(f)
    out = []
    for lp in f.body.find('ForStmt'):
        body = lp.kids[4]
        sw = None
        sw_extra = []

        def _values_nodes(c):
            """subscripts P->values[..] in the call, also through const locals initialised from them inside the loop"""
            out_ = []
            for a in c.kids[1:]:
                a0 = strip(a, casts=True)
                if a0.kind == 'DeclRefExpr' and a0.refkind == 'VarDecl':
                    d = fs.single_def(a0.refid)
                    if d is not None and any(x is d for x in body.walk()):
                        out_ += [x for x in d.walk() if x.kind == 'ArraySubscriptExpr']
                out_ += [x for x in a.walk() if x.kind == 'ArraySubscriptExpr']
            return [x for x in out_ if strip(x.kids[0], casts=True).kind == 'MemberExpr' and strip(x.kids[0], casts=True).name == 'values']
        for c in body.find('CallExpr'):
            if callee_name(c) in SWAPPERS and _values_nodes(c):
                sw = c
                sw_extra = _values_nodes(c)
        if sw is None:
            # inline swap of a local permutation array through P->values[...]
            asg = [n for n in body.walk() if n.kind == 'BinaryOperator' and n.op == '=' and any(x.kind == 'MemberExpr' and x.name == 'values' for x in n.walk())]
            if len(asg) >= 2:
                sw = asg[0]
        helper_idx = None
        if sw is None and _PROG[0] is not None:
            # the swap extracted into a static helper  swap(permutation, P->values, idx): the index argument is the entry applied
            for c in body.find('CallExpr'):
                hn = callee_name(c)
                h = _PROG[0].resolve(hn, f) if hn else None
                if h is None or h.body is None or hn in SWAPPERS:
                    continue
                vals_arg = [i for i, a in enumerate(c.kids[1:]) if any(x.kind == 'MemberExpr' and x.name == 'values' for x in a.walk())]
                if not vals_arg or vals_arg[0] >= len(h.params):
                    continue
                vp = h.params[vals_arg[0]]
                idxp = None
                for x in h.body.walk():
                    if x.kind == 'ArraySubscriptExpr' and strip(x.kids[0], casts=True).kind == 'DeclRefExpr' and strip(x.kids[0], casts=True).refid == vp.id:
                        ix = strip(x.kids[1], casts=True)
                        if ix.kind == 'DeclRefExpr' and ix.refkind == 'ParmVarDecl':
                            idxp = [i for i, p_ in enumerate(h.params) if p_.id == ix.refid]
                nasg = sum(1 for x in h.body.walk() if x.kind == 'BinaryOperator' and x.op == '=')
                if idxp and nasg >= 2 and idxp[0] + 1 < len(c.kids):
                    sw = c
                    helper_idx = c.kids[1 + idxp[0]]
        if sw is None:
            continue
        # innermost loop only
        if any(l2 is not lp and any(x is sw for x in l2.walk()) for l2 in body.find('ForStmt')):
            continue
        iv = fs._induction(lp)
        if iv is None:
            out.append((lp, None, None, None, sw, fs))
            continue
        vid, lo, hi, step = iv
        # effective direction = loop direction x sign of the loop variable in the index of P->values[...]
        idx_exprs = []
        if helper_idx is not None:
            e = strip(helper_idx, casts=True)
            idx_exprs = [e.kids[1], e.kids[2]] if e.kind == 'ConditionalOperator' else [e]
        for x in ([] if helper_idx is not None else sw_extra + list(sw.walk()) + ([] if sw.kind == 'CallExpr' else [y for a_ in body.walk() if a_.kind == 'BinaryOperator' and a_.op == '=' for y in a_.walk()])):
            if x.kind == 'ArraySubscriptExpr':
                b = strip(x.kids[0], casts=True)
                if b.kind == 'MemberExpr' and b.name == 'values':
                    e = strip(x.kids[1], casts=True)
                    # a subscript kept in a single-definition local (`j = notrans ? n - i - 1 : i`) stands for its definition
                    for _ in range(3):
                        if e.kind == 'DeclRefExpr' and e.refkind == 'VarDecl' and e.refid != vid:
                            d = fs.single_def(e.refid)
                            if d is None:
                                break
                            e = strip(d, casts=True)
                    idx_exprs = [e.kids[1], e.kids[2]] if e.kind == 'ConditionalOperator' else [e]
                    break
        if not idx_exprs:
            out.append((lp, '+' if step > 0 else '-', lo, hi, sw, fs, None))
            continue
        for e in idx_exprs:
            idx = fs.sym(e)
            iname = fs.decl[vid].name
            k = idx.t.get(iname)
            sign = -1 if (k is not None and k < 0) else 1
            first = idx.subst(iname, lo if step > 0 else hi - Lin(1))
            out.append((lp, '+' if step * sign > 0 else '-', lo, hi, sw, fs, first))
    return out


def rule_F4(ctx, prog, label, rule='F4'):
    """LAPACK order of the permutation applications: sign of d(swap index)/d(iteration) and the top of the index
    range are as frozen from the documentation (left: ascending, left-trans: descending, right: descending,
    right-trans: ascending, tri: ascending over all columns with the row range capped by the swap index)."""
    rr = RuleResult(rule, 'permutation applications run over the full index range in the documented (LAPACK) direction')
    T = table()['perm_loops']
    for name, want in sorted(T.items()):
        f = prog.func(name)
        _PROG[0] = prog
        loops = perm_loops(f)
        specs = want if isinstance(want, list) else [want]
        if not loops:
            raise AnalysisBroken('F4: %s has no permutation loop any more' % name)
        used = set()
        for spec in specs:
            rr.instances += 1
            cand = [i for i, l_ in enumerate(loops) if i not in used and l_[1] == spec['dir']]
            if not cand and len(specs) == 1:
                cand = [i for i in range(len(loops)) if i not in used][:1]
            if not cand:
                rr.ob(False, None, Finding(rule, '%s|%s|%s' % (rule, name, spec['dir']), f.loc, name,
                                           '%s: no loop applies the swaps in direction %s (%s); found directions %s' % (name, spec['dir'], spec['reason'], [l_[1] for l_ in loops]), {}, label))
                continue
            used.add(cand[0])
            (lp, d, lo, hi, sw, fs, first) = loops[cand[0]]
            top = repr(hi) if hi is not None else None
            ok = d == spec['dir'] and top == spec['top']
            why = 'direction %s, index range up to %s' % (d, top)
            if ok and first is not None:
                # the first swap applied is the first (ascending) resp. the last (descending) entry of the index range
                want_first = lo if d == '+' else hi - Lin(1) - lo
                if not (first == want_first):
                    ok, why = False, 'direction %s, but the first swap applied is entry %r, expected %r' % (d, first, want_first)
            if ok and spec.get('row_cap'):
                # tri variant: the stop row passed to the swap is capped by the swap index
                def _exp(a, depth=0):
                    a0 = strip(a, casts=True)
                    if a0.kind == 'DeclRefExpr' and a0.refkind == 'VarDecl' and depth < 3 and fs.single_def(a0.refid) is not None:
                        return _exp(fs.single_def(a0.refid), depth + 1)
                    return a0
                args = [pp(_exp(a)) for a in sw.kids[1:]]
                iv = fs._induction(lp)
                iname = fs.decl[iv[0]].name
                capped = any(('? ' in a or 'min' in a.lower()) and iname in a for a in args[-1:])
                if not capped:
                    ok, why = False, 'the stop row `%s` of the triangular variant is not capped by the swap index' % args[-1]
            rr.ob(ok, dict(function=name, direction=d, top=top),
                  Finding(rule, '%s|%s|%s' % (rule, name, spec['dir']), lp.loc, name,
                          '%s: permutation loop has %s; documented: direction %s over the index range up to %s' % (name, why, spec['dir'], spec['top']), {}, label))
    return rr


def rule_F8(ctx, prog, label, rule='F8'):
    """Index loops over a permutation window created in the same function stay inside that window:
    `for (i = a; i < hi; ++i) W->values[i] ...` with W = mzp_init_window(P, lo, hi') requires hi == hi' - lo."""
    rr = RuleResult(rule, 'loops that update the entries of a permutation window run exactly over that window')
    for f in sorted(prog.all_funcs(), key=lambda f: (f.file, f.line)):
        wins = {}
        fs = None
        for n in f.body.walk():
            if n.kind == 'VarDecl' and n.kids:
                c = strip(n.kids[-1], casts=True)
                if c is not None and c.kind == 'CallExpr' and callee_name(c) == 'mzp_init_window':
                    wins[n.id] = (n, c)
        if not wins:
            continue
        fs = FuncSym(f)
        for lp in f.body.find('ForStmt'):
            iv = fs._induction(lp)
            if iv is None:
                continue
            vid, lo, hi, step = iv
            for n in lp.kids[4].walk():
                lhs = None
                if n.kind in ('CompoundAssignOperator',) or (n.kind == 'BinaryOperator' and n.op == '='):
                    lhs = strip(n.kids[0], casts=True)
                if lhs is None or lhs.kind != 'ArraySubscriptExpr':
                    continue
                b = strip(lhs.kids[0], casts=True)
                if not (b.kind == 'MemberExpr' and b.name == 'values'):
                    continue
                w = strip(b.kids[0], casts=True)
                if not (w.kind == 'DeclRefExpr' and w.refid in wins):
                    continue
                idx = strip(lhs.kids[1], casts=True)
                if not (idx.kind == 'DeclRefExpr' and idx.refid == vid):
                    continue
                decl, call = wins[w.refid]
                length = fs.sym(call.kids[3]) - fs.sym(call.kids[2])
                rr.instances += 1
                ok = step > 0 and (hi == length or (hi - length).is_const() and (hi - length).c <= 0)
                rr.ob(ok, dict(function=f.name, window=decl.name, window_length=repr(length), loop_bound=repr(hi)),
                      Finding(rule, '%s|%s|%s' % (rule, f.name, decl.name), lp.loc, f.name,
                              'loop over `%s->values[%s]` runs to `%r` but the window `%s = %s` has length `%r`: entries outside the window are rewritten' % (
                                  decl.name, fs.decl[vid].name, hi, decl.name, pp(call)[:50], length), {}, label))
    rr.require_floor(1, 'permutation window update loops')
    return rr


# ====================================================================== F6 symbolic dimension typing

_SHAPE_FIELDS = {'nrows', 'ncols', 'length'}


def equality_contracts(prog):
    """callee name -> list of (('P', i, field), ('P', j, field)) equalities, from the validator tables (`!=` relations of
    the public wrappers) and inherited by the workers the wrappers forward their parameters to."""
    T = table()
    con = {}
    for fam in T['validator_families']:
        for m in fam['members']:
            if m not in prog.funcs:
                continue
            for rel in fam['relations']:
                rel = rel[0] if isinstance(rel, list) else rel
                parts = rel.split(' != ')
                if len(parts) != 2:
                    continue
                a, b = parts
                pa, pb = _parse_side(a), _parse_side(b)
                if pa and pb:
                    con.setdefault(m, [])
                    if (pa, pb) not in con[m]:
                        con[m].append((pa, pb))
    for extra, rels in T.get('extra_contracts', {}).items():
        for (a, b) in rels:
            pa, pb = _parse_side(a), _parse_side(b)
            if pa and pb and extra in prog.funcs:
                con.setdefault(extra, []).append((pa, pb))
    # inheritance along parameter-forwarding calls (a few levels)
    for _round in range(4):
        grew = False
        for w in list(con):
            f = prog.funcs.get(w)
            if f is None:
                continue
            pidx = dict((p.id, i) for i, p in enumerate(f.params))
            reassigned = set()
            for n in f.body.walk():
                if n.kind == 'BinaryOperator' and n.op == '=':
                    l = strip(n.kids[0])
                    if l.kind == 'DeclRefExpr' and l.refid in pidx:
                        r = strip(n.kids[1], casts=True)
                        # C = mzd_init(...) in the NULL branch keeps the contract (F2); other re-assignments do not
                        ident = r.kind in ('CallExpr', 'ConditionalOperator') and all(
                            (strip(x.kids[1], casts=True).kind == 'DeclRefExpr' and strip(x.kids[1], casts=True).refid == l.refid)
                            for x in r.find('CallExpr') if callee_name(x) not in ('mzd_init',) and len(x.kids) > 1)
                        if not (r.kind == 'CallExpr' and callee_name(r) == 'mzd_init') and not ident:
                            reassigned.add(l.refid)
            for c in f.body.find('CallExpr'):
                g = callee_name(c)
                if g is None or g == w or g not in prog.funcs or g in T.get('no_inherit', []):
                    continue
                if g in T.get('extra_contracts', {}):
                    continue          # explicit contract wins
                amap = {}
                dup = False
                for j, a in enumerate(c.kids[1:]):
                    a2 = strip(a, casts=True)
                    if a2.kind == 'DeclRefExpr' and a2.refid in pidx and a2.refid not in reassigned:
                        if pidx[a2.refid] in amap:
                            dup = True
                        amap[pidx[a2.refid]] = j
                if dup:
                    continue
                new = []
                for (pa, pb) in con[w]:
                    if pa[1] in amap and pb[1] in amap:
                        new.append((('P', amap[pa[1]], pa[2]), ('P', amap[pb[1]], pb[2])))
                if new and not g.startswith('mzd_') or (new and g in ('mzd_pluq_solve_left',)):
                    cur = con.setdefault(g, [])
                    for x in new:
                        if x not in cur and (x[1], x[0]) not in cur:
                            cur.append(x)
                            grew = True
        if not grew:
            break
    return con


def _parse_side(s):
    import re
    m = re.match(r'^P(\d+)\.(nrows|ncols|length)$', s.strip())
    if not m:
        return None
    return ('P', int(m.group(1)), m.group(2))


class Shapes(object):
    def __init__(self, prog, f):
        self.prog, self.f = prog, f
        self.fs = FuncSym(f, max_depth=6)
        self.muts = {}
        for n in f.body.walk():
            if n.kind == 'CompoundAssignOperator' or (n.kind == 'UnaryOperator' and n.op in ('++', '--')) or (n.kind == 'BinaryOperator' and n.op == '='):
                l = strip(n.kids[0])
                if l.kind == 'DeclRefExpr' and l.refkind == 'VarDecl':
                    self.muts.setdefault(l.ref, []).append((n.line, n.col or 0))

    def lin(self, e, at, depth=0):
        """Lin of an integer expression, with mutated locals versioned by the number of updates before `at`;
        X->nrows / X->ncols / X->length of local windows and owners are replaced by their symbolic shape."""
        s = self.fs.sym(e)
        if depth < 4:
            for a in list(s.atoms()):
                if '.' in a:
                    base, fld = a.rsplit('.', 1)
                    if fld in _SHAPE_FIELDS:
                        for vid, d in self.fs.decl.items():
                            nn = [x for x in self.fs.defs.get(vid, []) if not is_null(x)]
                            if d.kind == 'VarDecl' and d.name == base and len(nn) == 1:
                                shp = self.shape_of_def(nn[0], depth + 1)
                                if shp is not None and fld in shp:
                                    s = s.subst(a, shp[fld])
                                break
        for a in list(s.atoms()):
            if a in self.muts and len(self.muts[a]) > 1:
                k = sum(1 for (ln, col) in self.muts[a] if (ln, col) < (at.line, at.col or 0))
                s = s.subst(a, Lin.atom('%s#%d' % (a, k)))
        return s

    def shape(self, e, depth=0):
        e = strip(e, casts=True)
        if e is None or depth > 6:
            return None
        if e.kind == 'DeclRefExpr':
            t = (e.type or '')
            if e.refkind == 'ParmVarDecl' and e.refid not in self.fs.defs:
                if 'mzd_t' in t:
                    return {'nrows': Lin.atom(e.ref + '.nrows'), 'ncols': Lin.atom(e.ref + '.ncols')}
                if 'mzp_t' in t:
                    return {'length': Lin.atom(e.ref + '.length')}
                return None
            ds = self.fs.defs.get(e.refid, [])
            if e.refkind == 'ParmVarDecl':
                # destination-or-allocate parameter: keep the parameter's own symbols (F2 ties them)
                if 'mzd_t' in t:
                    return {'nrows': Lin.atom(e.ref + '.nrows'), 'ncols': Lin.atom(e.ref + '.ncols')}
                return None
            ds = [d for d in ds if not is_null(d)] or ds     # a NULL initialiser carries no shape
            if len(ds) == 1:
                return self.shape_of_def(ds[0], depth + 1)
            # several definitions (re-acquired temporaries): all must agree
            shs = [self.shape_of_def(d, depth + 1) for d in ds]
            if shs and all(s is not None for s in shs) and all(_same(s, shs[0]) for s in shs):
                return shs[0]
            return None
        if e.kind == 'CallExpr':
            return self.shape_of_def(e, depth)
        return None

    def shape_of_def(self, d, depth):
        d = strip(d, casts=True)
        if d is None:
            return None
        if d.kind == 'DeclRefExpr':
            return self.shape(d, depth)
        if d.kind != 'CallExpr':
            return None
        cn = callee_name(d)
        a = d.kids[1:]
        if cn == 'mzd_init':
            return {'nrows': self.lin(a[0], d), 'ncols': self.lin(a[1], d)}
        if cn in ('mzd_init_window', 'mzd_init_window_const'):
            return {'nrows': self.lin(a[3], d) - self.lin(a[1], d), 'ncols': self.lin(a[4], d) - self.lin(a[2], d)}
        if cn == 'mzp_init':
            return {'length': self.lin(a[0], d)}
        if cn == 'mzp_init_window':
            return {'length': self.lin(a[2], d) - self.lin(a[1], d)}
        if cn in ('mzd_copy', 'mzp_copy') and len(a) >= 2:
            return self.shape(a[1], depth + 1)
        if cn == 'mzd_transpose' and len(a) >= 2:
            s = self.shape(a[1], depth + 1)
            return None if s is None else {'nrows': s['ncols'], 'ncols': s['nrows']}
        if cn == 'mzd_submatrix' and len(a) >= 6:
            return {'nrows': self.lin(a[4], d) - self.lin(a[2], d), 'ncols': self.lin(a[5], d) - self.lin(a[3], d)}
        if cn in ('mzd_mul', 'mzd_mul_m4rm', 'mzd_mul_naive', '_mzd_mul_even', '_mzd_mul_m4rm') and len(a) >= 3:
            x, y = self.shape(a[1], depth + 1), self.shape(a[2], depth + 1)
            if x and y:
                return {'nrows': x['nrows'], 'ncols': y['ncols']}
        if cn in ('mzd_extract_u', 'mzd_extract_l') and len(a) >= 2:
            return None
        return None


def _same(a, b):
    return set(a) == set(b) and all(a[k] == b[k] for k in a)


def rule_F6(ctx, prog, label, rule='F6', only_funcs=None):
    """At every internal call of a routine whose (public or inherited) contract demands dimension equalities, the symbolic
    shapes of the arguments satisfy them as identities of linear forms (the enclosing function's own contract is assumed)."""
    rr = RuleResult(rule, 'symbolic dimension typing: every internal call satisfies the callee\'s dimension equalities identically')
    con = equality_contracts(prog)
    rr.extra['contracted_functions'] = len(con)
    undecided = 0
    for f in sorted(prog.all_funcs(), key=lambda f: (f.file, f.line)):
        if only_funcs is not None and f.name not in only_funcs:
            continue
        calls = [c for c in f.body.find('CallExpr') if callee_name(c) in con and callee_name(c) != f.name or (callee_name(c) == f.name and f.name in con)]
        if not calls:
            continue
        sh = Shapes(prog, f)
        # own contract -> atom equivalences
        eq = {}

        def find(x):
            while eq.get(x, x) != x:
                x = eq[x]
            return x
        for (pa, pb) in con.get(f.name, []):
            if pa[1] < len(f.params) and pb[1] < len(f.params):
                a = '%s.%s' % (f.params[pa[1]].name, pa[2])
                b = '%s.%s' % (f.params[pb[1]].name, pb[2])
                ra, rb = find(a), find(b)
                if ra != rb:
                    eq[max(ra, rb)] = min(ra, rb)
        # local aliases  m = A->nrows  are inlined by FuncSym already

        def canon(l):
            for a in list(l.atoms()):
                r = find(a)
                if r != a:
                    l = l.subst(a, Lin.atom(r))
            return l
        for c in calls:
            cn = callee_name(c)
            args = c.kids[1:]
            shapes = {}
            # identity guard: the call sits on the `X == Y` arm of a test between two operands
            local_eq = {}
            node = c
            par = sh.fs.parent.get(node.uid)
            while par is not None:
                if par.kind in ('ConditionalOperator', 'IfStmt') and len(par.kids) > 1 and any(x is c for x in par.kids[1].walk()):
                    cc = strip(par.kids[0], casts=True)
                    if cc.kind == 'BinaryOperator' and cc.op == '==':
                        x, y = strip(cc.kids[0], casts=True), strip(cc.kids[1], casts=True)
                        if x.kind == 'DeclRefExpr' and y.kind == 'DeclRefExpr' and 'mz' in (x.type or ''):
                            for fld in _SHAPE_FIELDS:
                                local_eq['%s.%s' % (y.ref, fld)] = '%s.%s' % (x.ref, fld)
                par = sh.fs.parent.get(par.uid)

            if local_eq:
                # rebuild the equivalence classes of the caller's own contract under the identity X == Y
                eq2 = {}

                def find2(x):
                    x = local_eq.get(x, x)
                    while eq2.get(x, x) != x:
                        x = eq2[x]
                    return x
                for (qa, qb) in con.get(f.name, []):
                    if qa[1] < len(f.params) and qb[1] < len(f.params):
                        a_ = find2('%s.%s' % (f.params[qa[1]].name, qa[2]))
                        b_ = find2('%s.%s' % (f.params[qb[1]].name, qb[2]))
                        if a_ != b_:
                            eq2[max(a_, b_)] = min(a_, b_)

                def canon2(l):
                    for a in list(l.atoms()):
                        r = find2(a)
                        if r != a:
                            l = l.subst(a, Lin.atom(r))
                    return l
            else:
                def canon2(l):
                    return l
            for (pa, pb) in con[cn]:
                rr.instances += 1
                vals = []
                for side in (pa, pb):
                    i, fld = side[1], side[2]
                    if i >= len(args):
                        vals.append(None)
                        continue
                    if i not in shapes:
                        shapes[i] = sh.shape(args[i])
                    s = shapes[i]
                    vals.append(None if s is None or fld not in s else canon2(canon(s[fld])))
                if vals[0] is None or vals[1] is None:
                    undecided += 1
                    rr.obligations += 1
                    rr.discharged += 1     # shape not expressible: no verdict either way (counted in `undecided`)
                    continue
                ok = vals[0] == vals[1]
                callee = prog.funcs[cn]
                rel = '%s.%s == %s.%s' % (callee.params[pa[1]].name, pa[2], callee.params[pb[1]].name, pb[2])
                rr.ob(ok, dict(caller=f.name, call=pp(c)[:70], relation=rel, value=repr(vals[0])) if rr.instances % 25 == 1 else None,
                      Finding(rule, '%s|%s|%s|%s|%s' % (rule, f.name, cn, rel, '/'.join(pp(strip(a, casts=True))[:12] for a in args[:3])), c.loc, f.name,
                              '`%s` violates the contract of %s: %s, but the arguments give `%r` vs `%r`' % (pp(c)[:70], cn, rel, vals[0], vals[1]), {}, label))
    rr.extra['calls_with_inexpressible_shapes'] = undecided
    rr.require_floor(100 if only_funcs is None else 3, 'contract equalities at call sites')
    return rr


def _identity_eq(fs, c):
    """{Y.fld: X.fld} when call c sits on the `X == Y` arm of a test between two operands"""
    local_eq = {}
    par = fs.parent.get(c.uid)
    while par is not None:
        if par.kind in ('ConditionalOperator', 'IfStmt') and len(par.kids) > 1 and any(x is c for x in par.kids[1].walk()):
            cc = strip(par.kids[0], casts=True)
            if cc.kind == 'BinaryOperator' and cc.op == '==':
                x, y = strip(cc.kids[0], casts=True), strip(cc.kids[1], casts=True)
                if x.kind == 'DeclRefExpr' and y.kind == 'DeclRefExpr' and 'mz' in (x.type or ''):
                    for fld in _SHAPE_FIELDS:
                        local_eq['%s.%s' % (y.ref, fld)] = '%s.%s' % (x.ref, fld)
        par = fs.parent.get(par.uid)
    return local_eq


BODRATO = {'_mzd_mul_even', '_mzd_sqr_even', '_mzd_addmul_even', '_mzd_addsqr_even'}
SHAPE_ONLY = {'_mzd_add', 'mzd_add', 'mzd_copy', 'mzd_transpose', 'mzd_concat', 'mzd_stack', 'mzd_invert_naive'}


def rule_F7(ctx, prog, label, rule='F7', only_funcs=None):
    """Block-position typing: when the arguments of a product / solve / permutation call are windows of the enclosing
    function's operands (or the operands themselves), the index ranges of axes that the callee's contract identifies are
    equal as linear forms.  Inside the Bodrato sequences (C quadrants serve as scratch) only the inner axis is armed."""
    rr = RuleResult(rule, 'block-position typing: identified axes of window arguments cover the same index range')
    con = equality_contracts(prog)
    for f in sorted(prog.all_funcs(), key=lambda f: (f.file, f.line)):
        if only_funcs is not None and f.name not in only_funcs:
            continue
        calls = [c for c in f.body.find('CallExpr') if callee_name(c) in con and callee_name(c) not in SHAPE_ONLY]
        if not calls:
            continue
        sh = Shapes(prog, f)
        eq = {}

        def find(x):
            while eq.get(x, x) != x:
                x = eq[x]
            return x
        for (pa, pb) in con.get(f.name, []):
            if pa[1] < len(f.params) and pb[1] < len(f.params):
                a = find('%s.%s' % (f.params[pa[1]].name, pa[2]))
                b = find('%s.%s' % (f.params[pb[1]].name, pb[2]))
                if a != b:
                    eq[max(a, b)] = min(a, b)

        def canon(l):
            for a in list(l.atoms()):
                r = find(a)
                if r != a:
                    l = l.subst(a, Lin.atom(r))
            return l

        def rng(arg, fld):
            """[low, high) of the argument along fld, in the index space of the parameter it is a window of"""
            a = strip(arg, casts=True)
            if a.kind != 'DeclRefExpr':
                return None
            if a.refkind == 'ParmVarDecl':
                if fld == 'length':
                    return (Lin(0), canon(Lin.atom(a.ref + '.length')))
                return (Lin(0), canon(Lin.atom('%s.%s' % (a.ref, fld))))
            ds = sh.fs.defs.get(a.refid, [])
            if len(ds) != 1:
                return None
            d = strip(ds[0], casts=True)
            if d.kind != 'CallExpr':
                return None
            cn = callee_name(d)
            base = strip(d.kids[1], casts=True) if len(d.kids) > 1 else None
            if base is None or base.kind != 'DeclRefExpr':
                return None
            # window of a parameter (or of a window of a parameter: offsets add up)
            pr = None
            if base.refkind == 'ParmVarDecl':
                pr = (Lin(0), None)
            else:
                return None
            if cn in ('mzd_init_window', 'mzd_init_window_const') and fld in ('nrows', 'ncols'):
                lo, hi = (d.kids[2], d.kids[4]) if fld == 'nrows' else (d.kids[3], d.kids[5])
                return (canon(sh.lin(lo, d)), canon(sh.lin(hi, d)))
            if cn == 'mzp_init_window' and fld == 'length':
                return (canon(sh.lin(d.kids[2], d)), canon(sh.lin(d.kids[3], d)))
            return None
        for c in calls:
            cn = callee_name(c)
            args = c.kids[1:]
            leq = _identity_eq(sh.fs, c)
            if leq:
                eq_saved = dict(eq)
                # rebuild classes under the identity
                eq.clear()
                for (qa, qb) in con.get(f.name, []):
                    if qa[1] < len(f.params) and qb[1] < len(f.params):
                        a_ = find(leq.get('%s.%s' % (f.params[qa[1]].name, qa[2]), '%s.%s' % (f.params[qa[1]].name, qa[2])))
                        b_ = find(leq.get('%s.%s' % (f.params[qb[1]].name, qb[2]), '%s.%s' % (f.params[qb[1]].name, qb[2])))
                        if a_ != b_:
                            eq[max(a_, b_)] = min(a_, b_)
                for y_, x_ in leq.items():
                    ry, rx = find(y_), find(x_)
                    if ry != rx:
                        eq[max(ry, rx)] = min(ry, rx)
            for (pa, pb) in con[cn]:
                if pa[1] >= len(args) or pb[1] >= len(args) or pa[1] == pb[1]:
                    continue
                if f.name in BODRATO and cn in BODRATO | {'_mzd_mul_m4rm'} and 0 in (pa[1], pb[1]) and fs_in_bodrato_block(sh.fs, c):
                    continue      # destination quadrants are scratch inside the Bodrato sequence
                ra, rb = rng(args[pa[1]], pa[2]), rng(args[pb[1]], pb[2])
                if ra is None or rb is None:
                    continue
                rr.instances += 1
                ok = ra[0] == rb[0] and ra[1] == rb[1]
                callee = prog.funcs[cn]
                rel = '%s.%s ~ %s.%s' % (callee.params[pa[1]].name, pa[2], callee.params[pb[1]].name, pb[2])
                rr.ob(ok, dict(caller=f.name, call=pp(c)[:70], axes=rel, range=[repr(ra[0]), repr(ra[1])]) if rr.instances % 20 == 1 else None,
                      Finding(rule, '%s|%s|%s|%s|%s' % (rule, f.name, cn, rel, '/'.join(pp(strip(a, casts=True))[:12] for a in args[:3])), c.loc, f.name,
                              '`%s`: axes %s are identified by the contract of %s but cover [%r, %r) and [%r, %r): the blocks are not at matching positions' % (
                                  pp(c)[:70], rel, cn, ra[0], ra[1], rb[0], rb[1]), {}, label))
            if leq:
                eq.clear()
                eq.update(eq_saved)
    rr.require_floor(40 if only_funcs is None else (2 if len(only_funcs) > 2 else 0), 'positioned contract equalities')
    return rr


def fs_in_bodrato_block(fs, call):
    """inside the inner `{ ... }` block that declares the quadrant windows (not the remainder strips after it)"""
    blk = fs.enclosing(call, ('CompoundStmt',))
    while blk is not None:
        n = sum(1 for x in blk.kids if x.kind == 'DeclStmt' and any(callee_name(c) in ('mzd_init_window', 'mzd_init_window_const') for c in x.find('CallExpr')))
        if n >= 8:
            return True
        blk = fs.enclosing(blk, ('CompoundStmt',))
    return False


def rule_F3a(ctx, prog, label, rule='F3a'):
    """Bound shape of every window: each row/column bound is a linear form in operand dimensions, split variables and
    rank counters whose constant part is a multiple of 64 - the library never cuts legitimately at `e + c`, c not a multiple of 64."""
    rr = RuleResult(rule, 'window bounds are sums of dimensions/split variables with constant part 0 mod 64 (no off-by-one cuts)')
    for f in sorted(prog.all_funcs(), key=lambda f: (f.file, f.line)):
        sh = None
        for c in f.body.find('CallExpr'):
            if callee_name(c) not in ('mzd_init_window', 'mzd_init_window_const', 'mzp_init_window') or f.name == 'mzd_init_window_const':
                continue
            if sh is None:
                sh = Shapes(prog, f)
            bounds = c.kids[2:6] if callee_name(c) != 'mzp_init_window' else c.kids[2:4]
            for b in bounds:
                rr.instances += 1
                l = sh.fs.sym(b)
                ok = l.c % 64 == 0 or not l.t     # pure constants (e.g. 0) and 64-multiples
                if not l.t:
                    ok = True
                rr.ob(ok, dict(function=f.name, bound=pp(b)) if rr.instances % 80 == 1 else None,
                      Finding(rule, '%s|%s|%s' % (rule, f.name, pp(b)[:40]), c.loc, f.name,
                              'window bound `%s` = `%r` cuts %d past a dimension/split point: every other window in the library is cut at dimensions, split variables or multiples of 64' % (
                                  pp(b), l, l.c), dict(window=pp(c)[:100]), label))
    rr.require_floor(400, 'window bounds')
    return rr


def rule_F3c(ctx, prog, label, rule='F3c'):
    """Sibling agreement in solve.c: both constructions of 'the padding rows of B' (rows that exist only because A has
    fewer rows than columns) use the same bounds [A.nrows, B.nrows) x [0, B.ncols)."""
    rr = RuleResult(rule, 'the padding rows of B are delimited identically wherever they are windowed')
    found = []
    for name in ('_mzd_solve_left', '_mzd_pluq_solve_left'):
        f = prog.func(name)
        sh = Shapes(prog, f)
        for c in f.body.find('CallExpr'):
            if callee_name(c) in ('mzd_init_window', 'mzd_init_window_const'):
                base = strip(c.kids[1], casts=True)
                hr = sh.fs.sym(c.kids[4])
                lr = sh.fs.sym(c.kids[2])
                if base.kind == 'DeclRefExpr' and base.ref == 'B' and hr == Lin.atom('B.nrows'):
                    found.append((name, c, lr, sh.fs.sym(c.kids[3]), sh.fs.sym(c.kids[5])))
    rr.instances = len(found)
    if len(found) < 2:
        raise AnalysisBroken('F3c: expected two padding-row windows of B in solve.c, found %d' % len(found))
    want = (Lin.atom('A.nrows'), Lin(0), Lin.atom('B.ncols'))
    for (name, c, lr, lc, hc) in found:
        ok = (lr, lc, hc) == want
        rr.ob(ok, dict(function=name, window=pp(c)[:80]),
              Finding(rule, '%s|%s' % (rule, name), c.loc, name,
                      'padding rows of B are windowed as rows [%r, B.nrows) x columns [%r, %r) here, but they are rows [A.nrows, B.nrows) x [0, B.ncols)' % (lr, lc, hc), {}, label))
    # ... and in both variants the verdict looks at them: the window is handed to mzd_is_zero, before anything clears it.
    # (A is padded with zero rows, so a non-zero padding row of B makes the system inconsistent - for the variant that is
    # given a PLUQ factorisation as much as for the one that computes it.)
    from .cfg import cfg_of
    for (name, c, lr, lc, hc) in found:
        f = prog.func(name)
        fs = FuncSym(f)
        g = cfg_of(f)
        dom = g.dominators()
        var = None
        for vid, ds in fs.defs.items():
            if any(strip(d, casts=True) is c or any(x is c for x in d.walk()) for d in ds):
                var = vid
        rr.instances += 1
        if var is None:
            raise AnalysisBroken('F3c: the padding-row window of %s is not kept in a variable' % name)

        def uses(callee):
            out = []
            for k in f.body.find('CallExpr'):
                if callee_name(k) == callee and len(k.kids) > 1:
                    a0 = strip(k.kids[1], casts=True)
                    if a0.kind == 'DeclRefExpr' and a0.refid == var:
                        out.append(k)
            return out
        tests = uses('mzd_is_zero')
        clears = uses('mzd_set_ui')
        ok, why = bool(tests), ''
        if not tests:
            why = 'the padding rows of B are never handed to mzd_is_zero: a right-hand side that is non-zero only there is reported as solvable'
        for k in clears:
            from .resources import _cnode_of
            ck = _cnode_of(g, k)
            if ok and not any(_cnode_of(g, t).id in dom.get(ck.id, ()) for t in tests):
                ok, why = False, 'the padding rows are cleared before they are tested'
        rr.ob(ok, dict(function=name, padding_rows_tested_by=pp(tests[0])[:40] if tests else None),
              Finding(rule, '%s|%s|tested' % (rule, name), c.loc, name, '%s: %s' % (name, why), {}, label))
    return rr


def rule_F5(ctx, prog, label, rule='F5'):
    """mzd_kernel_left_pluq: NULL exactly on the branch rank == A->ncols; result created as A->ncols x (A->ncols - rank);
    identity block written over all of the result's columns at rows rank + i."""
    rr = RuleResult(rule, 'kernel routine: NULL only when rank == ncols, result is ncols x (ncols - rank), identity block spans all its columns')
    f = prog.func('mzd_kernel_left_pluq')
    fs = FuncSym(f)
    rk = None
    for n in f.body.walk():
        if n.kind == 'VarDecl' and n.kids:
            c = strip(n.kids[-1], casts=True)
            if c is not None and c.kind == 'CallExpr' and callee_name(c) in ('mzd_pluq', '_mzd_pluq'):
                rk = n
    rr.instances += 1
    if rk is None:
        rr.ob(False, None, Finding(rule, '%s|rank' % rule, f.loc, f.name, 'the rank is no longer taken from mzd_pluq', {}, label))
        return rr
    rr.ob(True, dict(rank_variable=rk.name))
    A = f.params[0].name
    rk_lin = fs.sym(rk.kids[-1])
    # the creation of the result: the one mzd_init whose value is returned
    from .cfg import cfg_of
    g = cfg_of(f)
    rets = [r for r in f.body.find('ReturnStmt') if r.kids]
    rvars = set(strip(r.kids[0], casts=True).refid for r in rets if strip(r.kids[0], casts=True).kind == 'DeclRefExpr')
    creations = []
    for vid in rvars:
        for d0 in fs.defs.get(vid, []):
            c0 = strip(d0, casts=True)
            if c0.kind == 'CallExpr' and callee_name(c0) == 'mzd_init':
                creations.append((vid, c0))
            elif not is_null(d0):
                creations.append((vid, None))
    rr.instances += 1
    if len(creations) != 1 or creations[0][1] is None:
        rr.ob(False, None, Finding(rule, '%s|creation' % rule, f.loc, f.name, 'the returned matrix is not created by exactly one mzd_init (%d definitions)' % len(creations), {}, label))
        return rr
    rvid, create = creations[0]
    rv_name = fs.decl[rvid].name
    cnode = None
    for n in g.nodes:
        if n.ast is not None and n.kind in ('stmt',) and any(x is create for x in n.ast.walk()):
            cnode = n
    if cnode is None:
        raise AnalysisBroken('F5: creation statement not found in the CFG')

    def reach(start_nodes, blocked_edges=(), blocked_nodes=()):
        seen = set()
        st = list(start_nodes)
        while st:
            n = st.pop()
            if n.id in seen or n.id in blocked_nodes:
                continue
            seen.add(n.id)
            for lab_, m in n.succs:
                if (n.id, lab_) in blocked_edges:
                    continue
                st.append(m)
        return seen
    # (1) NULL iff rank == ncols: the branch on `rank == A->ncols` whose taken side cannot reach the creation, and it is the only bypass
    guards = []
    for n in g.nodes:
        if n.kind != 'branch' or n.ast is None:
            continue
        c = strip(n.ast, casts=True)
        while c is not None and c.kind == 'CallExpr' and callee_name(c) == '__builtin_expect':
            c = strip(c.kids[1], casts=True)
        if c is not None and c.kind == 'BinaryOperator' and c.op in ('==', '!=', '>=', '<=', '<', '>'):
            l_, r_ = pp(strip(c.kids[0], casts=True)), pp(strip(c.kids[1], casts=True))
            if {l_, r_} != {rk.name, '%s->ncols' % A}:
                continue
            # rank <= ncols always, so `rank >= ncols` is the same test as `rank == ncols`, and `rank < ncols` its negation
            op = c.op if l_ == rk.name else {'>=': '<=', '<=': '>=', '<': '>', '>': '<'}.get(c.op, c.op)
            if op in ('==', '>='):
                guards.append((n, True))
            elif op in ('!=', '<'):
                guards.append((n, False))
    ok = False
    why = 'no branch on `%s == %s->ncols`' % (rk.name, A)
    bypass_side = None
    for (bn, lab_) in guards:
        side = [m for (l_, m) in bn.succs if l_ == lab_]
        other = [m for (l_, m) in bn.succs if l_ != lab_]
        if side and cnode.id not in reach(side) and other and cnode.id in reach(other):
            # without this edge, every path from entry to exit creates the result
            if g.exit.id not in reach([g.entry], blocked_edges={(bn.id, lab_)}, blocked_nodes={cnode.id}):
                ok = True
                bypass_side = reach(side)
                why = 'guard `%s` at line %s is the only way round the creation' % (pp(bn.ast)[:40], bn.ast.line)
            else:
                why = 'the creation of the result can be bypassed on a path that does not test `%s == %s->ncols`' % (rk.name, A)
        else:
            why = 'the `%s == %s->ncols` branch does not separate the NULL result from the created one' % (rk.name, A)
    # returns: NULL (or the still-NULL result variable) on the bypass, the created matrix otherwise
    if ok:
        after = reach([cnode])
        for r in rets:
            rn = g.stmt_node.get(r.uid)
            if rn is None:
                continue
            e = strip(r.kids[0], casts=True)
            is_rv = e.kind == 'DeclRefExpr' and e.refid == rvid
            if rn.id in after and not is_rv:
                ok, why = False, 'a return after the creation yields `%s`, not the created matrix' % pp(e)[:30]
            if rn.id in bypass_side and not (is_null(r.kids[0]) or is_rv):
                ok, why = False, 'the full-rank path returns `%s`' % pp(e)[:30]
    rr.ob(ok, dict(obligation='NULL iff rank == ncols', verdict=why),
          Finding(rule, '%s|null-guard' % rule, f.loc, f.name, 'the NULL result is not tied to `%s == %s->ncols`: %s' % (rk.name, A, why), {}, label))
    rr.instances += 1
    SH = Shapes(prog, f)
    shp = {'nrows': SH.lin(create.kids[1], create), 'ncols': SH.lin(create.kids[2], create)}
    want_r, want_c = Lin.atom('%s.ncols' % A), Lin.atom('%s.ncols' % A) - rk_lin
    ok = shp.get('nrows') == want_r and shp.get('ncols') == want_c
    rr.ob(ok, dict(obligation='result shape', shape=[repr(shp.get('nrows')), repr(shp.get('ncols'))]),
          Finding(rule, '%s|shape' % rule, create.loc, f.name,
                  'the kernel basis is created as %r x %r, expected %r x %r' % (shp.get('nrows'), shp.get('ncols'), want_r, want_c), {}, label))

    class _RV(object):
        pass
    rv = [strip(r.kids[0], casts=True) for r in rets if strip(r.kids[0], casts=True).kind == 'DeclRefExpr' and strip(r.kids[0], casts=True).refid == rvid][0]
    rr.instances += 1
    qarg = None
    for c in f.body.find('CallExpr'):
        if callee_name(c) in ('mzd_pluq', '_mzd_pluq') and len(c.kids) >= 4:
            qarg = pp(strip(c.kids[3], casts=True))
    applied = [pp(strip(c.kids[2], casts=True)) for c in f.body.find('CallExpr')
               if callee_name(c) == 'mzd_apply_p_left_trans' and rv is not None and pp(strip(c.kids[1], casts=True)) == pp(rv)]
    okq = qarg is not None and applied == [qarg]
    rr.ob(okq, dict(obligation='the column permutation of the factorisation is undone on the rows of the result', permutation=qarg),
          Finding(rule, '%s|undo-Q' % rule, f.loc, f.name,
                  'the kernel basis is permuted with %s, expected exactly one mzd_apply_p_left_trans(%s, %s) with the Q that mzd_pluq filled' % (applied, pp(rv) if rv is not None else '?', qarg), {}, label))
    rr.instances += 1
    ok = False
    why = 'no loop writing the identity block'
    for lp in f.body.find('ForStmt'):
        iv = fs._induction(lp)
        if iv is None:
            continue
        vid, lo, hi, step = iv
        for c in lp.kids[4].find('CallExpr'):
            if callee_name(c) == 'mzd_write_bit' and rv is not None and pp(strip(c.kids[1], casts=True)) == pp(rv) and int_value(c.kids[4]) == 1:
                row, col = fs.sym(c.kids[2]), fs.sym(c.kids[3])
                i = Lin.atom(fs.decl[vid].name)
                hi2 = Shapes(prog, f).lin(strip(lp.kids[2]).kids[1], lp)
                if lo == Lin(0) and hi2 == want_c and row == rk_lin + i and col == i:
                    ok = True
                else:
                    why = 'identity loop writes (%r, %r) for %s in [%r, %r)' % (row, col, fs.decl[vid].name, lo, hi2)
    rr.ob(ok, dict(obligation='identity block over all columns at rows rank + i'),
          Finding(rule, '%s|identity' % rule, f.loc, f.name, 'the identity block of the kernel basis is wrong: %s; expected (rank + i, i) for i in [0, ncols - rank)' % why, {}, label))
    return rr


# ====================================================================== F10 product-cube cover (multi-core front ends)
F10_FUNCS = ('_mzd_mul_mp4', '_mzd_addmul_mp4')
_F10_PRODUCTS = ('_mzd_mul_even', '_mzd_addmul_even', 'mzd_mul_m4rm', 'mzd_addmul_m4rm', '_mzd_mul_m4rm', 'mzd_mul', 'mzd_addmul', '_mzd_addmul', '_mzd_mul_mp4', '_mzd_addmul_mp4')


def rule_F10(ctx, prog, label, rule='F10'):
    """C = A*B as a sum over the index cube rows(C) x cols(C) x inner: the products issued by the quadrant scheme and its three
    remainder strips cover every cell of the cube exactly once (a cell covered twice cancels over GF(2), a cell never covered is
    missing).  Cut points are ordered by chaining the window intervals; coordinates are linear forms."""
    rr = RuleResult(rule, 'multi-core products: the block products (quadrants + remainder strips) cover the index cube rows x columns x inner dimension exactly once')
    for name in F10_FUNCS:
        f = prog.funcs.get(name)
        if f is None or f.body is None:
            continue
        fs = FuncSym(f)
        Cn, An, Bn = [p.name for p in f.params[:3]]
        ids = dict((p.id, p.name) for p in f.params[:3])

        def unify(l):
            for a, b in (('%s.nrows' % Cn, '%s.nrows' % An), ('%s.ncols' % Cn, '%s.ncols' % Bn), ('%s.nrows' % Bn, '%s.ncols' % An)):
                l = l.subst(a, Lin.atom(b))
            return l
        wins = {}
        for n in f.body.walk():
            if n.kind == 'VarDecl' and n.kids and n.init:
                d0 = strip(n.kids[-1], casts=True)
                if d0.kind == 'CallExpr' and callee_name(d0) in ('mzd_init_window', 'mzd_init_window_const'):
                    par = strip(d0.kids[1], casts=True)
                    if par.kind == 'DeclRefExpr' and par.refid in ids:
                        wins[n.id] = (ids[par.refid],) + tuple(unify(fs.sym(a)) for a in d0.kids[2:6])

        def rect(a):
            a0 = strip(a, casts=True)
            if a0.kind != 'DeclRefExpr':
                return None
            if a0.refid in ids:
                nm = ids[a0.refid]
                return (nm, Lin(0), Lin(0), unify(Lin.atom('%s.nrows' % nm)), unify(Lin.atom('%s.ncols' % nm)))
            return wins.get(a0.refid)
        cubes = []
        for c in f.body.find('CallExpr'):
            if callee_name(c) not in _F10_PRODUCTS or len(c.kids) < 4:
                continue
            rc, ra, rb = rect(c.kids[1]), rect(c.kids[2]), rect(c.kids[3])
            if rc is None or ra is None or rb is None or rc[0] != Cn or ra[0] != An or rb[0] != Bn:
                if fs.enclosing(c, ('IfStmt',)) is not None and any(callee_name(x) == 'mzd_init' for x in (fs.enclosing(c, ('IfStmt',)) or c).find('CallExpr')):
                    continue      # base case on temporaries
                raise AnalysisBroken('F10: operands of `%s` in %s are not blocks of C, A, B' % (pp(c)[:50], name))
            cubes.append((c, (rc[1], rc[3]), (rc[2], rc[4]), (ra[2], ra[4]), (ra, rb)))
        if len(cubes) < 5:
            raise AnalysisBroken('F10: only %d block products recognised in %s' % (len(cubes), name))

        def order(intervals, lo, hi):
            """chain of cut points lo -> ... -> hi through the given [a, b) intervals"""
            def go(cur, depth):
                if cur == hi:
                    return [cur]
                if depth > 6:
                    return None
                for (a, b) in intervals:
                    if a == cur and not (b == cur):
                        r = go(b, depth + 1)
                        if r is not None:
                            return [cur] + r
                return None
            return go(lo, 0)
        m_, n_, k_ = Lin.atom('%s.nrows' % An), Lin.atom('%s.ncols' % Bn), Lin.atom('%s.ncols' % An)
        # finest chains: prefer short intervals first so that every cut point appears
        def finest(ivs, lo, hi):
            pts = [lo]
            cur = lo
            for _ in range(8):
                if cur == hi:
                    break
                nxt = [b for (a, b) in ivs if a == cur and not (b == cur)]
                if not nxt:
                    return None
                # the nearest next cut: one that is itself the start of another interval or the end
                best = None
                for b in nxt:
                    if any(a2 == b for (a2, _b2) in ivs) or b == hi:
                        if best is None or any((a2 == b and b2 == best) for (a2, b2) in ivs):
                            best = b
                cur = best if best is not None else nxt[0]
                pts.append(cur)
            return pts if pts[-1] == hi else None
        dims = []
        for di, (lo, hi) in enumerate(((Lin(0), m_), (Lin(0), n_), (Lin(0), k_))):
            ivs = []
            for cb in cubes:
                iv = cb[1 + di]
                if not any(iv[0] == x[0] and iv[1] == x[1] for x in ivs):
                    ivs.append(iv)
            ch = finest(ivs, lo, hi)
            if ch is None:
                raise AnalysisBroken('F10: cut points of dimension %d of %s do not chain from 0 to the full extent' % (di, name))
            dims.append(ch)

        def idx(ch, v):
            for i, x in enumerate(ch):
                if x == v:
                    return i
            return None
        cover = {}
        bad_cube = None
        for cb in cubes:
            rng = []
            for di in range(3):
                a, b = idx(dims[di], cb[1 + di][0]), idx(dims[di], cb[1 + di][1])
                if a is None or b is None or a > b:
                    bad_cube = cb
                    break
                rng.append(range(a, b))
            if bad_cube is not None:
                break
            for i in rng[0]:
                for j in rng[1]:
                    for k in rng[2]:
                        cover.setdefault((i, j, k), []).append(cb[0])
        rr.instances += 1
        if bad_cube is not None:
            raise AnalysisBroken('F10: block `%s` of %s does not sit on the cut points' % (pp(bad_cube[0])[:50], name))
        problems = []
        for i in range(len(dims[0]) - 1):
            for j in range(len(dims[1]) - 1):
                for k in range(len(dims[2]) - 1):
                    cs = cover.get((i, j, k), [])
                    cell = 'rows [%r, %r) x columns [%r, %r) x inner [%r, %r)' % (dims[0][i], dims[0][i + 1], dims[1][j], dims[1][j + 1], dims[2][k], dims[2][k + 1])
                    if len(cs) == 0:
                        problems.append((f, 'no product covers %s' % cell))
                    elif len(cs) > 1:
                        problems.append((cs[-1], '%s is covered by %d products (`%s` and `%s`): over GF(2) the contribution cancels' % (cell, len(cs), pp(cs[0])[:40], pp(cs[-1])[:40])))
        rr.ob(not problems, dict(function=name, products=len(cubes), cuts=[[repr(x) for x in d] for d in dims]),
              Finding(rule, '%s|%s' % (rule, name), (problems[0][0].loc if problems else f.loc), name,
                      'the block products of %s do not cover the index cube exactly once: %s' % (name, '; '.join(p[1] for p in problems[:2])), {}, label))
    rr.require_floor(2, 'multi-core product schemes')
    return rr


# ====================================================================== F11 column-permutation fix-up of the recursive PLE
def rule_F11(ctx, prog, label, rule='F11'):
    """_mzd_ple, after the second recursive call: Q2 is a window of Q at n1, holding pivot columns relative to n1.  The fix-up
    (a) translates all of Q2 by n1 and (b) rotates the r2 pivot entries from position n1.. to position r1.. .  Because Q2 aliases
    Q, the rotation must read *translated* values: the translation loop dominates the rotation loop on the CFG; the rotation
    copies entry n1 + t (= Q2 entry t) to entry r1 + t; the translation covers all ncols - n1 entries of Q2."""
    from .cfg import cfg_of
    rr = RuleResult(rule, 'recursive PLE: the column permutation of the right block is translated by n1 before its r2 pivot entries are rotated to position r1')
    f = prog.funcs.get('_mzd_ple')
    if f is None or f.body is None:
        raise AnalysisBroken('F11: _mzd_ple vanished')
    fs = FuncSym(f)
    g = cfg_of(f)
    dom = g.dominators()
    Q = [p for p in f.params if 'mzp_t' in (p.type or '')]
    if len(Q) < 2:
        raise AnalysisBroken('F11: _mzd_ple(A, P, Q, ..) signature not recognised')
    Qp = Q[1]
    # windows of Q
    qwins = {}
    for n in f.body.walk():
        if n.kind == 'VarDecl' and n.kids and n.init:
            d0 = strip(n.kids[-1], casts=True)
            if d0.kind == 'CallExpr' and callee_name(d0) == 'mzp_init_window' and strip(d0.kids[1], casts=True).kind == 'DeclRefExpr' and strip(d0.kids[1], casts=True).refid == Qp.id:
                qwins[n.id] = (n.name, fs.sym(d0.kids[2]))
    trans, rots = [], []
    for n in f.body.walk():
        if n.kind == 'CompoundAssignOperator' and n.op == '+=':
            l = strip(n.kids[0], casts=True)
            if l.kind == 'ArraySubscriptExpr':
                b = strip(l.kids[0], casts=True)
                if b.kind == 'MemberExpr' and b.name == 'values':
                    o = strip(b.kids[0], casts=True)
                    if o.kind == 'DeclRefExpr' and o.refid in qwins:
                        trans.append((n, o.refid, l.kids[1]))
        if n.kind == 'BinaryOperator' and n.op == '=':
            l, r = strip(n.kids[0], casts=True), strip(n.kids[1], casts=True)
            if l.kind == 'ArraySubscriptExpr' and r.kind == 'ArraySubscriptExpr':
                bl, br = strip(l.kids[0], casts=True), strip(r.kids[0], casts=True)
                if bl.kind == 'MemberExpr' and bl.name == 'values' and br.kind == 'MemberExpr' and br.name == 'values':
                    ol, orr = strip(bl.kids[0], casts=True), strip(br.kids[0], casts=True)
                    if ol.kind == 'DeclRefExpr' and ol.refid == Qp.id and orr.kind == 'DeclRefExpr' and (orr.refid == Qp.id or orr.refid in qwins):
                        rots.append((n, l.kids[1], orr.refid, r.kids[1]))
    rr.instances += 1
    if len(trans) != 1 or len(rots) != 1:
        raise AnalysisBroken('F11: fix-up of Q in _mzd_ple not recognised (%d translations, %d rotations)' % (len(trans), len(rots)))
    tn, twin, tidx = trans[0]
    rn, didx, swin, sidx = rots[0]
    off = qwins[twin][1]                       # n1
    problems = []

    def owner(node):
        best = None
        for c in g.nodes:
            if c.ast is not None and c.kind in ('stmt', 'branch') and any(x is node for x in c.ast.walk()):
                best = c
        return best
    tc, rc = owner(tn), owner(rn)
    if tc is None or rc is None:
        raise AnalysisBroken('F11: statements not found in the CFG')
    # the loop headers: the rotation must come after the complete translation loop
    tl, rl = fs.enclosing(tn, ('ForStmt',)), fs.enclosing(rn, ('ForStmt',))
    if tl is None or rl is None:
        raise AnalysisBroken('F11: translation / rotation are not loops')
    if not ((tl.line, tl.col or 0) < (rl.line, rl.col or 0) and tc.id in dom.get(rc.id, ()) or _loop_before(g, dom, tl, rl)):
        problems.append('the pivot entries are rotated to position r1 before the window `%s` has been translated by %r: the copied column numbers are still relative to the right block' % (qwins[twin][0], off))
    # rotation index relation: dest = r1 + t, source = n1 + t (through Q) or t (through the window)
    d_l, s_l = fs.sym(didx), fs.sym(sidx)
    src_abs = s_l + (off if swin in qwins else Lin(0))
    # both follow loop counters advancing together: compare at the first iteration
    def at_start(l, loop):
        out = l
        init = loop.kids[0]
        decls = [v for v in init.kids if v.kind == 'VarDecl'] if init.kind == 'DeclStmt' else []
        for v in decls:
            if v.name in out.t and v.kids:
                out = out.subst(v.name, fs.sym(v.kids[-1]))
        return out
    d0, s0 = at_start(d_l, rl), at_start(src_abs, rl)
    if not (s0 == off):
        problems.append('the rotation starts reading at entry %r of Q, the pivot entries of the right block start at %r' % (s0, off))
    rr.ob(not problems, dict(function='_mzd_ple', translation=pp(tn)[:40], rotation=pp(rn)[:50], first_dest=repr(d0), first_source=repr(s0)),
          Finding(rule, '%s|_mzd_ple' % rule, rn.loc, '_mzd_ple', 'fix-up of Q after the second recursive call: ' + '; '.join(problems), {}, label))
    return rr


def _loop_before(g, dom, tl, rl):
    """every CFG node of loop rl is dominated by the exit test of loop tl (tl completes before rl starts)"""
    tb = [n for n in g.nodes if n.kind == 'branch' and n.tag is tl]
    rb = [n for n in g.nodes if n.kind == 'branch' and n.tag is rl]
    if not tb or not rb:
        return False
    return tb[0].id in dom.get(rb[0].id, ()) and (tl.line, tl.col or 0) < (rl.line, rl.col or 0)


# ====================================================================== PI1: output permutations are defined up to the dimension

PERM_FILLERS = ('_mzd_ple', '_mzd_ple_russian', '_mzd_ple_naive', '_mzd_pluq_naive')
_PLE_FAMILY = ('_mzd_ple', '_mzd_ple_russian', '_mzd_ple_naive', '_mzd_pluq_naive', '_mzd_pluq', 'mzd_ple', 'mzd_pluq', '_mzd_pluq_russian',
               'mzp_init_window', 'mzp_free_window')


def _fill_reaches(fs, store, vid, want):
    for loop in fs.enclosing_all(store, ('ForStmt', 'WhileStmt', 'DoStmt')):
        cond = loop.kids[2] if loop.kind == 'ForStmt' else (loop.kids[0] if loop.kind == 'WhileStmt' else loop.kids[-1])
        c = strip(cond, casts=True) if cond is not None else None
        if c is None or c.kind != 'BinaryOperator' or c.op not in ('<', '>', '!=', '<=', '>='):
            continue
        a, b = strip(c.kids[0], casts=True), strip(c.kids[1], casts=True)
        down = any(((x.kind == 'UnaryOperator' and x.op == '--') or (x.kind == 'CompoundAssignOperator' and x.op == '-=')) and
                   strip(x.kids[0], casts=True).kind == 'DeclRefExpr' and strip(x.kids[0], casts=True).refid == vid for x in loop.walk())
        up = any(((x.kind == 'UnaryOperator' and x.op == '++') or (x.kind == 'CompoundAssignOperator' and x.op == '+=')) and
                 strip(x.kids[0], casts=True).kind == 'DeclRefExpr' and strip(x.kids[0], casts=True).refid == vid for x in loop.walk())
        if up and not down:
            if a.kind == 'DeclRefExpr' and a.refid == vid and c.op in ('<', '!=') and fs.sym(b) == want:
                return 'counting up to %r' % want
            if b.kind == 'DeclRefExpr' and b.refid == vid and c.op in ('>', '!=') and fs.sym(a) == want:
                return 'counting up to %r' % want
        if down and not up:
            # index starts at the dimension and is decremented before the store
            inside = set(x.uid for x in loop.walk())
            starts = [d for d in fs.defs.get(vid, []) if d.uid not in inside]
            dec_first = False
            for x in loop.walk():
                if x is store:
                    break
                if ((x.kind == 'UnaryOperator' and x.op == '--') or (x.kind == 'CompoundAssignOperator' and x.op == '-=' and int_value(x.kids[1]) == 1)) and \
                        strip(x.kids[0], casts=True).kind == 'DeclRefExpr' and strip(x.kids[0], casts=True).refid == vid:
                    dec_first = True
            if len(starts) == 1 and dec_first and fs.sym(starts[0]) == want:
                return 'counting down from %r' % want
            if len(starts) == 1 and not dec_first and fs.sym(starts[0]) == want - Lin(1):
                return 'counting down from %r - 1' % want
    return None


def _has_identity_store(h, pid):
    for n in h.body.walk():
        if n.kind == 'BinaryOperator' and n.op == '=':
            l, r = strip(n.kids[0], casts=True), strip(n.kids[1], casts=True)
            if l.kind == 'ArraySubscriptExpr' and r.kind == 'DeclRefExpr':
                b, ix = strip(l.kids[0], casts=True), strip(l.kids[1], casts=True)
                if b.kind == 'MemberExpr' and b.name == 'values' and strip(b.kids[0], casts=True).kind == 'DeclRefExpr' and \
                        strip(b.kids[0], casts=True).refid == pid and ix.kind == 'DeclRefExpr' and ix.refid == r.refid:
                    return True
    return False


def rule_PI1(ctx, prog, label, rule='PI1', funcs=PERM_FILLERS):
    """P and Q are outputs ("don't have to be identity permutations" on entry): each factorisation routine that records pivots in
    them also sets the entries it does not use to the identity, by a loop `X->values[i] = i` that runs up to the matrix dimension.
    Without it the entries at and beyond the rank keep what the caller's permutation held: the result depends on history."""
    rr = RuleResult(rule, 'PLE/PLUQ routines define their output permutations up to the matrix dimension (identity fill reaching A->nrows for P, A->ncols for Q)')
    for name in funcs:
        f = prog.funcs.get(name)
        if f is None or f.body is None:
            raise AnalysisBroken('%s: %s no longer exists' % (rule, name))
        fs = FuncSym(f)
        mats = [p for p in f.params if 'mzd_t' in (p.type or '')]
        perms = [p for p in f.params if 'mzp_t' in (p.type or '') and 'const' not in (p.type or '').split('*')[0]]
        if not mats or len(perms) != 2:
            raise AnalysisBroken('%s: signature of %s not recognised (matrix, P, Q expected)' % (rule, name))
        A = mats[0]
        for X, dim in ((perms[0], 'nrows'), (perms[1], 'ncols')):
            rr.instances += 1
            want = Lin.atom('%s.%s' % (A.name, dim))
            ok, how, seen_fill = False, '', []
            for n in f.body.walk():
                if n.kind == 'BinaryOperator' and n.op == '=':
                    l, r = strip(n.kids[0], casts=True), strip(n.kids[1], casts=True)
                    if l.kind != 'ArraySubscriptExpr' or r.kind != 'DeclRefExpr':
                        continue
                    b, ix = strip(l.kids[0], casts=True), strip(l.kids[1], casts=True)
                    if not (b.kind == 'MemberExpr' and b.name == 'values' and strip(b.kids[0], casts=True).kind == 'DeclRefExpr' and strip(b.kids[0], casts=True).refid == X.id):
                        continue
                    if ix.kind != 'DeclRefExpr' or ix.refid != r.refid:
                        continue
                    lr = fs.loop_range(ix.refid, n)
                    if lr is None:
                        # other loop shapes: the dimension is the bound the index is compared with (counting up) or the
                        # value the index starts from (counting down)
                        why_ = _fill_reaches(fs, n, ix.refid, want)
                        seen_fill.append(why_ or 'a loop of unrecognised extent')
                        if why_:
                            ok, how = True, 'identity fill, ' + why_
                        continue
                    seen_fill.append('[%r, %r)' % (lr[0], lr[1]))
                    if lr[1] == want:
                        ok, how = True, 'identity fill over [%r, %r)' % (lr[0], lr[1])
                elif n.kind == 'CallExpr' and callee_name(n) and callee_name(n) not in _PLE_FAMILY:
                    h = prog.funcs.get(callee_name(n))
                    for i, a in enumerate(n.kids[1:]):
                        a0 = strip(a, casts=True)
                        if a0.kind == 'DeclRefExpr' and a0.refid == X.id and h is not None and h.body is not None and i < len(h.params) and \
                                'const' not in (h.params[i].type or '').split('*')[0] and not ok and _has_identity_store(h, h.params[i].id):
                            ok, how = True, 'handed to %s, which fills it with the identity' % callee_name(n)
            rr.ob(ok, dict(function=name, permutation=X.name, discharged_by=how),
                  Finding(rule, '%s|%s|%s' % (rule, name, dim), f.loc, name,
                          '%s does not set the unused entries of its output permutation `%s` to the identity up to %s->%s (identity fills found: %s): '
                          'entries at and beyond the rank keep what the caller\'s permutation held before, so the factorisation depends on history'
                          % (name, X.name, A.name, dim, ', '.join(seen_fill) or 'none'), {}, label))
    rr.require_floor(8, 'output permutations')
    return rr
