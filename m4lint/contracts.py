"""Engine F (part 1): validation wrappers.
F1  every guarded m4ri_die of a public wrapper is passed (on its non-dying edge) on every path to the
    calls that receive the operands, unless the operand was created by the wrapper itself; sibling wrappers
    test the same relations (frozen role tables).
F2  the dimensions given to mzd_init when the destination is NULL equal the dimensions demanded of a
    supplied destination."""
import json
import os

from .ast import strip, callee_name, pp, int_value, is_null
from .cfg import cfg_of
from .symbolic import FuncSym, Lin
from .driver import RuleResult, Finding
from .frontend import AnalysisBroken, VERIF

GETTERS = {'mzd_row', 'mzd_row_const', 'mzd_read_bit', 'mzd_is_windowed', 'mzd_is_dangerous_window', 'printf',
           '__builtin_expect', 'm4ri_die', 'mzd_first_zero_row'}


def table():
    return json.load(open(os.path.join(VERIF, 'rules', 'contracts.json')))


def _disjuncts(c):
    c = strip(c, casts=True)
    if c is not None and c.kind == 'BinaryOperator' and c.op in ('||', '|'):
        return _disjuncts(c.kids[0]) + _disjuncts(c.kids[1])
    if c is not None and c.kind == 'CallExpr' and callee_name(c) == '__builtin_expect':
        return _disjuncts(c.kids[1])
    # (cond) != 0   and   !!(cond)
    if c is not None and c.kind == 'BinaryOperator' and c.op == '!=' and int_value(c.kids[1]) == 0:
        inner = strip(c.kids[0], casts=True)
        if inner is not None and inner.kind == 'BinaryOperator' and inner.op in ('||', '|', '&&', '!=', '==', '<', '>', '<=', '>='):
            return _disjuncts(inner)
    if c is not None and c.kind == 'UnaryOperator' and c.op == '!':
        i2 = strip(c.kids[0], casts=True)
        if i2 is not None and i2.kind == 'UnaryOperator' and i2.op == '!':
            return _disjuncts(i2.kids[0])
    return [c]


def _conj(c):
    c = strip(c, casts=True)
    if c is not None and c.kind == 'BinaryOperator' and c.op == '&&':
        return _conj(c.kids[0]) + _conj(c.kids[1])
    return [c]


class Guard(object):
    """One `if (cond) m4ri_die(...)`: the branch CFG node, its relation atoms, the parameters mentioned."""

    def __init__(self, f, fs, cnode, die_on):
        self.f, self.cnode, self.die_on = f, cnode, die_on
        self.cond = cnode.ast
        self.atoms = []
        self.params = set()
        names = dict((p.name, i) for i, p in enumerate(f.params))
        # only the *full* condition kills; with die_on == True the disjuncts are the individually fatal relations
        parts = _disjuncts(self.cond) if die_on else [self.cond]
        for a in parts:
            a = strip(a, casts=True)
            if a is None:
                continue
            for n in a.walk():
                if n.kind == 'DeclRefExpr' and n.refkind == 'ParmVarDecl':
                    self.params.add(n.ref)
            if a.kind == 'BinaryOperator' and a.op in ('!=', '<', '>', '<=', '>=', '=='):
                l, r = fs.sym(a.kids[0]), fs.sym(a.kids[1])
                self.atoms.append((a.op, l, r, a))

    def canon(self, rename):
        out = []
        for (op, l, r, a) in self.atoms:
            ls, rs = _rename(repr(l), rename), _rename(repr(r), rename)
            if op in ('!=', '=='):
                ls, rs = sorted([ls, rs])
            elif op in ('>', '>='):
                ls, rs, op = rs, ls, {'>': '<', '>=': '<='}[op]
            out.append('%s %s %s' % (ls, op, rs))
        return out


def _rename(s, rename):
    import re
    def rep(m):
        return rename.get(m.group(0), m.group(0))
    return re.sub(r'[A-Za-z_][A-Za-z_0-9]*', rep, s)


def guards_of(f):
    """All die-guards of f: branch nodes one of whose edges leads (through labels only) to a noreturn node."""
    g = cfg_of(f)
    fs = FuncSym(f)
    out = []
    for n in g.nodes:
        if n.kind != 'branch':
            continue
        for (lab, m) in n.succs:
            x = m
            hops = 0
            while x.kind == 'label' and len(x.succs) == 1 and hops < 4:
                x = x.succs[0][1]
                hops += 1
            if x.kind == 'noreturn' and callee_name(strip(x.ast)) == 'm4ri_die':
                out.append(Guard(f, fs, n, lab is True))
    return out, g, fs


def rule_F1(ctx, prog, label, rule='F1'):
    rr = RuleResult(rule, 'argument validation precedes all work on the operands; sibling wrappers test the same relations')
    T = table()
    nwrappers = 0
    facts = {}
    for f in sorted(prog.all_funcs(), key=lambda f: (f.file, f.line)):
        gs, g, fs = guards_of(f)
        gs = [x for x in gs if x.atoms and any('.' in repr(a[1]) or '.' in repr(a[2]) or a[3] is not None for a in x.atoms) and x.params]
        dims = [x for x in gs if any(('.nrows' in repr(a[1]) + repr(a[2])) or ('.ncols' in repr(a[1]) + repr(a[2])) or ('.length' in repr(a[1]) + repr(a[2])) or a[0] in ('<',) for a in x.atoms)]
        if not dims:
            continue
        nwrappers += 1
        facts[f.name] = dims
        # (a) no path from entry to a work node avoids the guard, except through an assignment of the operand
        pnames = dict((p.name, p) for p in f.params)
        work = []
        for cn in g.nodes:
            if cn.kind not in ('stmt', 'branch') or cn.ast is None:
                continue
            for c in cn.ast.find('CallExpr'):
                name = callee_name(c)
                if name in GETTERS or name is None:
                    continue
                args = set()
                for a in c.kids[1:]:
                    a2 = strip(a, casts=True)
                    if a2 is not None and a2.kind == 'DeclRefExpr' and a2.refkind == 'ParmVarDecl':
                        args.add(a2.ref)
                if args:
                    work.append((cn, c, args))
        for gd in dims:
            rr.instances += 1
            mparams = set(p for p in gd.params if 'mz' in (pnames[p].type or ''))
            assigners = set()
            for cn in g.nodes:
                if cn.kind == 'stmt' and cn.ast is not None:
                    for n in cn.ast.walk():
                        if n.kind == 'BinaryOperator' and n.op == '=':
                            l = strip(n.kids[0])
                            if l.kind == 'DeclRefExpr' and l.ref in mparams:
                                assigners.add(cn.id)
            # forward reachability from entry avoiding the guard node and assigner nodes
            # identity short-cuts (`if (N == P) return N`, `if (ret != left)`) are allowed to bypass
            seen = set()
            st = [g.entry]
            blocked = {gd.cnode.id} | assigners
            while st:
                x = st.pop()
                if x.id in seen or x.id in blocked:
                    continue
                seen.add(x.id)
                ident = _identity_edge(x, mparams) if x.kind == 'branch' else None
                for (lab, m) in x.succs:
                    if ident is not None and lab is ident:
                        continue      # operands are the same object on this edge: nothing to validate
                    st.append(m)
            bad = None
            for (cn, c, args) in work:
                if cn.id in seen and (args & mparams):
                    if _bypass_is_identity(g, gd, cn, f):
                        continue
                    bad = (cn, c)
                    break
            rr.ob(bad is None, dict(function=f.name, guard=pp(gd.cond)[:90], verdict='precedes every call that receives the operands'),
                  Finding(rule, '%s|%s|order|%s' % (rule, f.name, '/'.join(sorted(mparams))), gd.cond.loc, f.name,
                          'the check `%s` can be bypassed: `%s` at %s receives the operands on a path that does not pass it' % (
                              pp(gd.cond)[:80], pp(bad[1])[:60] if bad else '', bad[1].loc if bad else ''), {}, label))
    # (b) families
    for fam in T['validator_families']:
        want = fam['relations']
        for member in fam['members']:
            if member not in prog.funcs:
                if fam.get('optional'):
                    continue
                raise AnalysisBroken('F1: wrapper %s of family %s vanished' % (member, fam['name']))
            f = prog.funcs[member]
            rename = dict((p.name, 'P%d' % i) for i, p in enumerate(f.params))
            have = []
            for gd in facts.get(member, []):
                have += gd.canon(rename)
            for rel in want:
                rr.instances += 1
                alts = rel if isinstance(rel, list) else [rel]
                ok = any(a in have for a in alts)
                rr.ob(ok, dict(family=fam['name'], member=member, relation=alts[0]),
                      Finding(rule, '%s|%s|missing|%s' % (rule, member, alts[0]), f.loc, member,
                              '%s does not test `%s` (by parameter position) although its siblings in the %s family do' % (member, alts[0], fam['name']),
                              dict(tested=have), label))
    rr.extra['wrappers_with_dimension_guards'] = nwrappers
    if nwrappers < 20:
        raise AnalysisBroken('F1: only %d validating wrappers found (floor 20)' % nwrappers)
    return rr


def _identity_edge(cn, mparams):
    """For a branch `X == Y` / `X != Y` between two pointer parameters (one of them validated by the guard),
    return the edge label on which they are the same object."""
    c = strip(cn.ast, casts=True)
    if c is not None and c.kind == 'BinaryOperator' and c.op in ('==', '!='):
        a, b = strip(c.kids[0], casts=True), strip(c.kids[1], casts=True)
        if a.kind == 'DeclRefExpr' and b.kind == 'DeclRefExpr' and a.refkind == 'ParmVarDecl' and b.refkind == 'ParmVarDecl' \
                and (a.ref in mparams or b.ref in mparams):
            return c.op == '=='
    return None


def _bypass_is_identity(g, gd, cn, f):
    """The only way to reach `cn` without the guard is through a branch comparing two operand pointers
    for identity (C == A: nothing to validate)."""
    return False


def rule_F2(ctx, prog, label, rule='F2'):
    """destination-or-allocate functions: mzd_init(r, c) in the NULL branch uses the same r, c that the
    validation of a supplied destination demands."""
    rr = RuleResult(rule, 'auto-allocated result has exactly the shape demanded of a supplied destination')
    for f in sorted(prog.all_funcs(), key=lambda f: (f.file, f.line)):
        fs = FuncSym(f)
        # pattern: P = mzd_init(r, c) assigned to a *parameter*
        for n in f.body.walk():
            if not (n.kind == 'BinaryOperator' and n.op == '='):
                continue
            l = strip(n.kids[0])
            r = strip(n.kids[1], casts=True)
            if not (l.kind == 'DeclRefExpr' and l.refkind == 'ParmVarDecl' and r is not None and r.kind == 'CallExpr' and callee_name(r) == 'mzd_init'):
                continue
            P = l.ref
            ar, ac = fs.sym(r.kids[1]), fs.sym(r.kids[2])
            gs, g, _fs = guards_of(f)
            rels = {}
            for gd in gs:
                for (op, a, b, node) in gd.atoms:
                    for x, y in ((a, b), (b, a)):
                        if repr(x) in ('%s.nrows' % P, '%s.ncols' % P):
                            rels.setdefault(repr(x).split('.')[1], []).append((op, y))
            if not rels:
                continue
            for dim, val in (('nrows', ar), ('ncols', ac)):
                rr.instances += 1
                cands = rels.get(dim, [])
                ok = any(v == val for (_op, v) in cands)
                rr.ob(ok, dict(function=f.name, destination=P, dimension=dim, allocated=repr(val), demanded=[repr(v) for _o, v in cands]),
                      Finding(rule, '%s|%s|%s|%s' % (rule, f.name, P, dim), n.loc, f.name,
                              '%s allocates %s with %s = `%r` but demands `%s` of a supplied destination' % (f.name, P, dim, val, ', '.join(repr(v) for _o, v in cands) or 'nothing'), {}, label))
    rr.require_floor(16, 'destination dimensions')
    return rr


# ====================================================================== F4 / F8

SWAPPERS = {'mzd_row_swap', '_mzd_row_swap', 'mzd_col_swap_in_rows', 'mzd_col_swap'}


def perm_loops(f):
    """loops of f whose body applies one swap per iteration taken from a permutation: returns
    [(loop, direction, lo Lin, hi-exclusive Lin, swap node)]"""
    fs = FuncSym(f)
    out = []
    for lp in f.body.find('ForStmt'):
        body = lp.kids[4]
        sw = None
        for c in body.find('CallExpr'):
            if callee_name(c) in SWAPPERS and any(x.kind == 'MemberExpr' and x.name == 'values' for x in c.walk()):
                sw = c
        if sw is None:
            # inline swap of a local permutation array through P->values[...]
            asg = [n for n in body.walk() if n.kind == 'BinaryOperator' and n.op == '=' and any(x.kind == 'MemberExpr' and x.name == 'values' for x in n.walk())]
            if len(asg) >= 2:
                sw = asg[0]
        if sw is None:
            continue
        # innermost loop only
        if any(l2 is not lp and any(x is sw for x in l2.walk()) for l2 in body.find('ForStmt')):
            continue
        iv = fs._induction(lp)
        if iv is None:
            out.append((lp, None, None, None, sw, fs))
            continue
        vid, lo, hi, step = iv
        # effective direction = loop direction x sign of the loop variable in the index of P->values[...]
        sign = 1
        for x in sw.walk():
            if x.kind == 'ArraySubscriptExpr':
                b = strip(x.kids[0], casts=True)
                if b.kind == 'MemberExpr' and b.name == 'values':
                    idx = fs.sym(x.kids[1])
                    k = idx.t.get(fs.decl[vid].name)
                    if k is not None and k < 0:
                        sign = -1
                    break
        out.append((lp, '+' if step * sign > 0 else '-', lo, hi, sw, fs))
    return out


def rule_F4(ctx, prog, label, rule='F4'):
    """LAPACK order of the permutation applications: sign of d(swap index)/d(iteration) and the top of the index
    range are as frozen from the documentation (left: ascending, left-trans: descending, right: descending,
    right-trans: ascending, tri: ascending over all columns with the row range capped by the swap index)."""
    rr = RuleResult(rule, 'permutation applications run over the full index range in the documented (LAPACK) direction')
    T = table()['perm_loops']
    for name, want in sorted(T.items()):
        f = prog.func(name)
        loops = perm_loops(f)
        specs = want if isinstance(want, list) else [want]
        if len(loops) < len(specs):
            raise AnalysisBroken('F4: %s has %d permutation loops, %d expected' % (name, len(loops), len(specs)))
        for spec, (lp, d, lo, hi, sw, fs) in zip(specs, loops):
            rr.instances += 1
            top = repr(hi) if hi is not None else None
            ok = d == spec['dir'] and top == spec['top']
            why = 'direction %s, index range up to %s' % (d, top)
            if ok and spec.get('row_cap'):
                # tri variant: the stop row passed to the swap is capped by the swap index
                args = [pp(strip(a, casts=True)) for a in sw.kids[1:]]
                iv = fs._induction(lp)
                iname = fs.decl[iv[0]].name
                capped = any(('? ' in a or 'min' in a.lower()) and iname in a for a in args[-1:])
                if not capped:
                    ok, why = False, 'the stop row `%s` of the triangular variant is not capped by the swap index' % args[-1]
            rr.ob(ok, dict(function=name, direction=d, top=top),
                  Finding(rule, '%s|%s|%s' % (rule, name, spec['dir']), lp.loc, name,
                          '%s: permutation loop has %s; documented: direction %s over the index range up to %s' % (name, why, spec['dir'], spec['top']), {}, label))
    return rr


def rule_F8(ctx, prog, label, rule='F8'):
    """Index loops over a permutation window created in the same function stay inside that window:
    `for (i = a; i < hi; ++i) W->values[i] ...` with W = mzp_init_window(P, lo, hi') requires hi == hi' - lo."""
    rr = RuleResult(rule, 'loops that update the entries of a permutation window run exactly over that window')
    for f in sorted(prog.all_funcs(), key=lambda f: (f.file, f.line)):
        wins = {}
        fs = None
        for n in f.body.walk():
            if n.kind == 'VarDecl' and n.kids:
                c = strip(n.kids[-1], casts=True)
                if c is not None and c.kind == 'CallExpr' and callee_name(c) == 'mzp_init_window':
                    wins[n.id] = (n, c)
        if not wins:
            continue
        fs = FuncSym(f)
        for lp in f.body.find('ForStmt'):
            iv = fs._induction(lp)
            if iv is None:
                continue
            vid, lo, hi, step = iv
            for n in lp.kids[4].walk():
                lhs = None
                if n.kind in ('CompoundAssignOperator',) or (n.kind == 'BinaryOperator' and n.op == '='):
                    lhs = strip(n.kids[0], casts=True)
                if lhs is None or lhs.kind != 'ArraySubscriptExpr':
                    continue
                b = strip(lhs.kids[0], casts=True)
                if not (b.kind == 'MemberExpr' and b.name == 'values'):
                    continue
                w = strip(b.kids[0], casts=True)
                if not (w.kind == 'DeclRefExpr' and w.refid in wins):
                    continue
                idx = strip(lhs.kids[1], casts=True)
                if not (idx.kind == 'DeclRefExpr' and idx.refid == vid):
                    continue
                decl, call = wins[w.refid]
                length = fs.sym(call.kids[3]) - fs.sym(call.kids[2])
                rr.instances += 1
                ok = step > 0 and (hi == length or (hi - length).is_const() and (hi - length).c <= 0)
                rr.ob(ok, dict(function=f.name, window=decl.name, window_length=repr(length), loop_bound=repr(hi)),
                      Finding(rule, '%s|%s|%s' % (rule, f.name, decl.name), lp.loc, f.name,
                              'loop over `%s->values[%s]` runs to `%r` but the window `%s = %s` has length `%r`: entries outside the window are rewritten' % (
                                  decl.name, fs.decl[vid].name, hi, decl.name, pp(call)[:50], length), {}, label))
    rr.require_floor(1, 'permutation window update loops')
    return rr
