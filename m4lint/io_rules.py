"""Engine I: file readers.  I1: values read by fscanf that reach mzd_write_bit are bounded on both sides by a
rejecting guard on every path.  I2: every PNG header field that determines how many bytes png_read_row writes is
tested (with a rejecting edge) before the row loop."""
from .ast import strip, callee_name, pp, int_value
from .cfg import cfg_of
from .symbolic import FuncSym, Lin
from .driver import RuleResult, Finding
from .frontend import AnalysisBroken

PNG_LAYOUT_FIELDS = {'png_get_bit_depth': 'bit depth', 'png_get_channels': 'channels', 'png_get_color_type': 'colour type',
                     'png_get_interlace_type': 'interlace type'}


def _reach_without(g, start_nodes, blocked):
    seen = set()
    st = list(start_nodes)
    while st:
        n = st.pop()
        if n.id in seen or n.id in blocked:
            continue
        seen.add(n.id)
        for (_l, m) in n.succs:
            st.append(m)
    return seen


def rule_I2(ctx, prog, label, rule='I2'):
    rr = RuleResult(rule, 'PNG reader: bit depth, channels, colour type and interlacing are each tested with a rejecting edge before any row is read')
    f = prog.func('mzd_from_png')
    g = cfg_of(f)
    fs = FuncSym(f)
    read_nodes = [cn for cn in g.nodes if cn.ast is not None and any(callee_name(c) == 'png_read_row' for c in cn.ast.find('CallExpr'))]
    if not read_nodes:
        raise AnalysisBroken('I2: png_read_row call vanished from mzd_from_png')
    fields = {}
    for n in f.body.walk():
        if n.kind == 'VarDecl' and n.kids:
            c = strip(n.kids[-1], casts=True)
            if c is not None and c.kind == 'CallExpr' and callee_name(c) in PNG_LAYOUT_FIELDS:
                fields[n.id] = (n, PNG_LAYOUT_FIELDS[callee_name(c)])
    rr.instances = len(PNG_LAYOUT_FIELDS)
    got = set(v[1] for v in fields.values())
    for gname, what in PNG_LAYOUT_FIELDS.items():
        if what not in got:
            rr.ob(False, None, Finding(rule, '%s|mzd_from_png|%s|unread' % (rule, what), f.loc, f.name,
                                       'the %s of the image is never fetched, so it cannot be validated' % what, {}, label))
    dom = g.dominators()
    for vid, (decl, what) in sorted(fields.items(), key=lambda x: x[1][0].line):
        ok = False
        why = 'never appears in a branch condition'
        for cn in g.nodes:
            if cn.kind != 'branch':
                continue
            def _mentions(e, depth=0):
                for x in e.walk():
                    if x.kind == 'DeclRefExpr' and x.refid == vid:
                        return True
                    # a verdict kept in a flag local (`const int depth_ok = (bit_depth == 1 && channels == 1)`)
                    if x.kind == 'DeclRefExpr' and x.refkind == 'VarDecl' and depth < 3:
                        d = fs.single_def(x.refid)
                        if d is not None and _mentions(d, depth + 1):
                            return True
                return False
            if not _mentions(cn.ast):
                continue
            if not all(cn.id in dom.get(rn.id, ()) for rn in read_nodes):
                why = 'is tested, but not on every path to png_read_row'
                continue
            # one edge must reject: from it, png_read_row is unreachable
            for (lab, m) in cn.succs:
                reach = _reach_without(g, [m], set())
                if not any(rn.id in reach for rn in read_nodes):
                    ok = True
            if not ok:
                why = 'is tested, but neither outcome avoids png_read_row'
        rr.ob(ok, dict(field=what, variable=decl.name, verdict='tested with a rejecting edge before the row loop'),
              Finding(rule, '%s|mzd_from_png|%s' % (rule, what), decl.loc, f.name,
                      'the %s (`%s`) %s: png_read_row then writes more bytes per row than the n/8+1 byte buffer holds' % (what, decl.name, why), {}, label))
    return rr


def rule_I1(ctx, prog, label, rule='I1'):
    rr = RuleResult(rule, 'JCF reader: row and column indices derived from the file are bounded below and above before mzd_write_bit')
    f = prog.func('mzd_from_jcf')
    g = cfg_of(f)
    fs = FuncSym(f)
    from .contracts import guards_of
    gs, _g, _fs = guards_of(f)
    dom = g.dominators()
    # sinks: coordinates handed to mzd_write_bit / mzd_row, and hand-made (word index, bit) addressing of a row
    sinks = []
    seen_nodes = set()
    for cn in g.nodes:
        if cn.ast is None or cn.kind not in ('stmt', 'branch'):
            continue
        for c in cn.ast.walk():
            if c.uid in seen_nodes:
                continue
            if c.kind == 'CallExpr' and callee_name(c) == 'mzd_write_bit':
                seen_nodes.add(c.uid)
                sinks.append((cn, c, 'row', c.kids[2]))
                sinks.append((cn, c, 'column', c.kids[3]))
            elif c.kind == 'CallExpr' and callee_name(c) in ('mzd_row', 'mzd_row_const'):
                seen_nodes.add(c.uid)
                sinks.append((cn, c, 'row', c.kids[2]))
            elif c.kind == 'ArraySubscriptExpr':
                seen_nodes.add(c.uid)
                e = strip(c.kids[1], casts=True)
                for _ in range(3):
                    if e.kind == 'DeclRefExpr' and e.refkind == 'VarDecl':
                        d = fs.single_def(e.refid)
                        if d is None:
                            break
                        e = strip(d, casts=True)
                if e.kind == 'BinaryOperator' and e.op == '/' and (int_value(e.kids[1]) == 64 or pp(strip(e.kids[1], casts=True)) == 'm4ri_radix'):
                    sinks.append((cn, c, 'column', e.kids[0]))
    if not sinks:
        raise AnalysisBroken('I1: no coordinate sink (mzd_write_bit, mzd_row, row[col / 64]) left in mzd_from_jcf')
    # tainted variables: written through fscanf or updated under a condition on a tainted variable
    tainted = set()
    for c in f.body.find('CallExpr'):
        if callee_name(c) in ('fscanf', 'sscanf'):
            for a in c.kids[3:]:
                a2 = strip(a, casts=True)
                if a2.kind == 'UnaryOperator' and a2.op == '&':
                    tainted.add(strip(a2.kids[0]).refid)
    changed = True
    while changed:
        changed = False
        for n in f.body.find('IfStmt'):
            if any(x.kind == 'DeclRefExpr' and x.refid in tainted for x in n.kids[0].walk()):
                for y in n.kids[1].walk():
                    if (y.kind == 'UnaryOperator' and y.op in ('++', '--')) or y.kind == 'CompoundAssignOperator' or (y.kind == 'BinaryOperator' and y.op == '='):
                        t = strip(y.kids[0])
                        if t.kind == 'DeclRefExpr' and t.refid not in tainted and t.refkind == 'VarDecl':
                            tainted.add(t.refid)
                            changed = True
    # data flow: a local computed from a tainted value is tainted
    changed = True
    while changed:
        changed = False
        for n in f.body.walk():
            tgt, rhs = None, None
            if n.kind == 'VarDecl' and n.kids and n.init:
                tgt, rhs = n.id, n.kids[-1]
            elif n.kind == 'BinaryOperator' and n.op == '=' and strip(n.kids[0]).kind == 'DeclRefExpr':
                tgt, rhs = strip(n.kids[0]).refid, n.kids[1]
            if tgt is not None and tgt not in tainted and any(x.kind == 'DeclRefExpr' and x.refid in tainted for x in rhs.walk()):
                tainted.add(tgt)
                changed = True
    tnames = set(fs.decl[t].name for t in tainted if t in fs.decl)
    for (cn, c, role, arg) in sinks:
        for _once in (1,):
            vars_ = [x for x in arg.walk() if x.kind == 'DeclRefExpr' and x.refid in tainted]
            if not vars_:
                continue
            v = vars_[0]
            rr.instances += 1
            expr = fs.sym(arg)
            lower = upper = False
            for gd in gs:
                if gd.cnode.id not in dom.get(cn.id, ()):
                    continue
                for (op, l, r, node) in gd.atoms:
                    # normalise to  X op Y  with X mentioning the variable
                    for (x, y, o) in ((l, r, op), (r, l, {'<': '>', '>': '<', '<=': '>=', '>=': '<=', '!=': '!=', '==': '=='}[op])):
                        if not (set(x.atoms()) & (set(expr.atoms()) & tnames)) and v.ref not in x.atoms():
                            continue
                        d = x - expr           # x = expr + const
                        if not d.is_const():
                            continue
                        # die if  expr + d.c  o  y
                        if o in ('>=', '>') and not y.is_const():
                            upper = True
                        if o in ('<', '<=') and y.is_const():
                            # dies when expr + d.c < y.c  (or <=): guarantees expr >= y.c - d.c (- 0/1)
                            bound = y.c - d.c + (1 if o == '<=' else 0)
                            if bound >= 0:
                                lower = True
            if not lower and strip(arg, casts=True).kind == 'DeclRefExpr':
                # a counter that starts at a constant >= -1, is only ever incremented, and is incremented before the sink
                vid = strip(arg, casts=True).refid
                ds = fs.defs.get(vid, [])
                incs = [n for n in f.body.walk() if n.kind == 'UnaryOperator' and n.op == '++' and strip(n.kids[0]).kind == 'DeclRefExpr' and strip(n.kids[0]).refid == vid]
                others = [n for n in f.body.walk() if ((n.kind == 'UnaryOperator' and n.op == '--') or n.kind == 'CompoundAssignOperator') and strip(n.kids[0]).kind == 'DeclRefExpr' and strip(n.kids[0]).refid == vid]
                if len(ds) == 1 and int_value(ds[0]) is not None and not others and vid not in [strip(a_.kids[0]).refid for c_ in f.body.find('CallExpr') for a_ in c_.kids[1:] if strip(a_, casts=True).kind == 'UnaryOperator' and strip(a_, casts=True).op == '&' and strip(strip(a_, casts=True).kids[0]).kind == 'DeclRefExpr']:
                    c0 = int_value(ds[0])
                    if c0 >= 0:
                        lower = True
                    elif c0 == -1:
                        for n in incs:
                            owner = [x for x in g.nodes if x.ast is not None and x.kind in ('stmt', 'branch') and any(y is n for y in x.ast.walk())]
                            if owner and (owner[-1].id in dom.get(cn.id, ()) and owner[-1] is not cn or (owner[-1] is cn and (n.line, n.col or 0) < (c.line, c.col or 0))):
                                lower = True
            rr.ob(lower and upper, dict(sink=pp(c)[:60], role=role, expression=pp(arg), lower_bound=lower, upper_bound=upper),
                  Finding(rule, '%s|mzd_from_jcf|%s|%s' % (rule, role, 'lower' if not lower else 'upper'), c.loc, f.name,
                          'the %s index `%s` used at `%s` comes from the file and has no rejecting %s bound against the matrix dimension (index 0, a positive first entry, a wrongly signed or too large value reaches the matrix)' % (
                              role, pp(arg), pp(c)[:40], 'lower' if not lower else 'upper'), {}, label))
    if rr.instances < 2:
        raise AnalysisBroken('I1: expected a tainted row and column index, found %d' % rr.instances)
    return rr


def rule_I3(ctx, prog, label, rule='I3'):
    """Readers: once a reject site was passed (a conditional `goto` to the cleanup ladder, or the error branch of
    setjmp), the function cannot return a non-NULL matrix.  Path-sensitive over (result variable: NULL / maybe set,
    error flag: 0 / non-zero / unknown, rejected: yes/no)."""
    from .cfg import forward, Edges
    rr = RuleResult(rule, 'readers: every reject path returns NULL (no partially filled matrix after an error)')
    for name in ('mzd_from_png', 'mzd_from_jcf'):
        f = prog.func(name)
        g = cfg_of(f)
        fs = FuncSym(f)
        # result variable: the local returned by `return X`
        rets = [r for r in f.body.find('ReturnStmt') if r.kids and strip(r.kids[0], casts=True).kind == 'DeclRefExpr']
        if not rets:
            raise AnalysisBroken('I3: %s returns no variable' % name)
        res = strip(rets[0].kids[0], casts=True)
        rid = res.refid
        assigned_somewhere = any(n.kind == 'BinaryOperator' and n.op == '=' and strip(n.kids[0]).kind == 'DeclRefExpr' and strip(n.kids[0]).refid == rid
                                 and strip(n.kids[1], casts=True).kind == 'CallExpr' for n in f.body.walk())
        flag_ids = set()
        for n in f.body.walk():
            if n.kind == 'VarDecl' and (n.type or '') == 'int' and n.kids and int_value(n.kids[-1]) == 0 and n.name.startswith('ret'):
                flag_ids.add(n.id)
        # state: frozenset of (A, flag, rejected) tuples
        init = frozenset([('NULL', 0, False)])

        def refine_ret(cond, truth, st):
            """prune/refine on  `flag != 0 && A`  style conditions"""
            A, fl, rj = st
            c = strip(cond, casts=True)
            conj = []
            def flat(x):
                x = strip(x, casts=True)
                if x.kind == 'BinaryOperator' and x.op == '&&':
                    flat(x.kids[0]); flat(x.kids[1])
                else:
                    conj.append(x)
            flat(c)
            facts = []
            for x in conj:
                if x.kind == 'BinaryOperator' and x.op in ('!=', '==') and strip(x.kids[0], casts=True).kind == 'DeclRefExpr' and strip(x.kids[0], casts=True).refid in flag_ids and int_value(x.kids[1]) == 0:
                    facts.append(('flag', x.op == '!='))
                elif x.kind == 'DeclRefExpr' and x.refid == rid:
                    facts.append(('A', True))
                else:
                    facts.append(('?', None))
            if not any(k != '?' for k, _ in facts):
                return st
            # evaluate truth of each fact under st
            vals = []
            for k, want in facts:
                if k == 'flag':
                    vals.append(None if fl == '?' else ((fl != 0) == want))
                elif k == 'A':
                    vals.append(False if A == 'NULL' else None)
                else:
                    vals.append(None)
            if truth:
                if any(v is False for v in vals):
                    return None
                nfl = fl
                for (k, want), v in zip(facts, vals):
                    if k == 'flag' and fl == '?':
                        nfl = 'NZ' if want else 0
                return ('SET' if any(k == 'A' for k, _ in facts) else A, nfl, rj)
            else:
                if all(v is True for v in vals):
                    return None
                return st

        def transfer(node, states):
            if node.kind in ('entry', 'label', 'exit'):
                return states
            if node.kind == 'noreturn':
                return frozenset()
            if node.kind == 'branch':
                t, fset = set(), set()
                is_setjmp = any(callee_name(c) in ('setjmp', '_setjmp', '__sigsetjmp') for c in node.ast.find('CallExpr'))
                for st in states:
                    for truth, acc in ((True, t), (False, fset)):
                        s2 = refine_ret(node.ast, truth, st)
                        if s2 is None:
                            continue
                        if is_setjmp and truth:
                            # the error return of setjmp can happen after any later statement
                            s2 = ('SET' if assigned_somewhere else s2[0], s2[1], True)
                        acc.add(s2)
                return Edges({True: frozenset(t), False: frozenset(fset)})
            out = set()
            s = node.ast
            for (A, fl, rj) in states:
                if s.kind == 'GotoStmt':
                    # a goto inside an if-block is a reject site
                    if fs.enclosing(s, ('IfStmt',)) is not None:
                        rj = True
                    out.add((A, fl, rj))
                    continue
                for n in s.walk():
                    if n.kind == 'BinaryOperator' and n.op == '=':
                        l = strip(n.kids[0])
                        if l.kind == 'DeclRefExpr' and l.refid == rid:
                            A = 'NULL' if int_value(n.kids[1]) == 0 else 'SET'
                        if l.kind == 'DeclRefExpr' and l.refid in flag_ids:
                            v = int_value(n.kids[1])
                            fl = ('?' if v is None else (0 if v == 0 else 'NZ'))
                out.add((A, fl, rj))
            return frozenset(out)
        IN = forward(g, init, transfer, lambda a, b: a | b)
        nrej = 0
        for cn in g.nodes:
            if cn.kind == 'stmt' and cn.ast.kind == 'ReturnStmt' and cn.id in IN:
                rv = strip(cn.ast.kids[0], casts=True) if cn.ast.kids else None
                if rv is None or rv.kind != 'DeclRefExpr' or rv.refid != rid:
                    continue
                for (A, fl, rj) in IN[cn.id]:
                    if rj:
                        nrej += 1
                        rr.instances += 1
                        rr.ob(A == 'NULL', dict(function=name, state=dict(result=A, error_flag=fl), verdict='reject path returns NULL'),
                              Finding(rule, '%s|%s|reject-returns-matrix' % (rule, name), cn.ast.loc, name,
                                      'a reject path of %s (error flag %s) can reach `%s` with a matrix that was already created: a damaged file yields a partially filled matrix instead of NULL' % (name, fl, pp(cn.ast)), {}, label))
        if nrej == 0:
            rr.instances += 1
            rr.ob(True, dict(function=name, verdict='no reject path reaches a variable return'))
    return rr


def rule_I4(ctx, prog, label, rule='I4'):
    """Writers: a row buffer allocated once outside the per-row loop and handed to the sink in every iteration is rewritten
    completely in every iteration - no store into it is control-dependent on matrix data (an `if (!tmp) continue;` leaves the
    previous row's bytes in place)."""
    rr = RuleResult(rule, 'PNG writer: the reused row buffer is filled unconditionally in every iteration (no store into it depends on the data being written)')
    f = prog.func('mzd_to_png')
    fs = FuncSym(f)
    sinks = [c for c in f.body.find('CallExpr') if callee_name(c) == 'png_write_row']
    if not sinks:
        raise AnalysisBroken('I4: png_write_row vanished from mzd_to_png')
    for sk in sinks:
        buf = strip(sk.kids[2], casts=True)
        if buf.kind != 'DeclRefExpr':
            raise AnalysisBroken('I4: the row handed to png_write_row is not a local buffer')
        loop = fs.enclosing(sk, ('ForStmt', 'WhileStmt'))
        if loop is None:
            raise AnalysisBroken('I4: png_write_row is not called from a per-row loop')
        rr.instances += 1
        inside_alloc = any(n.kind in ('BinaryOperator',) and n.op == '=' and strip(n.kids[0]).kind == 'DeclRefExpr' and strip(n.kids[0]).refid == buf.refid for n in loop.walk()) or \
            any(n.kind == 'VarDecl' and n.id == buf.refid for n in loop.walk())
        if inside_alloc:
            rr.ob(True, dict(buffer=buf.ref, verdict='allocated per iteration'))
            continue
        # data variables: locals assigned from a load of the matrix row inside the loop
        data_vars = set()
        for n in loop.walk():
            if (n.kind == 'BinaryOperator' and n.op == '=') or (n.kind == 'VarDecl' and n.kids and n.init):
                rhs = n.kids[1] if n.kind == 'BinaryOperator' else n.kids[-1]
                tgt = strip(n.kids[0]).refid if n.kind == 'BinaryOperator' and strip(n.kids[0]).kind == 'DeclRefExpr' else (n.id if n.kind == 'VarDecl' else None)
                if tgt is not None and any(x.kind == 'ArraySubscriptExpr' for x in rhs.walk()) and (fs.decl.get(tgt) is not None) and 'word' in (fs.decl[tgt].type or '') and '*' not in (fs.decl[tgt].type or ''):
                    data_vars.add(tgt)
        bad = None
        for n in loop.walk():
            cond = None
            if n.kind == 'IfStmt':
                cond = n.kids[0]
            elif n.kind == 'ConditionalOperator':
                cond = n.kids[0]
            if cond is not None and any(x.kind == 'DeclRefExpr' and x.refid in data_vars for x in cond.walk()):
                # does this condition control a store into the buffer (directly, or by skipping the rest through continue/break)?
                body = n.kids[1:]
                ctrl = any(y.kind in ('ContinueStmt', 'BreakStmt') for b in body for y in b.walk()) or \
                    any(y.kind == 'BinaryOperator' and y.op == '=' and strip(y.kids[0], casts=True).kind == 'ArraySubscriptExpr'
                        and strip(strip(y.kids[0], casts=True).kids[0], casts=True).kind == 'DeclRefExpr'
                        and strip(strip(y.kids[0], casts=True).kids[0], casts=True).refid == buf.refid for b in body for y in b.walk())
                if ctrl:
                    bad = n
        rr.ob(bad is None, dict(buffer=buf.ref, verdict='reused buffer, every store unconditional'),
              Finding(rule, '%s|mzd_to_png|%s' % (rule, buf.ref), bad.loc if bad is not None else f.loc, f.name,
                      'the row buffer `%s` is allocated once and reused, but `%s` makes its refill depend on the data: bytes of the previous row stay in the buffer and are written to the file'
                      % (buf.ref, pp(bad.kids[0])[:40] if bad is not None else ''), {}, label))
    return rr
