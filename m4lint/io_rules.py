"""Engine I: file readers.  I1: values read by fscanf that reach mzd_write_bit are bounded on both sides by a
rejecting guard on every path.  I2: every PNG header field that determines how many bytes png_read_row writes is
tested (with a rejecting edge) before the row loop."""
from .ast import strip, callee_name, pp, int_value
from .cfg import cfg_of
from .symbolic import FuncSym, Lin
from .driver import RuleResult, Finding
from .frontend import AnalysisBroken

PNG_LAYOUT_FIELDS = {'png_get_bit_depth': 'bit depth', 'png_get_channels': 'channels', 'png_get_color_type': 'colour type',
                     'png_get_interlace_type': 'interlace type'}


def _reach_without(g, start_nodes, blocked):
    seen = set()
    st = list(start_nodes)
    while st:
        n = st.pop()
        if n.id in seen or n.id in blocked:
            continue
        seen.add(n.id)
        for (_l, m) in n.succs:
            st.append(m)
    return seen


def rule_I2(ctx, prog, label, rule='I2'):
    rr = RuleResult(rule, 'PNG reader: bit depth, channels, colour type and interlacing are each tested with a rejecting edge before any row is read')
    f = prog.func('mzd_from_png')
    g = cfg_of(f)
    fs = FuncSym(f)
    read_nodes = [cn for cn in g.nodes if cn.ast is not None and any(callee_name(c) == 'png_read_row' for c in cn.ast.find('CallExpr'))]
    if not read_nodes:
        raise AnalysisBroken('I2: png_read_row call vanished from mzd_from_png')
    fields = {}
    for n in f.body.walk():
        if n.kind == 'VarDecl' and n.kids:
            c = strip(n.kids[-1], casts=True)
            if c is not None and c.kind == 'CallExpr' and callee_name(c) in PNG_LAYOUT_FIELDS:
                fields[n.id] = (n, PNG_LAYOUT_FIELDS[callee_name(c)])
    rr.instances = len(PNG_LAYOUT_FIELDS)
    got = set(v[1] for v in fields.values())
    for gname, what in PNG_LAYOUT_FIELDS.items():
        if what not in got:
            rr.ob(False, None, Finding(rule, '%s|mzd_from_png|%s|unread' % (rule, what), f.loc, f.name,
                                       'the %s of the image is never fetched, so it cannot be validated' % what, {}, label))
    dom = g.dominators()
    for vid, (decl, what) in sorted(fields.items(), key=lambda x: x[1][0].line):
        ok = False
        why = 'never appears in a branch condition'
        for cn in g.nodes:
            if cn.kind != 'branch':
                continue
            if not any(x.kind == 'DeclRefExpr' and x.refid == vid for x in cn.ast.walk()):
                continue
            if not all(cn.id in dom.get(rn.id, ()) for rn in read_nodes):
                why = 'is tested, but not on every path to png_read_row'
                continue
            # one edge must reject: from it, png_read_row is unreachable
            for (lab, m) in cn.succs:
                reach = _reach_without(g, [m], set())
                if not any(rn.id in reach for rn in read_nodes):
                    ok = True
            if not ok:
                why = 'is tested, but neither outcome avoids png_read_row'
        rr.ob(ok, dict(field=what, variable=decl.name, verdict='tested with a rejecting edge before the row loop'),
              Finding(rule, '%s|mzd_from_png|%s' % (rule, what), decl.loc, f.name,
                      'the %s (`%s`) %s: png_read_row then writes more bytes per row than the n/8+1 byte buffer holds' % (what, decl.name, why), {}, label))
    return rr


def rule_I1(ctx, prog, label, rule='I1'):
    rr = RuleResult(rule, 'JCF reader: row and column indices derived from the file are bounded below and above before mzd_write_bit')
    f = prog.func('mzd_from_jcf')
    g = cfg_of(f)
    fs = FuncSym(f)
    from .contracts import guards_of
    gs, _g, _fs = guards_of(f)
    dom = g.dominators()
    sinks = []
    for cn in g.nodes:
        if cn.ast is None:
            continue
        for c in cn.ast.find('CallExpr'):
            if callee_name(c) == 'mzd_write_bit':
                sinks.append((cn, c))
    if not sinks:
        raise AnalysisBroken('I1: mzd_write_bit call vanished from mzd_from_jcf')
    # tainted variables: written through fscanf or updated under a condition on a tainted variable
    tainted = set()
    for c in f.body.find('CallExpr'):
        if callee_name(c) in ('fscanf', 'sscanf'):
            for a in c.kids[3:]:
                a2 = strip(a, casts=True)
                if a2.kind == 'UnaryOperator' and a2.op == '&':
                    tainted.add(strip(a2.kids[0]).refid)
    changed = True
    while changed:
        changed = False
        for n in f.body.find('IfStmt'):
            if any(x.kind == 'DeclRefExpr' and x.refid in tainted for x in n.kids[0].walk()):
                for y in n.kids[1].walk():
                    if (y.kind == 'UnaryOperator' and y.op in ('++', '--')) or y.kind == 'CompoundAssignOperator' or (y.kind == 'BinaryOperator' and y.op == '='):
                        t = strip(y.kids[0])
                        if t.kind == 'DeclRefExpr' and t.refid not in tainted and t.refkind == 'VarDecl':
                            tainted.add(t.refid)
                            changed = True
    for (cn, c) in sinks:
        for role, arg in (('row', c.kids[2]), ('column', c.kids[3])):
            vars_ = [x for x in arg.walk() if x.kind == 'DeclRefExpr' and x.refid in tainted]
            if not vars_:
                continue
            v = vars_[0]
            rr.instances += 1
            expr = fs.sym(arg)
            lower = upper = False
            for gd in gs:
                if gd.cnode.id not in dom.get(cn.id, ()):
                    continue
                for (op, l, r, node) in gd.atoms:
                    # normalise to  X op Y  with X mentioning the variable
                    for (x, y, o) in ((l, r, op), (r, l, {'<': '>', '>': '<', '<=': '>=', '>=': '<=', '!=': '!=', '==': '=='}[op])):
                        if v.ref not in x.atoms():
                            continue
                        d = x - expr           # x = expr + const
                        if not d.is_const():
                            continue
                        # die if  expr + d.c  o  y
                        if o in ('>=', '>') and not y.is_const():
                            upper = True
                        if o in ('<', '<=') and y.is_const():
                            # dies when expr + d.c < y.c  (or <=): guarantees expr >= y.c - d.c (- 0/1)
                            bound = y.c - d.c + (1 if o == '<=' else 0)
                            if bound >= 0:
                                lower = True
            rr.ob(lower and upper, dict(sink=pp(c)[:60], role=role, expression=pp(arg), lower_bound=lower, upper_bound=upper),
                  Finding(rule, '%s|mzd_from_jcf|%s|%s' % (rule, role, 'lower' if not lower else 'upper'), c.loc, f.name,
                          'the %s index `%s` written by mzd_write_bit comes from the file and has no rejecting %s bound (index 0, a positive first entry or a wrongly signed value reaches the matrix)' % (
                              role, pp(arg), 'lower' if not lower else 'upper'), {}, label))
    if rr.instances < 2:
        raise AnalysisBroken('I1: expected a tainted row and column index, found %d' % rr.instances)
    return rr
