"""Rules E3 (every raw allocation result is tested before first use, failing edge -> m4ri_die),
E4 (m4ri_die never returns) and the who-allocates census (C20)."""
from .ast import strip, callee_name, pp, is_null, type_is_pointer
from .cfg import cfg_of, forward, NORETURN, Edges
from .driver import RuleResult, Finding
from .frontend import AnalysisBroken

RAW_ALLOC = {'malloc', 'calloc', 'realloc', '_mm_malloc', 'aligned_alloc', 'strdup', 'valloc', 'memalign',
             'pvalloc', 'strndup'}
OUTPARAM_ALLOC = {'posix_memalign': 0}
THIRD_PARTY_CTOR = {'fopen', 'png_create_read_struct', 'png_create_write_struct', 'png_create_info_struct',
                    'fdopen', 'tmpfile'}
FREE_LIKE = {'free', '_mm_free', 'realloc', 'm4ri_mm_free'}

M, N, T = 'MaybeNull', 'NonNull', 'TestedWithConjunct'
_RANK = {N: 0, T: 1, M: 2}


def key_of(e):
    """Canonical access-path key of a pointer lvalue expression (casts and parens dropped)."""
    e = strip(e, casts=True)
    if e is None:
        return None
    if e.kind == 'DeclRefExpr' and e.refkind in ('VarDecl', 'ParmVarDecl'):
        return e.ref
    if e.kind == 'MemberExpr':
        b = key_of(e.kids[0])
        if b is None:
            return None
        return b + ('->' if e.arrow else '.') + (e.name or '?')
    if e.kind == 'UnaryOperator' and e.op == '*':
        b = key_of(e.kids[0])
        return None if b is None else '*' + b
    return None


def _join(a, b):
    if a == b:
        return a
    out = dict(a)
    for k, v in b.items():
        if k in out:
            if _RANK[v] > _RANK[out[k]]:
                out[k] = v
        else:
            out[k] = v
    return out


class _NullFlow(object):
    """Forward must-be-tested analysis for one function.
    sources: set of callee names whose result may be NULL."""

    def __init__(self, prog, func, sources, safe_alloc):
        self.prog = prog
        self.f = func
        self.sources = sources
        self.safe = safe_alloc
        self.cfg = cfg_of(func)
        self.sites = []         # (node, handle key, callee)
        self.violations = []    # (use node, key, alloc site)
        self.returns = []       # state of returned handle per return
        self.origin = {}        # key -> alloc CallExpr node
        self.conjuncts = set()
        self.untracked = []     # allocation calls whose result is not bound to a trackable handle
        self.null_returns = []  # reachable `return NULL` statements
        self._null_ret_seen = set()

    # -- allocation sites inside a statement ----------------------------------
    def _alloc_assignments(self, stmt):
        """yield (key, callexpr) for handle := alloc(...) inside stmt."""
        out = []
        bound = set()

        def rhs_alloc(e):
            e = strip(e, casts=True)
            if e is not None and e.kind == 'CallExpr' and callee_name(e) in self.sources:
                return e
            return None
        for n in stmt.walk():
            if n.kind == 'BinaryOperator' and n.op == '=':
                c = rhs_alloc(n.kids[1])
                if c is not None:
                    k = key_of(n.kids[0])
                    if k is not None:
                        out.append((k, c))
                        bound.add(c.uid)
                # *h = (T){ ..., .f = alloc(), ...}
                r = strip(n.kids[1], casts=True)
                if r is not None and r.kind == 'CompoundLiteralExpr' and r.kids and r.kids[0].kind == 'InitListExpr':
                    base = key_of(n.kids[0])
                    il = r.kids[0]
                    fields = self._fields_of(il)
                    for i, el in enumerate(il.kids):
                        c = rhs_alloc(el)
                        if c is not None and base is not None and fields and i < len(fields):
                            kk = base[1:] + '->' + fields[i] if base.startswith('*') else base + '.' + fields[i]
                            out.append((kk, c))
                            bound.add(c.uid)
            elif n.kind == 'VarDecl' and n.kids:
                c = rhs_alloc(n.kids[-1])
                if c is not None:
                    out.append((n.name, c))
                    bound.add(c.uid)
            elif n.kind == 'CallExpr' and callee_name(n) in OUTPARAM_ALLOC:
                a = strip(n.kids[1 + OUTPARAM_ALLOC[callee_name(n)]], casts=True)
                if a is not None and a.kind == 'UnaryOperator' and a.op == '&':
                    k = key_of(a.kids[0])
                    if k is not None:
                        out.append((k, n))
                        bound.add(n.uid)
        for n in stmt.walk():
            if n.kind == 'CallExpr' and (callee_name(n) in self.sources or callee_name(n) in OUTPARAM_ALLOC) and n.uid not in bound:
                # result returned directly / passed on: record
                self.untracked.append(n)
        return out

    def _fields_of(self, il):
        t = (il.dtype or il.type or '')
        tag = t.replace('struct ', '').strip()
        rec = self.prog.records.get(tag)
        if rec is None:
            return None
        return [c.name for c in rec.kids if c.kind == 'FieldDecl']

    # -- uses ---------------------------------------------------------------------
    def _uses(self, stmt, state, skip_calls):
        """Check every occurrence of a tracked handle inside stmt; return list of (node, key) bad uses,
        and alias copies [(newkey, key)]."""
        bad = []
        copies = []
        parent = {}
        for n in stmt.walk():
            for c in n.kids:
                parent[c.uid] = n

        def real_parent(n):
            p = parent.get(n.uid)
            while p is not None and p.kind in ('ImplicitCastExpr', 'ParenExpr', 'CStyleCastExpr', 'ConstantExpr'):
                n = p
                p = parent.get(p.uid)
            return p, n
        for n in stmt.walk():
            if n.kind not in ('DeclRefExpr', 'MemberExpr'):
                continue
            k = key_of(n)
            if k is None or k not in state:
                continue
            p, child = real_parent(n)
            if p is None:
                continue
            pk = p.kind
            if pk == 'MemberExpr' and not p.arrow:
                continue  # part of a longer path x.f (handled when the longer key is looked at)
            if pk == 'BinaryOperator' and p.op in ('==', '!=', '&&', '||', ','):
                continue
            if pk == 'UnaryOperator' and p.op in ('!', '&'):
                continue
            if pk in ('IfStmt', 'WhileStmt', 'DoStmt', 'ForStmt', 'ConditionalOperator') and (p.kids[0] is child or pk != 'ConditionalOperator'):
                if pk == 'ConditionalOperator' and p.kids[0] is not child:
                    pass
                else:
                    continue
            if pk == 'BinaryOperator' and p.op == '=':
                if p.kids[0] is child:
                    continue            # redefinition
                lk = key_of(p.kids[0])
                if lk is not None:
                    copies.append((lk, k))
                continue
            if pk == 'VarDecl':
                copies.append((p.name, k))
                continue
            if pk == 'ReturnStmt':
                self.returns.append((p, k, state[k]))
                # the object leaves with its fields: a field that still may be NULL was never tested
                for k2 in sorted(state):
                    if state[k2] == M and (k2.startswith(k + '->') or k2.startswith(k + '.')):
                        self.returns.append((p, k2, M))
                continue
            if pk == 'CallExpr':
                cn = callee_name(p)
                if cn in FREE_LIKE or p.uid in skip_calls and cn in self.sources:
                    continue
                if cn in NORETURN:
                    continue
                if state[k] == M:
                    bad.append((p, k, 'passed to %s()' % cn))
                continue
            if pk == 'MemberExpr' and p.arrow:
                if state[k] == M:
                    bad.append((p, k, 'dereferenced (->%s)' % p.name))
                continue
            if pk == 'ArraySubscriptExpr' or (pk == 'UnaryOperator' and p.op == '*') or \
                    (pk in ('BinaryOperator', 'CompoundAssignOperator') and p.op in ('+', '-', '+=', '-=')) or \
                    (pk == 'UnaryOperator' and p.op in ('++', '--')):
                if state[k] == M:
                    bad.append((p, k, 'dereferenced / used in pointer arithmetic'))
                continue
            if pk == 'InitListExpr':
                continue
            # anything else: conservative use
            if state[k] == M:
                bad.append((p, k, 'used in %s' % pk))
        return bad, copies

    # -- conditions -------------------------------------------------------------------
    def _refine(self, cond, truth, state):
        """Return refined copy of state along the edge cond==truth."""
        st = dict(state)
        self._ref(cond, truth, st, top=True)
        return st

    def _ref(self, c, truth, st, top=False):
        c = strip(c, casts=True)
        if c is None:
            return
        if c.kind == 'CallExpr' and callee_name(c) == '__builtin_expect':
            return self._ref(c.kids[1], truth, st, top)
        if c.kind == 'UnaryOperator' and c.op == '!':
            return self._ref(c.kids[0], not truth, st, top)
        if c.kind == 'BinaryOperator' and c.op in ('==', '!='):
            a, b = c.kids
            k = None
            if is_null(b):
                k = key_of(a)
            elif is_null(a):
                k = key_of(b)
            if k is not None and k in st:
                isnull = (c.op == '==') == truth
                st[k] = M if isnull else N
            return
        if c.kind == 'BinaryOperator' and c.op == '&&':
            if truth:
                self._ref(c.kids[0], True, st)
                self._ref(c.kids[1], True, st)
            else:
                # !(a && b): if a is `h == NULL`, h is non-null *or* b is false
                # the only accepted co-conjunct is `<parameter> > 0` / `!= 0` (zero-size request)
                for i in (0, 1):
                    x = strip(c.kids[i], casts=True)
                    other = strip(c.kids[1 - i], casts=True)
                    okc = False
                    if other is not None and other.kind == 'BinaryOperator' and other.op in ('>', '!='):
                        a, b = strip(other.kids[0], casts=True), other.kids[1]
                        from .ast import int_value
                        if a.kind == 'DeclRefExpr' and a.refkind == 'ParmVarDecl' and int_value(b) == 0:
                            okc = True
                    if not okc:
                        continue
                    tmp = dict(st)
                    self._ref(x, False, tmp)
                    for k in tmp:
                        if tmp[k] == N and st[k] == M:
                            st[k] = T
                            self.conjuncts.add('%s: %s' % (c.loc, pp(c)))
            return
        if c.kind == 'BinaryOperator' and c.op == '||':
            if not truth:
                self._ref(c.kids[0], False, st)
                self._ref(c.kids[1], False, st)
            return
        k = key_of(c)
        if k is not None and k in st:
            st[k] = N if truth else M
        return

    # -- run ------------------------------------------------------------------------------
    def run(self):
        cfg = self.cfg

        def transfer(node, state):
            if node.kind in ('entry', 'exit', 'label'):
                return state
            if node.kind == 'branch' or node.kind == 'switch':
                bad, _ = self._uses_in_cond(node.ast, state)
                self._record(bad)
                if node.kind == 'switch':
                    return state
                return Edges({True: self._refine(node.ast, True, state), False: self._refine(node.ast, False, state)})
            stmt = node.ast
            if stmt.kind == 'ReturnStmt' and stmt.kids and is_null(stmt.kids[0]) and stmt.uid not in self._null_ret_seen:
                self._null_ret_seen.add(stmt.uid)
                self.null_returns.append(stmt)
            allocs = self._alloc_assignments(stmt)
            skip = set(c.uid for _, c in allocs)
            bad, copies = self._uses(stmt, state, skip)
            self._record(bad)
            st = state
            if allocs or copies:
                st = dict(state)
            for (k, c) in allocs:
                st[k] = M
                self.origin.setdefault(k, c)
                if (c.uid, k) not in [(s[0].uid, s[1]) for s in self.sites]:
                    self.sites.append((c, k, callee_name(c)))
            for (nk, k) in copies:
                if nk not in [a for a, _ in allocs]:
                    st[nk] = state[k]
                    self.origin.setdefault(nk, self.origin.get(k))
            # plain assignment of NULL keeps/sets MaybeNull: x = NULL
            for n in stmt.walk():
                if n.kind == 'BinaryOperator' and n.op == '=' and is_null(n.kids[1]):
                    k = key_of(n.kids[0])
                    if k in st:
                        if st is state:
                            st = dict(state)
                        st[k] = M
            return st
        self._seen_bad = set()
        forward(cfg, {}, transfer, _join)
        return self

    def _uses_in_cond(self, cond, state):
        # wrap: a bare condition; uses such as `h->x` inside a condition are dereferences
        bad = []
        parent = {}
        for n in cond.walk():
            for c in n.kids:
                parent[c.uid] = n
        for n in cond.walk():
            if n.kind == 'MemberExpr' and n.arrow:
                k = key_of(n.kids[0])
                if k in state and state[k] == M:
                    bad.append((n, k, 'dereferenced (->%s) in condition' % n.name))
            if n.kind == 'ArraySubscriptExpr' or (n.kind == 'UnaryOperator' and n.op == '*'):
                k = key_of(n.kids[0])
                if k in state and state[k] == M:
                    bad.append((n, k, 'dereferenced in condition'))
            if n.kind == 'CallExpr' and callee_name(n) != '__builtin_expect':
                for a in n.kids[1:]:
                    k = key_of(a)
                    if k in state and state[k] == M and callee_name(n) not in FREE_LIKE:
                        bad.append((n, k, 'passed to %s() in condition' % callee_name(n)))
        return bad, []

    def _record(self, bad):
        for (n, k, how) in bad:
            sig = (n.uid, k)
            if sig in self._seen_bad:
                continue
            self._seen_bad.add(sig)
            self.violations.append((n, k, how, self.origin.get(k)))


def _returns_alloc(prog, f, sources):
    """Does f return (a handle bound to) the result of a call in `sources`? -> list of return states."""
    fl = _NullFlow(prog, f, sources, set()).run()
    return fl


def safe_allocators(prog):
    """Least fixpoint: functions returning a pointer that is the result of a raw/safe allocation and is
    NonNull (or Tested) on every return; result need not be tested by callers."""
    safe = {}
    changed = True
    rounds = 0
    while changed:
        changed = False
        rounds += 1
        for f in prog.all_funcs():
            if f.name in safe or not type_is_pointer(f.rettype):
                continue
            srcs = set(RAW_ALLOC) | set(OUTPARAM_ALLOC)
            has = False
            for c in f.body.find('CallExpr'):
                cn = callee_name(c)
                if cn in srcs or cn in safe:
                    has = True
            if not has:
                continue
            fl = _NullFlow(prog, f, set(RAW_ALLOC), set(safe)).run()
            if not fl.sites:
                # pure forwarding of a safe allocator: return safe(...)
                continue
            if fl.violations:
                continue
            # every return of a tracked handle must be N or T, and at least one tracked return
            rets = [r for r in fl.returns]
            if rets and all(st in (N, T) for (_, _, st) in rets) and not fl.null_returns:
                safe[f.name] = dict(conjuncts=sorted(fl.conjuncts), sites=len(fl.sites))
                changed = True
    return safe


def allocator_classes(prog):
    """(safe, unsafe): pointer-returning functions that hand on an allocation result - `safe` if every return is
    tested (NULL -> m4ri_die), `unsafe` if a possibly-NULL result can be returned; fixpoint over wrappers of wrappers."""
    safe, unsafe = {}, set()
    changed = True
    rounds = 0
    while changed and rounds < 8:
        changed = False
        rounds += 1
        for f in prog.all_funcs():
            if f.name in safe or f.name in unsafe or not type_is_pointer(f.rettype):
                continue
            srcs = set(RAW_ALLOC) | unsafe
            if not any((callee_name(c) in srcs or callee_name(c) in OUTPARAM_ALLOC) for c in f.body.find('CallExpr')):
                continue
            fl = _NullFlow(prog, f, srcs, set(safe)).run()
            if not fl.sites and not fl.untracked:
                continue
            rets = fl.returns
            direct = [c for c in fl.untracked]     # `return malloc(..)` style
            if fl.violations:
                continue      # reported by E3 itself
            if (rets and any(st == M for (_r, _k, st) in rets)) or direct or (fl.null_returns and fl.sites):
                unsafe.add(f.name)
                changed = True
            elif rets and all(st in (N, T) for (_r, _k, st) in rets):
                safe[f.name] = dict(conjuncts=sorted(fl.conjuncts), sites=len(fl.sites))
                changed = True
    return safe, unsafe


def rule_E3(ctx, prog, label):
    rr = RuleResult('E3', 'every raw libc allocation result is NULL-tested (failing edge -> m4ri_die) before first use, on every path')
    nsites = 0
    safe_, unsafe_ = allocator_classes(prog)
    rr.extra['allocators_that_may_return_null'] = sorted(unsafe_)
    srcs_ = set(RAW_ALLOC) | unsafe_
    for f in prog.all_funcs():
        if not any(callee_name(c) in srcs_ or callee_name(c) in OUTPARAM_ALLOC for c in f.body.find('CallExpr')):
            continue
        fl = _NullFlow(prog, f, srcs_, set()).run()
        viol_by_site = {}
        for (n, k, how, origin) in fl.violations:
            viol_by_site.setdefault(origin.uid if origin is not None else None, []).append((n, how + (' (through the copy `%s`)' % k)))
        for (c, k, cn) in fl.sites:
            nsites += 1
            v = viol_by_site.get(c.uid)
            # which test discharges it: for the sample
            fnd = None
            if v:
                n, how = v[0]
                fnd = Finding('E3', 'E3|%s|%s|%s' % (f.name, cn, k), c.loc, f.name,
                              'result of %s() stored in `%s` is %s at %s without a NULL test that ends in m4ri_die' % (cn, k, how, n.loc),
                              dict(allocation=pp(c), first_unchecked_use=pp(n), use_location=n.loc), label)
            rr.ob(not v, dict(function=f.name, handle=k, allocator=cn, site=c.loc, verdict='tested before every use'), fnd)
        for c in fl.untracked:
            nsites += 1
            # result not bound to a handle: only acceptable when directly returned by a wrapper (then callers test) -> flag
            rr.ob(False, None, Finding('E3', 'E3|%s|%s|unbound' % (f.name, callee_name(c)), c.loc, f.name,
                                       'result of %s() is not bound to a variable/field that can be tested' % callee_name(c),
                                       dict(call=pp(c)), label))
        # returns of maybe-null handles from non-wrapper functions
        for (rn, k, st) in fl.returns:
            if st == M:
                nsites += 0
                rr.ob(False, None, Finding('E3', 'E3|%s|return|%s' % (f.name, k), rn.loc, f.name,
                                           'possibly-NULL allocation result `%s` is returned untested' % k, {}, label))
        if fl.conjuncts:
            rr.extra.setdefault('guard_conjuncts', []).extend(sorted(fl.conjuncts))
    rr.instances = nsites
    rr.require_floor(12, 'raw allocation sites')
    return rr


def rule_E3_third_party(ctx, prog, label):
    rr = RuleResult('E3-3p', 'third-party constructors (fopen, png_create_*): NULL result tested before use; failing edge returns or dies')
    n = 0
    for f in prog.all_funcs():
        if not any(callee_name(c) in THIRD_PARTY_CTOR for c in f.body.find('CallExpr')):
            continue
        fl = _NullFlow(prog, f, set(THIRD_PARTY_CTOR), set()).run()
        vs = {}
        for (nn, k, how, origin) in fl.violations:
            vs.setdefault(origin.uid if origin is not None else None, []).append((nn, how))
        for (c, k, cn) in fl.sites:
            n += 1
            v = vs.get(c.uid)
            fnd = None
            if v:
                nn, how = v[0]
                fnd = Finding('E3-3p', 'E3-3p|%s|%s|%s' % (f.name, cn, k), c.loc, f.name,
                              'result of %s() in `%s` is %s at %s before any NULL test' % (cn, k, how, nn.loc),
                              dict(allocation=pp(c), use=pp(nn)), label)
            rr.ob(not v, dict(function=f.name, handle=k, constructor=cn, site=c.loc), fnd)
        for c in fl.untracked:
            n += 1
            rr.ob(False, None, Finding('E3-3p', 'E3-3p|%s|%s|unbound' % (f.name, callee_name(c)), c.loc, f.name,
                                       'result of %s() not bound to a testable handle' % callee_name(c), {}, label))
    rr.instances = n
    rr.require_floor(5, 'third-party constructor sites')
    return rr


def rule_E3_census(ctx, prog, label):
    """Who allocates: every other allocation request goes through a wrapper for which E3 holds."""
    rr = RuleResult('E3-census', 'every allocation request is a raw call (E3), a safe wrapper call, or a third-party constructor')
    safe, _unsafe = allocator_classes(prog)
    rr.extra['safe_wrappers'] = safe
    for w in ('m4ri_mm_malloc', 'm4ri_mm_calloc', 'm4ri_mm_malloc_aligned'):
        if w not in prog.funcs:
            raise AnalysisBroken('allocation wrapper %s vanished' % w)
        rr.instances += 1
        rr.ob(w in safe, dict(wrapper=w, verdict='returns only tested results', conjuncts=safe.get(w, {}).get('conjuncts')),
              Finding('E3-census', 'E3-census|wrapper|%s' % w, prog.funcs[w].loc, w,
                      'allocation wrapper %s can return an untested NULL (its NULL test no longer ends in m4ri_die on every path)' % w, {}, label))
    # transitive wrappers: functions that return the result of a safe wrapper unchanged (mmc layer, mzd_t_malloc)
    nsafe_calls = 0
    for f in prog.all_funcs():
        for c in f.body.find('CallExpr'):
            cn = callee_name(c)
            if cn in safe:
                nsafe_calls += 1
    rr.instances += nsafe_calls
    rr.extra['calls_to_safe_wrappers'] = nsafe_calls
    rr.obligations += nsafe_calls
    rr.discharged += nsafe_calls
    return rr


def rule_E4(ctx, prog, label):
    rr = RuleResult('E4', 'm4ri_die never returns: every path from its entry ends in abort(), none reaches a return')
    f = prog.func('m4ri_die')
    cfg = cfg_of(f)
    reach = cfg.reachable()
    rr.instances = 1
    aborts = [n for n in cfg.nodes if n.kind == 'noreturn' and n.id in reach and callee_name(strip(n.ast)) in ('abort', 'exit', '_exit')]
    exit_reachable = cfg.exit.id in reach
    loops = [n for n in cfg.nodes if n.kind == 'label' and n.tag and n.tag[0] == 'loop' and n.id in reach]
    ok = bool(aborts) and not exit_reachable and not loops
    rr.ob(ok, dict(function='m4ri_die', abort_calls=len(aborts), exit_reachable=exit_reachable),
          Finding('E4', 'E4|m4ri_die', f.loc, 'm4ri_die',
                  'm4ri_die can return to its caller (%s): every "checked" precondition in the library then falls through' % (
                      'a path reaches the end of the function' if exit_reachable else 'no abort() call' if not aborts else 'contains a loop'), {}, label))
    # and the declaration is what callers rely on: all library calls to m4ri_die are statement-level
    return rr
