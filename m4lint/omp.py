"""Engine H: OpenMP regions (race freedom).  H1 parallel-for: everything written in the body is private, the loop
variable, declared in the body, or memory addressed injectively by the loop variable.  H2 sections: the write sets
are pairwise disjoint windows, the shared operands are read-only, and each section multiplies blocks at matching
positions.  G3: the allocator cache is only touched inside `omp critical(mmc)`."""
import os
import re

from .ast import strip, callee_name, pp, int_value, type_is_pointer, REPO
from .symbolic import FuncSym, Lin
from .driver import RuleResult, Finding
from .frontend import AnalysisBroken
from .configs import _is_cache_global


def pragma_text(node):
    """The #pragma line(s) of a directive (with backslash continuations)."""
    path = node.file
    if not path or not os.path.exists(path):
        return ''
    lines = open(path, errors='replace').read().splitlines()
    i = (node.line or 1) - 1
    # the directive node's line is the pragma line
    out = ''
    while 0 <= i < len(lines):
        l = lines[i]
        out += l.rstrip('\\')
        if not l.rstrip().endswith('\\'):
            break
        i += 1
    return out


def clause_vars(text, clause):
    vs = set()
    for m in re.finditer(r'\b%s\s*\(([^)]*)\)' % clause, text):
        for v in m.group(1).split(','):
            vs.add(v.strip().split(':')[-1].strip())
    return vs


def _body_of(d):
    for c in d.kids:
        if c.kind == 'CapturedStmt':
            for g in c.kids:
                if g.kind == 'CapturedDecl' and g.kids:
                    return g.kids[0]
        if c.kind in ('CompoundStmt', 'ForStmt'):
            return c
    return None


def rule_H1(ctx, prog, label, rule='H1'):
    rr = RuleResult(rule, 'parallel for: every write in the body goes to a private/body-local variable or to memory addressed injectively by the loop variable')
    eff = ctx.effects(prog)
    for f in sorted(prog.all_funcs(), key=lambda f: (f.file, f.line)):
        dirs = [n for n in f.body.walk() if n.kind == 'OMPParallelForDirective']
        if not dirs:
            continue
        fs = FuncSym(f)
        Q = eff.query(f)
        for d in dirs:
            loop = _body_of(d)
            if loop is None or loop.kind != 'ForStmt':
                raise AnalysisBroken('H1: parallel for without a for statement in %s' % f.name)
            rr.instances += 1
            text = pragma_text(d)
            priv = clause_vars(text, 'private') | clause_vars(text, 'firstprivate') | clause_vars(text, 'lastprivate')
            iv = fs._induction(loop)
            if iv is None:
                rr.ob(False, None, Finding(rule, '%s|%s|loop-shape' % (rule, f.name), d.loc, f.name, 'parallel loop is not a canonical counted loop', {}, label))
                continue
            vid = iv[0]
            vname = fs.decl[vid].name
            body = loop.kids[4]
            local_ids = set(n.id for n in body.walk() if n.kind == 'VarDecl')
            problems = []

            def ok_var(ref):
                return ref.refid in local_ids or ref.refid == vid or ref.ref in priv

            def index_mentions_v(e):
                return any(x.kind == 'DeclRefExpr' and x.refid == vid for x in e.walk())

            def injective_ptr(e, depth=0):
                """pointer expression whose target is a function of the loop variable"""
                e = strip(e, casts=True)
                if e is None or depth > 6:
                    return False
                if e.kind == 'CallExpr' and callee_name(e) in ('mzd_row', 'mzd_row_const'):
                    return index_mentions_v(e.kids[2])
                if e.kind == 'BinaryOperator' and e.op in ('+', '-'):
                    return injective_ptr(e.kids[0], depth + 1) or injective_ptr(e.kids[1], depth + 1)
                if e.kind == 'ArraySubscriptExpr':
                    return index_mentions_v(e.kids[1])
                if e.kind == 'DeclRefExpr':
                    if e.refid in local_ids:
                        d0 = fs.single_def(e.refid)
                        return injective_ptr(d0, depth + 1) if d0 is not None else False
                    return False
                return False
            for n in body.walk():
                lhs = None
                if n.kind == 'BinaryOperator' and n.op == '=':
                    lhs = n.kids[0]
                elif n.kind == 'CompoundAssignOperator' or (n.kind == 'UnaryOperator' and n.op in ('++', '--')):
                    lhs = n.kids[0]
                if lhs is not None:
                    l = strip(lhs, casts=True)
                    base = l
                    through_ptr = False
                    while base.kind in ('ArraySubscriptExpr', 'MemberExpr') or (base.kind == 'UnaryOperator' and base.op == '*'):
                        if base.kind == 'ArraySubscriptExpr':
                            b0 = base.kids[0]
                            if not (strip(b0).kind == 'ImplicitCastExpr' and False):
                                pass
                            inner = b0
                            while inner.kind in ('ParenExpr',):
                                inner = inner.kids[0]
                            if not (inner.kind == 'ImplicitCastExpr' and inner.cast == 'ArrayToPointerDecay'):
                                through_ptr = True
                            base = strip(b0, casts=True)
                        elif base.kind == 'MemberExpr':
                            if base.arrow:
                                through_ptr = True
                            base = strip(base.kids[0], casts=True)
                        else:
                            through_ptr = True
                            base = strip(base.kids[0], casts=True)
                        if base.kind == 'UnaryOperator' and base.op in ('++', '--'):
                            base = strip(base.kids[0], casts=True)
                    if base.kind == 'DeclRefExpr' and base.refkind in ('VarDecl', 'ParmVarDecl'):
                        if through_ptr:
                            # store through a pointer: the pointer must be injective in v (or body-local derived so)
                            if not (injective_ptr(base) or (l.kind == 'ArraySubscriptExpr' and injective_ptr(l))):
                                if not ok_var(base) or not injective_ptr(base):
                                    problems.append('store `%s` through `%s`, which is not addressed by the loop variable' % (pp(n)[:60], base.ref))
                        elif not ok_var(base):
                            problems.append('`%s` is written in the body but is neither private nor declared in the body' % base.ref)
                if n.kind == 'CallExpr':
                    cn = callee_name(n)
                    S = eff.summary(cn, f) if cn else None
                    if cn in ('m4ri_die',):
                        continue
                    if S is None:
                        continue
                    for (r, part) in S.writes:
                        if r[0] == 'g':
                            if _is_cache_global(r[1]):
                                continue    # allocator: guarded by omp critical (rule G3)
                            problems.append('call `%s` writes the global %s' % (pp(n)[:50], r[1]))
                        elif r[0] == 'p' and r[1] < len(n.kids) - 1:
                            a = n.kids[1 + r[1]]
                            a2 = strip(a, casts=True)
                            if a2.kind == 'DeclRefExpr' and a2.refid in local_ids and not type_is_pointer(a2.type):
                                continue
                            if injective_ptr(a2):
                                continue
                            if a2.kind == 'DeclRefExpr' and a2.refid in local_ids and '[' in (fs.decl[a2.refid].type or ''):
                                continue      # array declared in the body: one per iteration
                            if a2.kind == 'DeclRefExpr' and a2.ref in priv:
                                continue
                            problems.append('call `%s` writes through argument `%s`, which every iteration shares' % (pp(n)[:50], pp(a2)[:30]))
            rr.ob(not problems, dict(function=f.name, pragma=text.strip()[:100], loop_variable=vname, private=sorted(priv)),
                  Finding(rule, '%s|%s|%s' % (rule, f.name, vname), d.loc, f.name,
                          'data race in `%s`: %s' % (text.strip()[:70], problems[0] if problems else ''), dict(problems=problems[:5]), label))
    rr.require_floor(7, 'parallel for regions')
    return rr


def _definite(stmt, D, tracked, report):
    """Java-style definite assignment over the statement tree of one loop iteration.
    D: set of tracked names certainly written on every path so far (None = unreachable).  Returns the set after stmt."""
    if stmt is None or D is None:
        return D
    k = stmt.kind

    def expr(e, D):
        """check reads in evaluation order (approximated: operands before the assignment takes effect)"""
        if e is None:
            return D
        e0 = strip(e, casts=True)
        if e0 is None:
            return D
        if e0.kind == 'BinaryOperator' and e0.op == '=':
            l = strip(e0.kids[0], casts=True)
            D = expr(e0.kids[1], D)
            base = l
            sub = []
            while base.kind == 'ArraySubscriptExpr':
                sub.append(base.kids[1])
                base = strip(base.kids[0], casts=True)
            for sx in sub:
                D = expr(sx, D)
            if base.kind == 'DeclRefExpr' and base.ref in tracked:
                return D | {base.ref}
            if base.kind != 'DeclRefExpr':
                D = expr(l, D)
            return D
        if e0.kind in ('ConditionalOperator',):
            D1 = expr(e0.kids[0], D)
            a = expr(e0.kids[1], D1)
            b = expr(e0.kids[2], D1)
            return a & b
        if e0.kind == 'BinaryOperator' and e0.op in ('&&', '||'):
            D1 = expr(e0.kids[0], D)
            expr(e0.kids[1], D1)
            return D1
        if e0.kind == 'DeclRefExpr':
            if e0.ref in tracked and e0.ref not in D:
                report(e0)
            return D
        if e0.kind == 'CallExpr' and callee_name(e0) == 'm4ri_die':
            return None
        for c in e0.kids:
            D = expr(c, D)
            if D is None:
                return None
        return D

    if k == 'CompoundStmt':
        for c in stmt.kids:
            D = _definite(c, D, tracked, report)
        return D
    if k == 'DeclStmt':
        for v in stmt.kids:
            if v.kind == 'VarDecl' and v.kids and v.init:
                D = expr(v.kids[-1], D)
        return D
    if k == 'IfStmt':
        D1 = expr(stmt.kids[0], D)
        a = _definite(stmt.kids[1], D1, tracked, report)
        b = _definite(stmt.kids[2], D1, tracked, report) if len(stmt.kids) > 2 else D1
        if a is None:
            return b
        if b is None:
            return a
        return a & b
    if k in ('ForStmt', 'WhileStmt', 'DoStmt'):
        if k == 'ForStmt':
            init, _cv, cond, inc, body = stmt.kids
            D = _definite(init, D, tracked, report) if init.kind != 'Null' else D
            D1 = expr(cond, D) if cond.kind != 'Null' else D
            D2 = _definite(body, D1, tracked, report)
            if inc.kind != 'Null' and D2 is not None:
                expr(inc, D2)
            return D1
        if k == 'WhileStmt':
            D1 = expr(stmt.kids[0], D)
            _definite(stmt.kids[-1], D1, tracked, report)
            return D1
        D2 = _definite(stmt.kids[0], D, tracked, report)
        return expr(stmt.kids[1], D2) if D2 is not None else None
    if k == 'SwitchStmt':
        D1 = expr(stmt.kids[0], D)
        body = stmt.kids[-1]
        exits = []
        cur = None
        has_default = False

        def run(st, cur):
            # unwrap nested labels: case 8: case 7: stmt
            while st.kind in ('CaseStmt', 'DefaultStmt'):
                if st.kind == 'DefaultStmt':
                    nonlocal_default[0] = True
                cur = D1 if cur is None else (cur & D1)
                st = st.kids[-1]
            if cur is None:
                return None
            if st.kind == 'BreakStmt':
                exits.append(cur)
                return None
            return _definite(st, cur, tracked, report)
        nonlocal_default = [False]
        for st in (body.kids if body.kind == 'CompoundStmt' else [body]):
            cur = run(st, cur)
        if cur is not None:
            exits.append(cur)
        if not nonlocal_default[0]:
            exits.append(D1)
        if not exits:
            return None
        out = exits[0]
        for x in exits[1:]:
            out = out & x
        return out
    if k in ('BreakStmt', 'ContinueStmt', 'ReturnStmt', 'GotoStmt'):
        return None if k != 'ContinueStmt' else None
    if k in ('NullStmt', 'Null'):
        return D
    if k in ('CaseStmt', 'DefaultStmt', 'LabelStmt'):
        return _definite(stmt.kids[-1], D, tracked, report)
    return expr(stmt, D)


def rule_H3(ctx, prog, label, rule='H3'):
    """parallel for: iterations are independent of the schedule - a private/firstprivate variable that the body writes is
    written before it is read in the same iteration (no value is carried from whichever iteration the thread ran before)."""
    rr = RuleResult(rule, 'parallel for: no private or firstprivate variable carries a value from one iteration to the next '
                          '(every read in the body is preceded by a write in the same iteration on all paths)')
    for f in sorted(prog.all_funcs(), key=lambda f: (f.file, f.line)):
        dirs = [n for n in f.body.walk() if n.kind == 'OMPParallelForDirective']
        for d in dirs:
            loop = _body_of(d)
            if loop is None or loop.kind != 'ForStmt':
                raise AnalysisBroken('H3: parallel for without a for statement in %s' % f.name)
            text = pragma_text(d)
            priv = clause_vars(text, 'private') | clause_vars(text, 'firstprivate') | clause_vars(text, 'lastprivate')
            body = loop.kids[4]
            written = set()
            for n in body.walk():
                lhs = None
                if (n.kind == 'BinaryOperator' and n.op == '=') or n.kind == 'CompoundAssignOperator' or (n.kind == 'UnaryOperator' and n.op in ('++', '--')):
                    base = strip(n.kids[0], casts=True)
                    while base.kind == 'ArraySubscriptExpr':
                        base = strip(base.kids[0], casts=True)
                    if base.kind == 'DeclRefExpr':
                        written.add(base.ref)
                if n.kind == 'UnaryOperator' and n.op == '&':
                    base = strip(n.kids[0], casts=True)
                    if base.kind == 'DeclRefExpr':
                        written.add(base.ref)
            tracked = frozenset(v for v in priv if v in written)
            rr.instances += 1
            bad = []
            _definite(body, frozenset(), tracked, lambda e: bad.append(e))
            names = sorted(set(e.ref for e in bad))
            rr.ob(not bad, dict(function=f.name, pragma=text.strip()[:90], written_private=sorted(tracked)),
                  Finding(rule, '%s|%s|carried|%s' % (rule, f.name, ','.join(names)), (bad[0].loc if bad else d.loc), f.name,
                          'iterations of `%s` are not independent: `%s` is read before it is written in the iteration, so its value comes from '
                          'whichever iteration the same thread ran before (depends on team size and schedule)' % (text.strip()[:60], names[0] if names else ''), {}, label))
    rr.require_floor(7, 'parallel for regions')
    return rr


def rule_H4(ctx, prog, label, rule='H4'):
    """plain `omp parallel` regions with hand-rolled work distribution: a loop that starts at omp_get_thread_num() must
    stride by omp_get_num_threads() evaluated inside the region (the size of the executing team)."""
    rr = RuleResult(rule, 'hand-rolled work sharing in plain parallel regions strides by the size of the executing team '
                          '(omp_get_num_threads() inside the region), not by a value fixed outside it')
    for f in sorted(prog.all_funcs(), key=lambda f: (f.file, f.line)):
        dirs = [n for n in f.body.walk() if n.kind == 'OMPParallelDirective']
        if not dirs:
            continue
        fs = FuncSym(f)
        for d in dirs:
            region = _body_of(d)
            if region is None:
                raise AnalysisBroken('H4: parallel region without a body in %s' % f.name)
            inside = set(n.uid for n in region.walk())
            local_ids = set(n.id for n in region.walk() if n.kind == 'VarDecl')

            def mentions(e, fn, depth=0):
                """does e evaluate fn() *inside the region* (directly or through a region-local single-definition variable)?"""
                for x in e.walk():
                    if x.kind == 'CallExpr' and callee_name(x) == fn and x.uid in inside:
                        return True
                    if x.kind == 'DeclRefExpr' and x.refid in local_ids and depth < 3:
                        d0 = fs.single_def(x.refid)
                        if d0 is not None and mentions(d0, fn, depth + 1):
                            return True
                return False
            loops = []
            for lp in region.walk():
                if lp.kind != 'ForStmt':
                    continue
                init = lp.kids[0]
                iv = None
                if init.kind == 'DeclStmt' and init.kids and init.kids[0].kids:
                    iv = init.kids[0].kids[-1]
                elif init.kind == 'BinaryOperator' and init.op == '=':
                    iv = init.kids[1]
                if iv is not None and mentions(iv, 'omp_get_thread_num'):
                    loops.append(lp)
            if not loops:
                raise AnalysisBroken('H4: plain parallel region in %s at %s distributes work in a way this engine does not model' % (f.name, d.loc))
            for lp in loops:
                rr.instances += 1
                inc = strip(lp.kids[3])
                ok = inc is not None and inc.kind == 'CompoundAssignOperator' and inc.op == '+=' and mentions(inc.kids[1], 'omp_get_num_threads')
                rr.ob(ok, dict(function=f.name, loop=pp(lp.kids[3])[:40]),
                      Finding(rule, '%s|%s|stride' % (rule, f.name), lp.loc, f.name,
                              'work-sharing loop starts at omp_get_thread_num() but advances by `%s`, which is not omp_get_num_threads() of the executing team: '
                              'with a smaller team (nested region, thread limit) some shares are never computed' % pp(lp.kids[3])[:40], {}, label))
    return rr


def _windows(f, fs):
    """local window variables: name -> (parent name, lowr, lowc, highr, highc) as Lin"""
    out = {}
    for n in f.body.walk():
        if n.kind == 'VarDecl' and n.kids:
            c = strip(n.kids[-1], casts=True)
            if c is not None and c.kind == 'CallExpr' and callee_name(c) in ('mzd_init_window', 'mzd_init_window_const'):
                out[n.name] = (fs.base_name(c.kids[1]),) + tuple(fs.sym(a) for a in c.kids[2:6])
    return out


def rule_H2(ctx, prog, label, rule='H2'):
    rr = RuleResult(rule, 'parallel sections: write sets are pairwise disjoint windows, shared operands are read-only, each product multiplies blocks at matching positions')
    eff = ctx.effects(prog)
    for f in sorted(prog.all_funcs(), key=lambda f: (f.file, f.line)):
        dirs = [n for n in f.body.walk() if n.kind in ('OMPParallelSectionsDirective', 'OMPSectionsDirective')]
        if not dirs:
            continue
        fs = FuncSym(f)
        W = _windows(f, fs)
        for d in dirs:
            secs = [n for n in d.walk() if n.kind == 'OMPSectionDirective']
            writes = []
            for s_ in secs:
                ws = set()
                for c in s_.find('CallExpr'):
                    cn = callee_name(c)
                    S = eff.summary(cn, f) if cn else None
                    if S is None:
                        continue
                    for (r, part) in S.writes:
                        if r[0] == 'p' and r[1] < len(c.kids) - 1 and part in ('data', 'hdr'):
                            a = strip(c.kids[1 + r[1]], casts=True)
                            ws.add(pp(a))
                        elif r[0] == 'g' and not _is_cache_global(r[1]):
                            ws.add('global:' + r[1])
                    # F7: C_xy <- A_x? * B_?y  positions
                    if cn in ('_mzd_addmul_even', '_mzd_mul_even', '_mzd_addmul', 'mzd_addmul', '_mzd_addmul_mp4', '_mzd_mul_mp4') and len(c.kids) >= 4:
                        names = [pp(strip(a, casts=True)) for a in c.kids[1:4]]
                        if all(n_ in W for n_ in names):
                            Cw, Aw, Bw = (W[n_] for n_ in names)
                            rr.instances += 1
                            okp = (Cw[1], Cw[3]) == (Aw[1], Aw[3]) and (Cw[2], Cw[4]) == (Bw[2], Bw[4]) and (Aw[2], Aw[4]) == (Bw[1], Bw[3])
                            rr.ob(okp, dict(function=f.name, product=pp(c)[:50]) if rr.instances % 4 == 1 else None,
                                  Finding(rule, '%s|%s|position|%s' % (rule, f.name, '*'.join(names)), c.loc, f.name,
                                          '`%s`: the blocks are not at matching positions (rows of C vs rows of A, columns of C vs columns of B, columns of A vs rows of B)' % pp(c)[:60],
                                          dict(C=[repr(x) for x in Cw[1:]], A=[repr(x) for x in Aw[1:]], B=[repr(x) for x in Bw[1:]]), label))
                writes.append(ws)
            # pairwise disjointness
            for i in range(len(writes)):
                for j in range(i + 1, len(writes)):
                    rr.instances += 1
                    problems = []
                    for a in writes[i]:
                        for b in writes[j]:
                            if a == b:
                                problems.append('both write `%s`' % a)
                            elif a in W and b in W:
                                if W[a][0] == W[b][0] and not _disjoint(W[a], W[b]):
                                    problems.append('windows `%s` and `%s` of %s overlap' % (a, b, W[a][0]))
                            else:
                                problems.append('write targets `%s` / `%s` are not local windows' % (a, b))
                    rr.ob(not problems, dict(function=f.name, sections=[i, j], writes=[sorted(writes[i]), sorted(writes[j])]) if (i, j) == (0, 1) else None,
                          Finding(rule, '%s|%s|sections-%d-%d' % (rule, f.name, i, j), secs[i].loc, f.name,
                                  'sections %d and %d of the parallel region race: %s' % (i, j, problems[0] if problems else ''), {}, label))
    rr.require_floor(12, 'section pairs and positioned products')
    return rr


def _disjoint(a, b):
    """rectangles (parent, lowr, lowc, highr, highc): disjoint if one's high bound equals / precedes the other's low in a dimension"""
    for lo, hi in ((1, 3), (2, 4)):
        for x, y in ((a, b), (b, a)):
            d = y[lo] - x[hi]
            if d.is_const() and d.c >= 0:
                return True
    return False


def rule_G3(ctx, prog, label, rule='G3'):
    rr = RuleResult(rule, 'with OpenMP every access to the block cache and its static cursor is inside `omp critical(mmc)`')
    targets = {'m4ri_mmc_cache'}
    for f in sorted(prog.all_funcs(), key=lambda f: (f.file, f.line)):
        fs = None
        statics = set(n.id for n in f.body.walk() if n.kind == 'VarDecl' and n.storage == 'static')
        for n in f.body.walk():
            if n.kind == 'DeclRefExpr' and ((n.ref in targets and n.refkind == 'VarDecl') or n.refid in statics):
                if fs is None:
                    fs = FuncSym(f)
                # skip const statics
                dd = fs.decl.get(n.refid)
                if dd is not None and 'const' in (dd.type or ''):
                    continue
                rr.instances += 1
                crit = fs.enclosing(n, ('OMPCriticalDirective',))
                ok = crit is not None and 'mmc' in pragma_text(crit)
                rr.ob(ok, dict(function=f.name, access=n.ref),
                      Finding(rule, '%s|%s|%s' % (rule, f.name, n.ref), n.loc, f.name,
                              '`%s` is accessed outside `#pragma omp critical(mmc)`: concurrent OpenMP workers race on the block cache' % n.ref, {}, label))
    rr.require_floor(4, 'accesses to the block cache')
    return rr
