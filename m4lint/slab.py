"""E5h - the header slab allocator hands out only free entries.

Predicate abstraction of mzd_t_malloc over four predicates - current_cache is FULL / has ROOM, the cursor `cache` is NULL /
FULL / has ROOM, `ret` is NULL / SET, and one opaque comparison of the block counter - explored exhaustively on the CFG
(every branch condition built from these predicates is evaluated exactly, with short-circuit semantics; anything else is
nondeterministic).  Obligation: where an entry is taken from `current_cache` (`&current_cache->mzd[..]`,
`current_cache->used |= ..`), current_cache has ROOM in every reachable abstract state; and no cursor is dereferenced while
it may be NULL.  With a FULL block, log2_floor(~used) = log2_floor(0) = 0 and the live header in entry 0 is handed out again."""
from .ast import strip, callee_name, int_value, pp, is_null
from .cfg import cfg_of
from .frontend import AnalysisBroken

FULL, ROOM, NULL_, SET = 'F', 'R', 'N', 'S'


def _is_allones(e):
    e = strip(e, casts=True)
    if e is None:
        return False
    if e.kind == 'UnaryOperator' and e.op == '-' and int_value(e.kids[0]) == 1:
        return True
    v = int_value(e)
    return v is not None and v in (-1, (1 << 64) - 1)


class Slab(object):
    def __init__(self, f, cc_name='current_cache'):
        self.f = f
        self.cc = cc_name
        self.cursor = None
        for n in f.body.walk():
            if n.kind == 'VarDecl' and 'mzd_t_cache_t' in (n.type or '') and '*' in (n.type or ''):
                self.cursor = n
        self.ret = None
        for n in f.body.walk():
            if n.kind == 'VarDecl' and (n.type or '').replace(' ', '') == 'mzd_t*':
                self.ret = n
                break
        self.problems = []

    # abstract state: (cc, cur, ret, P)   P in {None(unknown), True, False}
    def ev(self, e, st):
        """possible truth values of condition e in state st -> set of (bool, st') (st' refined)"""
        e = strip(e, casts=True)
        cc, cur, ret, P = st
        if e.kind == 'UnaryOperator' and e.op == '!':
            return set((not b, s) for (b, s) in self.ev(e.kids[0], st))
        if e.kind == 'BinaryOperator' and e.op in ('&&', '||'):
            out = set()
            for (b, s) in self.ev(e.kids[0], st):
                if (e.op == '&&' and not b) or (e.op == '||' and b):
                    out.add((b, s))
                else:
                    out |= self.ev(e.kids[1], s)
            return out
        if e.kind == 'CallExpr' and callee_name(e) == '__builtin_expect':
            return self.ev(e.kids[1], st)
        if e.kind == 'DeclRefExpr':
            if self.cursor is not None and e.refid == self.cursor.id:
                if cur == '?':
                    return {(False, (cc, NULL_, ret, P)), (True, (cc, FULL, ret, P)), (True, (cc, ROOM, ret, P))}
                return {(cur != NULL_, st)}
            if self.ret is not None and e.refid == self.ret.id:
                return {(ret == SET, st)}
        if e.kind == 'BinaryOperator' and e.op in ('==', '!='):
            a, b = strip(e.kids[0], casts=True), strip(e.kids[1], casts=True)
            for (x, y) in ((a, b), (b, a)):
                if x.kind == 'MemberExpr' and x.name == 'used' and _is_allones(y):
                    base = strip(x.kids[0], casts=True)
                    if base.kind == 'DeclRefExpr' and base.ref == self.cc:
                        if cc == '?':
                            res = {(True, (FULL, cur, ret, P)), (False, (ROOM, cur, ret, P))}
                        else:
                            res = {(cc == FULL, st)}
                        return set(((b_ if e.op == '==' else not b_), s) for (b_, s) in res)
                    if self.cursor is not None and base.kind == 'DeclRefExpr' and base.refid == self.cursor.id:
                        if cur == NULL_:
                            self.problems.append(('null-deref', e))
                            return set()
                        if cur == '?':
                            self.problems.append(('null-deref', e))
                            res = {(True, (cc, FULL, ret, P)), (False, (cc, ROOM, ret, P))}
                        else:
                            res = {(cur == FULL, st)}
                        return set(((b_ if e.op == '==' else not b_), s) for (b_, s) in res)
                if is_null(y):
                    if self.ret is not None and x.kind == 'DeclRefExpr' and x.refid == self.ret.id:
                        return {((ret != SET) if e.op == '==' else (ret == SET), st)}
                    if self.cursor is not None and x.kind == 'DeclRefExpr' and x.refid == self.cursor.id:
                        return set(((not b_) if e.op == '==' else b_, s) for (b_, s) in self.ev(x, st))
        if e.kind == 'BinaryOperator' and e.op in ('<', '>=', '>', '<='):
            # one opaque comparison of the block counter against the limit: i < MAX  (and its complement)
            txt = pp(e)
            if '__M4RI_MZD_T_CACHE_MAX' in txt or int_value(e.kids[1]) is not None:
                val = e.op in ('<', '<=')
                if P is None:
                    return {(val, (cc, cur, ret, True)), (not val, (cc, cur, ret, False))}
                return {((P if val else not P), st)}
        return {(True, st), (False, st)}

    def effect(self, ast, st):
        """apply the assignments of one statement in source order"""
        cc, cur, ret, P = st
        for n in sorted([x for x in ast.walk() if (x.kind == 'BinaryOperator' and x.op == '=') or x.kind == 'CompoundAssignOperator' or
                         (x.kind == 'UnaryOperator' and x.op in ('++', '--')) or (x.kind == 'VarDecl' and x.kids and x.init)],
                        key=lambda x: (x.line or 0, x.col or 0)):
            if n.kind == 'VarDecl':
                tgt_id, tgt_name, rhs = n.id, n.name, n.kids[-1]
                lhs = None
            elif n.kind == 'UnaryOperator':
                P = None      # the counter moved: the comparison is open again
                continue
            else:
                lhs = strip(n.kids[0], casts=True)
                rhs = n.kids[1]
                tgt_id = lhs.refid if lhs.kind == 'DeclRefExpr' else None
                tgt_name = lhs.ref if lhs.kind == 'DeclRefExpr' else None
                # taking an entry: current_cache->used |= ...
                if lhs.kind == 'MemberExpr' and lhs.name == 'used' and strip(lhs.kids[0], casts=True).kind == 'DeclRefExpr' and strip(lhs.kids[0], casts=True).ref == self.cc and n.kind == 'CompoundAssignOperator' and n.op == '|=':
                    if cc != ROOM:
                        self.problems.append(('take-from-full', n))
                    continue
            r0 = strip(rhs, casts=True)
            if tgt_name == self.cc:
                if self.cursor is not None and r0.kind == 'DeclRefExpr' and r0.refid == self.cursor.id:
                    if cur in (NULL_, '?'):
                        self.problems.append(('null-cursor-stored', n))
                    cc = FULL if cur == FULL else ROOM if cur == ROOM else '?'
                else:
                    cc = '?'
            elif self.cursor is not None and tgt_id == self.cursor.id:
                if r0.kind == 'CallExpr' and 'malloc' in (callee_name(r0) or ''):
                    cur = ROOM           # fresh block, zeroed by the memset that follows (checked by C5 / E1)
                elif r0.kind == 'UnaryOperator' and r0.op == '&':
                    cur = '?nn'          # address of the static block: non-NULL, fill state unknown
                elif r0.kind == 'MemberExpr' and r0.name in ('next', 'prev'):
                    if cur in (NULL_,):
                        self.problems.append(('null-deref', n))
                    cur = '?'
                else:
                    cur = '?'
            elif self.ret is not None and tgt_id == self.ret.id:
                if is_null(rhs):
                    ret = 'N'
                else:
                    # &current_cache->mzd[...] takes an entry
                    if any(x.kind == 'MemberExpr' and x.name == 'mzd' and strip(x.kids[0], casts=True).kind == 'DeclRefExpr' and strip(x.kids[0], casts=True).ref == self.cc for x in r0.walk()):
                        if cc != ROOM:
                            self.problems.append(('take-from-full', n))
                    ret = SET
        if cur == '?nn':
            cur = '?nn'
        return (cc, cur, ret, P)

    def run(self):
        g = cfg_of(self.f)
        init = ('?', '?', 'N', None)
        seen = set()
        work = [(g.entry, init)]
        while work:
            node, st = work.pop()
            # '?nn' (non-null unknown) splits into FULL / ROOM lazily
            if st[1] == '?nn':
                work.append((node, (st[0], FULL, st[2], st[3])))
                work.append((node, (st[0], ROOM, st[2], st[3])))
                continue
            key = (node.id, st)
            if key in seen:
                continue
            seen.add(key)
            if len(seen) > 20000:
                raise AnalysisBroken('E5h: abstract state space of %s exploded' % self.f.name)
            if node.kind == 'branch' and node.ast is not None:
                for (b, s2) in self.ev(node.ast, st):
                    for lab, m in node.succs:
                        if lab is b or lab == b:
                            work.append((m, s2))
                continue
            if node.kind == 'stmt' and node.ast is not None:
                st = self.effect(node.ast, st)
            if node.kind == 'noreturn':
                continue
            for lab, m in node.succs:
                work.append((m, st))
        return len(seen)
