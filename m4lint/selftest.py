"""Positive controls: selftest/controls.c is parsed together with the library; each control function violates one
rule whose expected count on the library is zero, and that rule must report it (otherwise the rule is dead)."""
import os

from . import frontend
from .driver import RuleResult
from .frontend import AnalysisBroken, VERIF

CONTROLS = os.path.join(VERIF, 'selftest', 'controls.c')


def rule_selftest(ctx, cfg, label, which=None, rule='selftest'):
    from . import const_rules as CR, resources as R, nullcheck as NC, masks as M, align as AL, globals_engine as G, families as BF
    rr = RuleResult(rule, 'positive controls: each deliberately broken function in selftest/controls.c is reported by its rule')
    prog = frontend.load_program(cfg, extra_units=[CONTROLS])
    if prog.errors:
        raise AnalysisBroken('selftest/controls.c does not compile: %s' % list(prog.errors.values())[0][-300:])

    class _Ctx(object):
        def __init__(self, outer):
            self._eff = {}

        def effects(self, p):
            from .effects import Effects
            if id(p) not in self._eff:
                self._eff[id(p)] = Effects(p)
            return self._eff[id(p)]
    c2 = _Ctx(ctx)
    tests = {
        'A1': (lambda: CR.rule_A1(c2, prog, label), 'm4lint_ctl_A1'),
        'E1-leak': (lambda: R.rule_E1(c2, prog, label, only_funcs={'m4lint_ctl_E1_leak'}), 'm4lint_ctl_E1_leak'),
        'E1-kind': (lambda: R.rule_E1(c2, prog, label, only_funcs={'m4lint_ctl_E1_kind'}), 'm4lint_ctl_E1_kind'),
        'E3': (lambda: NC.rule_E3(c2, prog, label), 'm4lint_ctl_E3'),
        'C1': (lambda: M.rule_C1(c2, prog, label, only={'m4lint_ctl_C1'}), 'm4lint_ctl_C1'),
        'MV1': (lambda: M.rule_MV1(c2, prog, label, placers=('m4lint_ctl_MV1',)), 'm4lint_ctl_MV1'),
        'S1': (lambda: M.rule_S1(c2, prog, label), 'm4lint_ctl_S1'),
        'S1-width': (lambda: M.rule_S1(c2, prog, label), 'm4lint_ctl_S1w'),
        'G1': (lambda: G.rule_G1(c2, prog, label), 'm4lint_ctl_G1'),
        'B7p': (lambda: BF.rule_B7p(c2, prog, label), 'm4lint_ctl_B7p'),
    }
    if cfg['openmp']:
        from . import omp as H
        tests['H3'] = (lambda: H.rule_H3(c2, prog, label), 'm4lint_ctl_H3')
        tests['H4'] = (lambda: H.rule_H4(c2, prog, label), 'm4lint_ctl_H4')
    if cfg['sse2']:
        tests['D0'] = (lambda: AL.rule_D0(c2, prog, label), 'm4lint_ctl_D0')
    for name, (run, fn) in sorted(tests.items()):
        if which is not None and name.split('-')[0] not in which:
            continue
        rr.instances += 1
        if fn not in prog.funcs:
            raise AnalysisBroken('selftest: control function %s missing' % fn)
        res = run()
        hit = [f for f in res.findings if f.func == fn or fn in f.key or fn in f.msg]
        rr.ob(bool(hit), dict(control=fn, rule=name, reported=hit[0].msg[:120] if hit else None))
        if not hit:
            raise AnalysisBroken('positive control %s is not reported by rule %s: the rule is dead' % (fn, name))
    return rr
