#!/bin/sh
# re-run every claimed check (quick) against /repo and validate manifest + evidence; used before committing
cd /verif || exit 2
unset M4LINT_REPO
python3-vt tools_mkmanifest.py || exit 2
rc=0
for p in $(python3 -c "import json;print(' '.join(c['property_id'] for c in json.load(open('MANIFEST.json'))['checks']))"); do
  ./check $p quick > .cache/last_$p.log 2>&1; r=$?
  tail -1 .cache/last_$p.log
  [ $r -ne 0 ] && { echo "  !! $p exit $r"; rc=1; }
done
python3-vt - <<'PY'
import json, jsonschema, sys
m = json.load(open('/verif/MANIFEST.json'))
sch = json.load(open('/root/.vp/EVIDENCE.schema.json'))
bad = 0
for c in m['checks']:
    e = json.load(open('/verif/' + c['evidence_file']))
    jsonschema.validate(e, sch)
    if e['level'] != c['level_claimed']['category']:
        print('LEVEL MISMATCH', c['property_id'], e['level'], c['level_claimed']['category']); bad = 1
    if e['level'] == 'proof' and e['coverage']['obligations'] != e['coverage']['discharged']:
        print('PROOF NOT DISCHARGED', c['property_id']); bad = 1
print('evidence ok' if not bad else 'EVIDENCE PROBLEMS')
sys.exit(bad)
PY
[ $? -ne 0 ] && rc=1
exit $rc
