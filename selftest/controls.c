/* Positive controls for m4lint (parsed together with the library on every run of the checks that use
 * zero-expected-count rules; never compiled into anything).  Each function violates exactly one rule and
 * the named rule MUST report it - otherwise the rule passes vacuously and the check exits 2. */
#include <m4ri/m4ri.h>
#include <stdlib.h>
#if __M4RI_HAVE_SSE2
#include <emmintrin.h>
#endif

/* A1: write through a const operand after casting the qualifier away */
int m4lint_ctl_A1(mzd_t const *A) {
  mzd_row((mzd_t *)A, 0)[0] = 0;
  return A->nrows;
}

/* E1 leak: the window is not released on the early return */
int m4lint_ctl_E1_leak(mzd_t *A) {
  mzd_t *W = mzd_init_window(A, 0, 0, 1, 64);
  if (mzd_is_zero(W)) return 1;
  mzd_free_window(W);
  return 0;
}

/* E1 kind: a permutation window released with the owner's destructor */
void m4lint_ctl_E1_kind(mzp_t *P) {
  mzp_t *W = mzp_init_window(P, 0, 1);
  mzp_free(W);
}

/* E3: allocation result used without a NULL test */
int *m4lint_ctl_E3(int n) {
  int *p = (int *)malloc(sizeof(int) * n);
  p[0] = n;
  return p;
}

/* C1: whole-word store into the last word of a caller's matrix */
void m4lint_ctl_C1(mzd_t *M) {
  for (rci_t i = 0; i < M->nrows; ++i) {
    word *row = mzd_row(M, i);
    for (wi_t j = 0; j < M->width; ++j) row[j] = 0;
  }
}

/* MV1: a data mover that adds the source to whatever its destination held */
void m4lint_ctl_MV1(mzd_t *C, mzd_t const *B) {
  for (rci_t i = 0; i < B->nrows; ++i) {
    for (rci_t j = 0; j < B->ncols; j += m4ri_radix) {
      int const n = MIN(m4ri_radix, B->ncols - j);
      mzd_xor_bits(C, i, j, n, mzd_read_bits(B, i, j, n));
    }
  }
}

/* S1: row pointer of B advanced by A's rowstride */
word m4lint_ctl_S1(mzd_t const *A, mzd_t const *B) {
  word const *b = mzd_row_const(B, 0);
  word acc      = 0;
  for (rci_t i = 0; i < A->nrows; ++i, b += A->rowstride) acc ^= b[0];
  return acc;
}

/* S1 (width step): row base pointer moved to the next row by the width instead of the rowstride */
void m4lint_ctl_S1w(mzd_t *M) {
  word *row = mzd_row(M, 0);
  for (rci_t i = 0; i < M->nrows; ++i, row += M->width) {
    for (wi_t j = 0; j + 1 < M->width; ++j) row[j] = ~row[j];
  }
}

/* G1: static scratch state written outside the load-time constructor */
int m4lint_ctl_G1(int x) {
  static int last;
  last = x;
  return last;
}

#if __M4RI_HAVE_SSE2
/* D0: 16-byte vector access without a phase test */
void m4lint_ctl_D0(word *a, word const *b) {
  __m128i *x       = (__m128i *)a;
  __m128i const *y = (__m128i const *)b;
  *x               = _mm_xor_si128(*x, *y);
}
#endif

#if __M4RI_HAVE_OPENMP
#include <omp.h>
/* H4: hand-rolled work sharing that strides by a team size fixed outside the region */
void m4lint_ctl_H4(mzd_t *M) {
  int const nthreads = omp_get_max_threads();
#pragma omp parallel
  {
    for (rci_t i = omp_get_thread_num(); i < M->nrows; i += nthreads) mzd_row(M, i)[0] = 0;
  }
}
/* H3: a firstprivate variable carries a value from the previous iteration of the same thread */
void m4lint_ctl_H3(mzd_t *M) {
  word carry = 0;
#pragma omp parallel for firstprivate(carry)
  for (rci_t i = 0; i < M->nrows; ++i) {
    word *r = mzd_row(M, i);
    r[0] ^= carry;
    carry = r[0];
  }
}
#endif

/* B7p: parity fold of a 64-bit word that starts at 16: bits 32..63 never reach bit 0 */
int m4lint_ctl_B7p(word x) {
  x ^= x >> 16;
  x ^= x >> 8;
  x ^= x >> 4;
  x ^= x >> 2;
  x ^= x >> 1;
  return (int)(x & 1);
}
